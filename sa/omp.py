"""E-omp: OpenMP data-sharing classification on clang-14's JSON AST (property C10).

What this engine is: a *definite-race detector*.  For every `omp parallel`
region it classifies every store (assignment, compound assignment, ++/--,
pointer out-arguments of callees through write summaries, BLAS/LAPACK output
arguments from a frozen table) as

  thread-private   the memory written is a variable declared inside the region,
                   a clause-private / reduction variable, a worksharing
                   induction variable, or memory allocated inside the region;
  partitioned      the address expression is data-dependent (through
                   assignments and loop initialisers) on the induction
                   variable of an enclosing worksharing loop, or on
                   omp_get_thread_num();
  protected        lexically inside critical / atomic / single / master;
  violation        none of the above: every thread of the team (or several
                   iterations handed to different threads) stores to the same
                   shared location.

It is NOT a race-freedom proof: injectivity of the index arithmetic derived
from the induction variable is assumed, read/write conflicts are not looked
at, and the taint analysis is flow-insensitive inside a region.

Machinery: (1) per function a field-insensitive inclusion-based points-to
analysis (objects: what parameter k points to, globals, allocation sites,
local variables); (2) per function summaries (parameters written through,
globals written, what the return value points to), iterated to a fixpoint
over all translation units together with the function-pointer target table;
(3) per region a label propagation (TID, WS(loop)) over private variables.

Only parsing; nothing is compiled or run."""
import ast
import re

from sa.core import AnalysisError
from sa import cfacts
from sa.cfacts import kids

TID = "TID"

PARALLEL = {"OMPParallelDirective": "parallel", "OMPParallelForDirective": "parallel for",
            "OMPParallelForSimdDirective": "parallel for simd"}
WS = {"OMPForDirective": "for", "OMPParallelForDirective": "parallel for",
      "OMPForSimdDirective": "for simd", "OMPParallelForSimdDirective": "parallel for simd"}
SIMD = {"OMPSimdDirective": "simd"}   # no threading semantics: its loop variable is private, body transparent
PROTECT = {"OMPCriticalDirective": "critical", "OMPSingleDirective": "single",
           "OMPMasterDirective": "master", "OMPAtomicDirective": "atomic"}
ONE_THREAD = ("single", "master")
BARRIER = {"OMPBarrierDirective": "barrier"}
KNOWN_CLAUSES = {"private", "firstprivate", "lastprivate", "reduction", "shared", "default",
                 "schedule", "collapse", "nowait", "num_threads", "if", "ordered",
                 "simdlen", "safelen", "aligned", "linear", "proc_bind"}

ALLOC = {"malloc": None, "calloc": None, "fftw_malloc": None, "alloca": None, "realloc": None,
         "mkl_malloc": None}

# external functions: 0-based indices of the pointer arguments they write through.
# BLAS/LAPACK (Fortran calling convention, every argument a pointer): output array + info.
EXTERN_WRITES = {
    "dgemm_": [11], "zgemm_": [11], "dgemv_": [9], "dsymm_": [10], "daxpy_": [3], "dscal_": [2],
    "dcopy_": [3], "dpotrf_": [2, 4], "dpotrs_": [5, 7], "dtrtri_": [3, 5], "dsyrk_": [8], "dger_": [7],
    "memset": [0], "memcpy": [0], "memmove": [0],
    "fftw_execute": [], "fftw_destroy_plan": [], "fftw_free": [], "fftw_init_threads": [],
    "fftw_plan_with_nthreads": [], "fftw_plan_many_dft": [], "fftw_plan_many_dft_c2r": [],
    "fftw_plan_many_dft_r2c": [],
    "printf": [], "free": [], "exit": [], "setbuf": [], "__assert_fail": [],
    "xc_func_init": [0], "xc_func_set_dens_threshold": [0],
    "xc_lda_exc_vxc": [3, 4], "xc_gga_exc_vxc": [4, 5, 6], "xc_mgga_exc_vxc": [6, 7, 8, 9, 10],
    "omp_get_thread_num": [], "omp_get_num_threads": [], "omp_get_max_threads": [],
    # Intel MKL DFTI (only reached in the MKL build configuration of fft_wrapper)
    "DftiComputeForward": [1, 2], "DftiComputeBackward": [1, 2], "DftiCreateDescriptor": [0],
    "DftiSetValue": [0], "DftiCommitDescriptor": [0], "DftiFreeDescriptor": [0], "DftiErrorMessage": [],
    "mkl_get_max_threads": [], "mkl_set_num_threads": [], "mkl_free": [],
}
NTHREADS_FUNCS = ("omp_get_num_threads", "omp_get_max_threads")

_ARITH = {"const", "volatile", "unsigned", "signed", "int", "long", "short", "char", "double", "float",
          "size_t", "ssize_t", "ptrdiff_t", "uint8_t", "int8_t", "uint16_t", "int16_t", "uint32_t",
          "int32_t", "uint64_t", "int64_t", "_Bool", "bool", "_Complex", "complex", "restrict",
          "__restrict", "FINT", "void"}


def qt(n):
    t = n.get("type")
    return t.get("qualType", "") if isinstance(t, dict) else ""


def is_arith(q):
    return all(tok in _ARITH for tok in re.findall(r"\w+|[^\s\w]", q))


def is_array(q):
    return q.rstrip().endswith("]")


def ptrish(q):
    """may hold (or be) an address: pointers, arrays, structs, unknown typedefs"""
    return not is_arith(q)


def strip(n):
    while n.get("kind") in ("ImplicitCastExpr", "ParenExpr", "CStyleCastExpr", "ConstantExpr"):
        k = kids(n)
        if not k:
            break
        n = k[0]
    return n


def omp_kind(n):
    k = n.get("kind", "")
    return k if k.startswith("OMP") and k.endswith("Directive") else None


def omp_body(n):
    """The associated statement of a directive (None for stand-alone ones).  The
    JSON dump repeats the captured statement's declarations as siblings; only the
    first child of the CapturedDecl is the body."""
    ks = kids(n)
    for c in ks:
        if c["kind"] == "CapturedStmt":
            cd = kids(c)
            if not cd or cd[0]["kind"] != "CapturedDecl" or not kids(cd[0]):
                raise AnalysisError("unrecognised CapturedStmt shape under %s" % n["kind"])
            return kids(cd[0])[0]
    stm = [c for c in ks if not c["kind"].endswith("Attr")]
    return stm[0] if stm else None


def children(n):
    """AST children along which statements/expressions are traversed exactly once."""
    if omp_kind(n):
        b = omp_body(n)
        return [b] if b is not None else []
    if n.get("kind") in ("OMPCapturedExprDecl", "CapturedDecl", "RecordDecl"):
        return []
    return kids(n)


def pwalk(n):
    todo = [n]
    while todo:
        x = todo.pop()
        yield x
        todo.extend(reversed(children(x)))


def for_slots(n):
    """ForStmt -> (init, cond, inc, body); absent slots are None."""
    inner = [c if (isinstance(c, dict) and c.get("kind")) else None for c in (n.get("inner") or [])]
    if len(inner) != 5:
        raise AnalysisError("unrecognised ForStmt shape (%d children)" % len(inner))
    return inner[0], inner[2], inner[3], inner[4]


def var_init(n):
    ks = [c for c in kids(n) if not c["kind"].endswith("Attr")]
    return ks[-1] if ks else None


# ----------------------------------------------------------------------------
# pragma text
# ----------------------------------------------------------------------------
class Pragma:
    def __init__(self, text, directive, clauses):
        self.text = text
        self.directive = directive
        self.clauses = clauses  # list of (name, argtext or None)

    def args(self, name):
        return [a for n, a in self.clauses if n == name]

    def varlist(self, name):
        out = []
        for a in self.args(name):
            if a is None:
                continue
            if name == "reduction":
                if ":" not in a:
                    raise AnalysisError("reduction clause without operator: %s" % self.text)
                a = a.split(":", 1)[1]
            out += [v.strip() for v in a.split(",") if v.strip()]
        return out

    def collapse(self):
        a = self.args("collapse")
        if not a:
            return 1
        try:
            return int(a[0])
        except (TypeError, ValueError):
            raise AnalysisError("collapse argument is not an integer literal: %s" % self.text)


_DIRWORDS = ("parallel", "for", "simd", "single", "critical", "barrier", "master", "atomic")


def pragma_of(tu, node):
    off = node.get("range", {}).get("begin", {}).get("offset")
    if off is None:
        raise AnalysisError("OpenMP directive without source offset in %s" % tu.rel)
    text = tu.text
    ls = text.rfind("\n", 0, off) + 1
    out = []
    pos = ls
    while True:
        eol = text.find("\n", pos)
        if eol < 0:
            eol = len(text)
        line = text[pos:eol]
        if line.rstrip().endswith("\\"):
            out.append(line.rstrip()[:-1])
            pos = eol + 1
            continue
        out.append(line)
        break
    full = " ".join(out)
    m = re.match(r"\s*#\s*pragma\s+omp\b(.*)$", full, re.S)
    if not m:
        raise AnalysisError("cannot recover pragma text of %s in %s (found %r)" % (node["kind"], tu.rel, full[:60]))
    rest = m.group(1)
    rest = re.sub(r"/\*.*?\*/", " ", rest, flags=re.S)
    rest = re.sub(r"/\*.*$", " ", rest, flags=re.S)   # comment continuing on the next line
    rest = re.sub(r"//.*$", "", rest)
    toks = []
    i = 0
    while i < len(rest):
        if rest[i].isspace() or rest[i] == ",":
            i += 1
            continue
        m2 = re.match(r"[A-Za-z_]\w*", rest[i:])
        if not m2:
            raise AnalysisError("cannot tokenise pragma: %s" % full.strip())
        name = m2.group(0)
        i += len(name)
        j = i
        while j < len(rest) and rest[j].isspace():
            j += 1
        arg = None
        if j < len(rest) and rest[j] == "(":
            depth = 0
            k = j
            while k < len(rest):
                if rest[k] == "(":
                    depth += 1
                elif rest[k] == ")":
                    depth -= 1
                    if depth == 0:
                        break
                k += 1
            if depth != 0:
                raise AnalysisError("unbalanced parentheses in pragma: %s" % full.strip())
            arg = re.sub(r"\s+", " ", rest[j + 1:k]).strip()
            i = k + 1
        toks.append((name, arg))
    dirw = []
    while toks and toks[0][0] in _DIRWORDS and (toks[0][1] is None or toks[0][0] == "critical"):
        dirw.append(toks.pop(0)[0])
    directive = " ".join(dirw)
    for name, _ in toks:
        if name not in KNOWN_CLAUSES:
            raise AnalysisError("unrecognised OpenMP clause %r in: %s" % (name, full.strip()))
    return Pragma(re.sub(r"\s+", " ", full).strip(), directive, toks)


# ----------------------------------------------------------------------------
# functions, points-to, summaries
# ----------------------------------------------------------------------------
def _minimal(sets):
    """keep only the inclusion-minimal sets (a superset is implied by its subset)"""
    out = []
    for d in sorted(set(sets), key=lambda x: (len(x), sorted(map(str, x)))):
        if not any(o <= d for o in out):
            out.append(d)
    return frozenset(out[:48])


class Summary:
    def __init__(self):
        self.writes = set()    # parameter indices written through
        # parameter index -> set of frozensets: for every store through that parameter, the
        # parameters whose *values* flow (assignments, loop initialisers) into the store's address
        self.wdeps = {}
        self.gwrites = set()   # names of globals (or statics) written
        self.returns = set()   # parameter indices / "alloc" / "unknown" the result may point to
        self.unresolved = set()  # descriptions of function-pointer calls without targets
        self.orphan_omp = False

    def key(self):
        return (frozenset(self.writes), frozenset(self.gwrites), frozenset(self.returns),
                frozenset(self.unresolved), frozenset((k, v) for k, v in self.wdeps.items()))


class Func:
    def __init__(self, prog, tu, decl):
        self.prog = prog
        self.tu = tu
        self.decl = decl
        self.name = decl["name"]
        self.params = [c for c in kids(decl) if c["kind"] == "ParmVarDecl"]
        self.pidx = {p["id"]: i for i, p in enumerate(self.params)}
        self.body = None
        for c in kids(decl):
            if c["kind"] == "CompoundStmt":
                self.body = c
        self.vars = {p["id"]: p for p in self.params}
        self.statics = set()
        self.assigns = []  # (lhs lvalue node | VarDecl node, rhs node)
        self.stores = []   # lvalue nodes
        self.cassigns = []  # (lhs, rhs|None) of compound assignments and ++/--
        self.dep = {}      # var id -> parameter indices whose values flow into it
        self._refs_cache = {}
        self.calls = []
        self.returns = []
        self.regions = []  # OMP parallel directive nodes (outermost)
        self.has_omp_outside_region = False
        self.pts = {}
        for i, p in enumerate(self.params):
            self.dep[p["id"]] = {i}
            if ptrish(qt(p)):
                self.pts[p["id"]] = {("param", i)}
        self._collect()

    # -- one pass over the body ---------------------------------------------
    def _collect(self):
        if self.body is None:
            return
        todo = [(self.body, False)]
        while todo:
            n, inreg = todo.pop()
            k = n.get("kind")
            ok = omp_kind(n)
            if ok:
                if ok in PARALLEL:
                    if not inreg:
                        self.regions.append(n)
                    inreg2 = True
                else:
                    if not inreg:
                        self.has_omp_outside_region = True
                    inreg2 = inreg
                for c in children(n):
                    todo.append((c, inreg2))
                continue
            if k == "VarDecl":
                self.vars[n["id"]] = n
                off = n.get("range", {}).get("begin", {}).get("offset")
                if off is not None and re.match(r"static\b", self.tu.text[off:off + 7]):
                    self.statics.add(n["id"])
                init = var_init(n)
                if init is not None:
                    self.assigns.append((n, init))
            elif k == "BinaryOperator" and n.get("opcode") == "=":
                a, b = kids(n)
                self.assigns.append((a, b))
                self.stores.append(a)
            elif k == "CompoundAssignOperator":
                self.stores.append(kids(n)[0])
                self.cassigns.append((kids(n)[0], kids(n)[1]))
            elif k == "UnaryOperator" and n.get("opcode") in ("++", "--"):
                self.stores.append(kids(n)[0])
            elif k == "CallExpr":
                self.calls.append(n)
            elif k == "ReturnStmt":
                if kids(n):
                    self.returns.append(kids(n)[0])
            for c in reversed(children(n)):
                todo.append((c, inreg))

    # -- objects --------------------------------------------------------------
    def obj_of_var(self, rd):
        if rd["id"] in self.vars and rd["id"] not in self.statics:
            return ("var", rd["id"])
        return ("global", rd.get("name", "?"))

    def content(self, obj):
        if obj[0] in ("param", "global", "unknown"):
            return {obj}
        if obj[0] == "var":
            return self.pts.get(obj[1], set())
        return self.pts.get(obj, set())

    def pts_expr(self, e):
        """objects a pointer-valued (or struct-valued) rvalue may point into"""
        e = strip(e)
        k = e.get("kind")
        if k in ("DeclRefExpr", "MemberExpr", "ArraySubscriptExpr") and is_arith(qt(e)):
            return set()   # an arithmetic value loaded from memory carries no address
        if k == "DeclRefExpr":
            rd = e["referencedDecl"]
            if rd.get("kind") == "FunctionDecl":
                return set()
            if is_array(qt(rd)):
                return {self.obj_of_var(rd)}
            return set(self.content(self.obj_of_var(rd)))
        if k in ("MemberExpr", "ArraySubscriptExpr") or (k == "UnaryOperator" and e.get("opcode") == "*"):
            objs = self.objects(e)
            if is_array(qt(e)):
                return objs
            out = set()
            for o in objs:
                out |= self.content(o)
            return out
        if k == "UnaryOperator":
            op = e.get("opcode")
            if op == "&":
                return self.objects(kids(e)[0])
            if op in ("++", "--"):
                return self.pts_expr(kids(e)[0])
            return set()
        if k == "BinaryOperator":
            op = e.get("opcode")
            a, b = kids(e)
            if op in (",", "="):
                return self.pts_expr(b)
            if op in ("+", "-", "&", "|", "^", "*", "/", "%", "<<", ">>"):
                # pointer arithmetic, including alignment idioms on uintptr_t
                return self.pts_expr(a) | self.pts_expr(b)
            return set()
        if k == "CompoundAssignOperator":
            return self.pts_expr(kids(e)[0])
        if k == "ConditionalOperator":
            c = kids(e)
            return self.pts_expr(c[1]) | self.pts_expr(c[2])
        if k == "InitListExpr":
            out = set()
            for c in kids(e):
                if ptrish(qt(c)):
                    out |= self.pts_expr(c)
            return out
        if k == "CallExpr":
            return self.call_result(e)
        return set()

    def objects(self, e):
        """objects an lvalue expression designates"""
        e = strip(e)
        k = e.get("kind")
        if k == "DeclRefExpr":
            return {self.obj_of_var(e["referencedDecl"])}
        if k == "ArraySubscriptExpr":
            a, b = kids(e)
            base = a if ptrish(qt(a)) else b
            return self.pts_expr(base)
        if k == "MemberExpr":
            if e.get("isArrow"):
                return self.pts_expr(kids(e)[0])
            return self.objects(kids(e)[0])
        if k == "UnaryOperator" and e.get("opcode") == "*":
            return self.pts_expr(kids(e)[0])
        if k == "ConditionalOperator":
            c = kids(e)
            return self.objects(c[1]) | self.objects(c[2])
        return set()

    def call_result(self, e):
        if not ptrish(qt(e)):
            return set()
        names, _ = self.prog.call_targets(self, e)
        args = kids(e)[1:]
        out = set()
        for nm in names:
            if nm in ALLOC:
                out.add(("alloc", e["id"]))
            elif nm in self.prog.funcs:
                for r in self.prog.summary[nm].returns:
                    if r == "alloc":
                        out.add(("alloc", e["id"]))
                    elif r == "unknown":
                        out.add(("unknown", nm))
                    elif isinstance(r, int) and r < len(args):
                        out |= self.pts_expr(args[r])
                    elif isinstance(r, tuple):
                        out.add(r)
            else:
                out.add(("unknown", nm))
        return out

    # -- fixpoint step --------------------------------------------------------
    def _add(self, key, vals):
        if not vals:
            return False
        cur = self.pts.setdefault(key, set())
        n = len(cur)
        cur |= vals
        return len(cur) != n

    def refs(self, e):
        """decl ids referenced by e; the pseudo id "T" stands for a call of omp_get_thread_num()"""
        r = self._refs_cache.get(id(e))
        if r is None:
            ids = []
            for x in pwalk(e):
                if x.get("kind") == "DeclRefExpr":
                    rd = x["referencedDecl"]
                    if rd.get("kind") != "FunctionDecl":
                        ids.append(rd["id"])
                    elif rd.get("name") == "omp_get_thread_num":
                        ids.append("T")
            r = tuple(ids)
            self._refs_cache[id(e)] = r
        return r

    def deps_of(self, e):
        """parameter indices (and "T" = the executing thread's id) whose values flow into e"""
        out = set()
        for i in self.refs(e):
            if i == "T":
                out.add("T")
                continue
            d = self.dep.get(i)
            if d:
                out |= d
        return out

    def _dep_add(self, vid, vals):
        if not vals:
            return False
        cur = self.dep.setdefault(vid, set())
        n = len(cur)
        cur |= vals
        return len(cur) != n

    def _dep_step(self):
        ch = False
        for lhs, rhs in self.assigns:
            if lhs.get("kind") == "VarDecl":
                ch |= self._dep_add(lhs["id"], self.deps_of(rhs))
            else:
                val = self.deps_of(rhs)
                l = strip(lhs)
                if l.get("kind") != "DeclRefExpr":
                    val = val | self.deps_of(lhs)
                for o in self.objects(lhs):
                    if o[0] == "var":
                        ch |= self._dep_add(o[1], val)
        for lhs, rhs in self.cassigns:
            val = self.deps_of(rhs) | self.deps_of(lhs)
            for o in self.objects(lhs):
                if o[0] == "var":
                    ch |= self._dep_add(o[1], val)
        for c in self.calls:
            names, _ = self.prog.call_targets(self, c)
            args = kids(c)[1:]
            val = None
            for nm in names:
                w, _, _ = self.prog.callee_effects(nm, args)
                for i in w:
                    if i < len(args):
                        for o in self.pts_expr(args[i]):
                            if o[0] == "var":
                                if val is None:
                                    val = set()
                                    for a in args:
                                        val |= self.deps_of(a)
                                ch |= self._dep_add(o[1], val)
        return ch

    def step(self):
        """one round of points-to and value-dependency propagation; True if something changed"""
        ch = self._dep_step()
        for lhs, rhs in self.assigns:
            if lhs.get("kind") == "VarDecl":
                if not ptrish(qt(lhs)):
                    continue
                key = lhs["id"]
                if key in self.statics:
                    continue
                ch |= self._add(key, self.pts_expr(rhs))
            else:
                if not ptrish(qt(lhs)):
                    continue
                val = self.pts_expr(rhs)
                if not val:
                    continue
                for o in self.objects(lhs):
                    if o[0] == "var":
                        ch |= self._add(o[1], val)
                    elif o[0] == "alloc":
                        ch |= self._add(o, val)
        return ch

    def summarise(self):
        s = Summary()
        s.orphan_omp = self.has_omp_outside_region
        wd = {}
        for lv in self.stores:
            for o in self.objects(lv):
                if o[0] == "param":
                    s.writes.add(o[1])
                    wd.setdefault(o[1], set()).add(frozenset(self.deps_of(lv)))
                elif o[0] == "global":
                    s.gwrites.add(o[1])
        for c in self.calls:
            names, indirect = self.prog.call_targets(self, c)
            args = kids(c)[1:]
            if indirect and not names:
                s.unresolved.add("%s:%s" % (self.name, self.tu.text_of(kids(c)[0])))
            for nm in names:
                w, g, unres = self.prog.callee_effects(nm, args)
                s.gwrites |= g
                s.unresolved |= unres
                for i in w:
                    if i < len(args):
                        for o in self.pts_expr(args[i]):
                            if o[0] == "param":
                                s.writes.add(o[1])
                                for d in self.prog.callee_wdeps(nm, i):
                                    t = set()
                                    for j in d:
                                        if j == "T":
                                            t.add("T")
                                        elif j < len(args):
                                            t |= self.deps_of(args[j])
                                    wd.setdefault(o[1], set()).add(frozenset(t))
                            elif o[0] == "global":
                                s.gwrites.add(o[1])
        s.wdeps = {k: _minimal(v) for k, v in wd.items()}
        if ptrish(re.sub(r"\(.*$", "", qt(self.decl))):
            for r in self.returns:
                for o in self.pts_expr(r):
                    if o[0] == "param":
                        s.returns.add(o[1])
                    elif o[0] == "alloc":
                        s.returns.add("alloc")
                    elif o[0] == "global":
                        s.returns.add(o)
                    elif o[0] == "unknown":
                        s.returns.add("unknown")
        return s


class Program:
    def __init__(self, tus, fp_seeds=None):
        """tus: dict rel -> cfacts.TU.  fp_seeds: {(function, param index): set(target names)}"""
        self.tus = tus
        self.funcs = {}
        for rel, tu in tus.items():
            for name, d in tu.funcs.items():
                if name in self.funcs:
                    # same name defined in two translation units (static helpers): keep both
                    # under the first, analyse the second under a qualified name
                    name = "%s@%s" % (name, rel)
                self.funcs[name] = Func(self, tu, d)
        self.summary = {n: Summary() for n in self.funcs}
        self.fp = {}  # (function name, var id) -> set of function names
        self.fp_seeds = fp_seeds or {}
        for (fn, k), targets in self.fp_seeds.items():
            f = self.funcs.get(fn)
            if f is None:
                raise AnalysisError("function-pointer table names driver %s, which no analysed "
                                    "translation unit defines" % fn)
            if k >= len(f.params):
                raise AnalysisError("function-pointer table: %s has no parameter %d" % (fn, k))
            self.fp.setdefault((fn, f.params[k]["id"]), set()).update(targets)
        self.unknown_externals = {}
        self._solve()

    # -- calls -----------------------------------------------------------------
    def fp_of_expr(self, func, e):
        e = strip(e)
        if e.get("kind") == "UnaryOperator" and e.get("opcode") in ("&", "*"):
            e = strip(kids(e)[0])
        if e.get("kind") == "DeclRefExpr":
            rd = e["referencedDecl"]
            if rd.get("kind") == "FunctionDecl":
                return {rd["name"]}
            return set(self.fp.get((func.name, rd["id"]), ()))
        if e.get("kind") == "ConditionalOperator":
            c = kids(e)
            return self.fp_of_expr(func, c[1]) | self.fp_of_expr(func, c[2])
        return set()

    def call_targets(self, func, call):
        """-> (sorted target names, is_indirect)"""
        c = strip(kids(call)[0])
        if c.get("kind") == "UnaryOperator" and c.get("opcode") == "*":
            c = strip(kids(c)[0])
        if c.get("kind") == "DeclRefExpr" and c["referencedDecl"].get("kind") == "FunctionDecl":
            return [c["referencedDecl"]["name"]], False
        return sorted(self.fp_of_expr(func, c)), True

    def callee_effects(self, name, args):
        """-> (written argument indices, globals written, unresolved descriptions)"""
        if name in self.funcs:
            s = self.summary[name]
            return set(s.writes), set(s.gwrites), set(s.unresolved)
        if name in ALLOC:
            return set(), set(), set()
        if name in EXTERN_WRITES:
            return set(EXTERN_WRITES[name]), set(), set()
        if any(ptrish(qt(a)) for a in args):
            self.unknown_externals[name] = True
            return set(), set(), {"external function %s with pointer arguments is not in the "
                                  "output-argument table" % name}
        return set(), set(), set()

    def callee_wdeps(self, name, i):
        """address-dependency sets of the stores callee `name` makes through its parameter i"""
        if name in self.funcs:
            return self.summary[name].wdeps.get(i) or frozenset([frozenset([i])])
        return frozenset([frozenset([i])])

    def _solve(self):
        for _ in range(60):
            ch = False
            for f in self.funcs.values():
                # function-pointer flow
                for lhs, rhs in f.assigns:
                    t = self.fp_of_expr(f, rhs)
                    if not t:
                        continue
                    if lhs.get("kind") == "VarDecl":
                        key = (f.name, lhs["id"])
                    else:
                        l = strip(lhs)
                        if l.get("kind") != "DeclRefExpr":
                            continue
                        key = (f.name, l["referencedDecl"]["id"])
                    cur = self.fp.setdefault(key, set())
                    if not t <= cur:
                        cur |= t
                        ch = True
                for c in f.calls:
                    names, _ = self.call_targets(f, c)
                    args = kids(c)[1:]
                    for nm in names:
                        g = self.funcs.get(nm)
                        if g is None:
                            continue
                        for i, a in enumerate(args):
                            if i >= len(g.params):
                                break
                            t = self.fp_of_expr(f, a)
                            if t:
                                cur = self.fp.setdefault((g.name, g.params[i]["id"]), set())
                                if not t <= cur:
                                    cur |= t
                                    ch = True
                while f.step():
                    ch = True
                s = f.summarise()
                if s.key() != self.summary[f.name].key():
                    self.summary[f.name] = s
                    ch = True
            if not ch:
                return
        raise AnalysisError("write summaries did not reach a fixpoint in 60 rounds")


# ----------------------------------------------------------------------------
# regions
# ----------------------------------------------------------------------------
class WSLoop:
    def __init__(self, node, pragma, ivs, names):
        self.node = node
        self.id = node["id"]
        self.pragma = pragma
        self.ivs = ivs          # decl ids of the (collapsed) induction variables
        self.iv_names = names


class Ctx:
    __slots__ = ("ws", "prot", "privs", "ctrl")

    def __init__(self, ws=(), prot=None, privs=frozenset(), ctrl=()):
        self.ws = ws
        self.prot = prot
        self.privs = privs
        self.ctrl = ctrl

    def but(self, **kw):
        c = Ctx(self.ws, self.prot, self.privs, self.ctrl)
        for k, v in kw.items():
            setattr(c, k, v)
        return c


class Item:
    """one classified store / call output argument"""
    __slots__ = ("kind", "node", "expr", "cls", "why", "base", "objs", "line", "text", "callee", "argi")

    def __init__(self, **kw):
        for k in self.__slots__:
            setattr(self, k, kw.get(k))


class Region:
    def __init__(self, prog, func, node, ordinal, exceptions=None):
        self.prog = prog
        self.func = func
        self.tu = func.tu
        self.node = node
        self.ordinal = ordinal
        self.kind = PARALLEL[node["kind"]]
        self.pragma = pragma_of(self.tu, node)
        if self.pragma.directive != self.kind:
            raise AnalysisError("%s: pragma text %r does not match AST node %s" % (
                func.name, self.pragma.text, node["kind"]))
        self.line = self.tu.line_of(node)
        self.body = omp_body(node)
        if self.body is None:
            raise AnalysisError("%s: parallel region without body" % func.name)
        self.exceptions = exceptions or {}
        self.inside = set()
        self.alloc_prot = {}    # CallExpr id of an allocation inside the region -> protection kind or None
        self.labels = {}        # private var id -> set(labels)
        self.nt_vars = set()    # variables derived from the thread count
        self.assign_ev = []     # (target id, rhs, ctx)
        self.store_ev = []      # (node, lhs, rhs, ctx)
        self.call_ev = []       # (node, ctx)
        self.directives = []    # (kind, node, ctx, pragma)
        self.ws_loops = []
        self.items = []
        self.nesting = []       # (node, message)
        self.nonuniform = []    # (directive node, kind, reason)
        self.uniform_ok = []
        self.tid_scratch = []   # (ok, description, node)
        self.region_privs = self._clause_vars(node, self.pragma, ("private", "firstprivate", "lastprivate",
                                                                  "reduction"))
        self.reduction_ids = self._clause_vars(node, self.pragma, ("reduction",))
        self._refs_cache = {}
        self._run()

    # -- clauses --------------------------------------------------------------
    def _clause_vars(self, node, pragma, names):
        want = []
        for nm in names:
            want += pragma.varlist(nm)
        if not want:
            return frozenset()
        byname = {}
        for c in node.get("inner") or []:
            if isinstance(c, dict) and not c.get("kind"):
                for x in c.get("inner") or []:
                    if isinstance(x, dict) and x.get("kind") == "DeclRefExpr":
                        byname.setdefault(x["referencedDecl"]["name"], x["referencedDecl"]["id"])
        out = set()
        for v in want:
            if v in byname:
                out.add(byname[v])
                continue
            cands = [i for i, d in self.func.vars.items() if d.get("name") == v]
            if len(cands) != 1:
                raise AnalysisError("%s: cannot resolve clause variable %r of: %s" % (
                    self.func.name, v, pragma.text))
            out.add(cands[0])
        return frozenset(out)

    def _ws_loop(self, node, pragma):
        depth = pragma.collapse()
        cur = omp_body(node)
        ivs, names = [], []
        for d in range(depth):
            while cur is not None and cur.get("kind") in ("CompoundStmt", "AttributedStmt") and len(kids(cur)) >= 1:
                ks = [c for c in kids(cur) if not c["kind"].endswith("Attr")]
                if len(ks) != 1:
                    break
                cur = ks[0]
            if cur is None or cur.get("kind") != "ForStmt":
                raise AnalysisError("%s: worksharing directive not followed by %d nested for loop(s): %s" % (
                    self.func.name, depth, pragma.text))
            init, cond, inc, body = for_slots(cur)
            iv = None
            if init is not None and init["kind"] == "BinaryOperator" and init.get("opcode") == "=":
                l = strip(kids(init)[0])
                if l.get("kind") == "DeclRefExpr":
                    iv = (l["referencedDecl"]["id"], l["referencedDecl"]["name"])
            elif init is not None and init["kind"] == "DeclStmt":
                vs = [c for c in kids(init) if c["kind"] == "VarDecl"]
                if len(vs) == 1:
                    iv = (vs[0]["id"], vs[0]["name"])
            if iv is None:
                raise AnalysisError("%s: cannot find the induction variable of the loop under: %s" % (
                    self.func.name, pragma.text))
            ivs.append(iv[0])
            names.append(iv[1])
            cur = body
        return WSLoop(node, pragma, tuple(ivs), tuple(names))

    # -- traversal --------------------------------------------------------------
    def _run(self):
        for n in pwalk(self.body):
            if n.get("kind") == "VarDecl":
                self.inside.add(n["id"])
        ctx = Ctx(privs=self.region_privs)
        if self.node["kind"] in WS:
            loop = self._ws_loop(self.node, self.pragma)
            self.ws_loops.append(loop)
            self.directives.append((self.kind, self.node, ctx, self.pragma))
            ctx = ctx.but(ws=(loop,), privs=ctx.privs | frozenset(loop.ivs))
        self._visit(self.body, ctx)
        self._propagate()
        self._classify()
        self._uniformity()

    def _visit(self, n, ctx):
        k = n.get("kind")
        ok = omp_kind(n)
        if ok:
            if ok in PARALLEL:
                raise AnalysisError("%s: nested parallel region at line %d is not modelled" % (
                    self.func.name, self.tu.line_of(n)))
            pragma = pragma_of(self.tu, n)
            if ok in SIMD:
                loop = self._ws_loop(n, pragma)
                privs = ctx.privs | frozenset(loop.ivs) | self._clause_vars(
                    n, pragma, ("private", "lastprivate", "reduction", "linear"))
                self._visit(omp_body(n), ctx.but(privs=privs))
                return
            if ok in WS:
                if pragma.directive != WS[ok]:
                    raise AnalysisError("%s: pragma %r does not match %s" % (self.func.name, pragma.text, ok))
                if ctx.ws or ctx.prot:
                    self.nesting.append((n, "worksharing loop nested inside %s" % (
                        "another worksharing loop" if ctx.ws else ctx.prot)))
                loop = self._ws_loop(n, pragma)
                self.ws_loops.append(loop)
                self.directives.append(("for", n, ctx, pragma))
                privs = ctx.privs | frozenset(loop.ivs) | self._clause_vars(
                    n, pragma, ("private", "firstprivate", "lastprivate", "reduction", "linear"))
                self.reduction_ids = self.reduction_ids | self._clause_vars(n, pragma, ("reduction",))
                self._visit(omp_body(n), ctx.but(ws=ctx.ws + (loop,), privs=privs))
                return
            if ok in PROTECT:
                kind = PROTECT[ok]
                if pragma.directive != kind:
                    raise AnalysisError("%s: pragma %r does not match %s" % (self.func.name, pragma.text, ok))
                if kind in ONE_THREAD:
                    if ctx.ws or ctx.prot:
                        self.nesting.append((n, "%s nested inside %s" % (
                            kind, "a worksharing loop" if ctx.ws else ctx.prot)))
                    self.directives.append((kind, n, ctx, pragma))
                b = omp_body(n)
                if b is not None:
                    privs = ctx.privs | self._clause_vars(n, pragma, ("private", "firstprivate"))
                    self._visit(b, ctx.but(prot=kind, privs=privs))
                return
            if ok in BARRIER:
                if ctx.ws or ctx.prot:
                    self.nesting.append((n, "barrier nested inside %s" % (
                        "a worksharing loop" if ctx.ws else ctx.prot)))
                self.directives.append(("barrier", n, ctx, pragma))
                return
            raise AnalysisError("%s: OpenMP construct %s at line %d is not modelled" % (
                self.func.name, ok, self.tu.line_of(n)))
        if k == "VarDecl":
            init = var_init(n)
            if init is not None:
                self.assign_ev.append((n["id"], init, ctx))
                self._visit(init, ctx)
            return
        if k == "BinaryOperator" and n.get("opcode") == "=":
            a, b = kids(n)
            self.store_ev.append((n, a, b, ctx))
        elif k == "CompoundAssignOperator":
            a, b = kids(n)
            self.store_ev.append((n, a, b, ctx))
        elif k == "UnaryOperator" and n.get("opcode") in ("++", "--"):
            self.store_ev.append((n, kids(n)[0], None, ctx))
        elif k == "CallExpr":
            self.call_ev.append((n, ctx))
            names, _ = self.prog.call_targets(self.func, n)
            if any(nm in ALLOC for nm in names) or any(
                    "alloc" in self.prog.summary[nm].returns for nm in names if nm in self.prog.funcs):
                self.alloc_prot[n["id"]] = ctx.prot
        elif k == "ForStmt":
            init, cond, inc, body = for_slots(n)
            own = set()
            exprs = []
            if init is not None:
                self._visit(init, ctx)
                if init["kind"] == "BinaryOperator" and init.get("opcode") == "=":
                    l = strip(kids(init)[0])
                    if l.get("kind") == "DeclRefExpr":
                        own.add(l["referencedDecl"]["id"])
                    exprs.append(kids(init)[1])
                elif init["kind"] == "DeclStmt":
                    for v in kids(init):
                        if v["kind"] == "VarDecl":
                            own.add(v["id"])
                            if var_init(v) is not None:
                                exprs.append(var_init(v))
                else:
                    exprs.append(init)
            for x in (cond, inc):
                if x is not None:
                    self._visit(x, ctx)
                    exprs.append(x)
            if body is not None:
                self._visit(body, ctx.but(ctrl=ctx.ctrl + (("for", n, frozenset(own), tuple(exprs)),)))
            return
        elif k in ("WhileStmt", "IfStmt", "SwitchStmt"):
            ks = kids(n)
            cond = ks[0]
            self._visit(cond, ctx)
            sub = ctx.but(ctrl=ctx.ctrl + ((k[:-4].lower(), n, frozenset(), (cond,)),))
            for c in ks[1:]:
                self._visit(c, sub)
            return
        elif k == "DoStmt":
            ks = kids(n)
            cond = ks[-1]
            self._visit(cond, ctx)
            sub = ctx.but(ctrl=ctx.ctrl + (("do", n, frozenset(), (cond,)),))
            for c in ks[:-1]:
                self._visit(c, sub)
            return
        elif k == "ReturnStmt":
            raise AnalysisError("%s: return inside a parallel region" % self.func.name)
        for c in children(n):
            self._visit(c, ctx)

    # -- label propagation ------------------------------------------------------
    def _refs(self, e):
        r = self._refs_cache.get(id(e))
        if r is None:
            ids, tid, nt = [], False, False
            for x in pwalk(e):
                if x.get("kind") == "DeclRefExpr":
                    rd = x["referencedDecl"]
                    if rd.get("kind") == "FunctionDecl":
                        if rd.get("name") == "omp_get_thread_num":
                            tid = True
                        elif rd.get("name") in NTHREADS_FUNCS:
                            nt = True
                    else:
                        ids.append(rd["id"])
            r = (tuple(ids), tid, nt)
            self._refs_cache[id(e)] = r
        return r

    def taint(self, e, ctx, skip=()):
        ids, tid, _ = self._refs(e)
        out = set()
        if tid:
            out.add(TID)
        allowed = {l.id for l in ctx.ws}
        for i in ids:
            if i in skip:
                continue
            for lab in self.labels.get(i, ()):
                if lab == TID or lab in allowed:
                    out.add(lab)
        return out

    def is_private_var(self, vid, ctx):
        if vid in self.func.statics:
            return False
        return vid in self.inside or vid in ctx.privs

    def obj_private(self, o, ctx):
        if o[0] == "var":
            return self.is_private_var(o[1], ctx)
        if o[0] == "alloc":
            return o[1] in self.alloc_prot and self.alloc_prot[o[1]] not in ONE_THREAD
        return False

    def _propagate(self):
        for loop in self.ws_loops:
            for iv in loop.ivs:
                self.labels.setdefault(iv, set()).add(loop.id)
        f = self.func
        for _ in range(50):
            ch = False

            def add(vid, labs):
                nonlocal ch
                if labs:
                    cur = self.labels.setdefault(vid, set())
                    if not labs <= cur:
                        cur |= labs
                        ch = True

            for vid, rhs, ctx in self.assign_ev:
                add(vid, self.taint(rhs, ctx))
                if self._refs(rhs)[2] or any(i in self.nt_vars for i in self._refs(rhs)[0]):
                    if vid not in self.nt_vars:
                        self.nt_vars.add(vid)
                        ch = True
            for node, lhs, rhs, ctx in self.store_ev:
                if rhs is None:
                    continue
                objs = f.objects(lhs)
                if not objs:
                    continue
                labs = self.taint(rhs, ctx) | self.taint(lhs, ctx, skip=self._root_ids(lhs))
                for o in objs:
                    if o[0] == "var" and self.is_private_var(o[1], ctx):
                        add(o[1], labs)
                l = strip(lhs)
                if l.get("kind") == "DeclRefExpr" and (
                        self._refs(rhs)[2] or any(i in self.nt_vars for i in self._refs(rhs)[0])):
                    if l["referencedDecl"]["id"] not in self.nt_vars:
                        self.nt_vars.add(l["referencedDecl"]["id"])
                        ch = True
            for node, ctx in self.call_ev:
                names, _ = self.prog.call_targets(f, node)
                args = kids(node)[1:]
                labs = set()
                for a in args:
                    labs |= self.taint(a, ctx)
                if not labs:
                    continue
                for nm in names:
                    w, _, _ = self.prog.callee_effects(nm, args)
                    for i in w:
                        if i < len(args):
                            for o in f.pts_expr(args[i]):
                                if o[0] == "var" and self.is_private_var(o[1], ctx):
                                    add(o[1], labs)
            if not ch:
                return
        raise AnalysisError("%s: label propagation did not converge" % f.name)

    def _root_ids(self, lhs):
        l = strip(lhs)
        if l.get("kind") == "DeclRefExpr":
            return (l["referencedDecl"]["id"],)
        return ()

    # -- classification -----------------------------------------------------------
    def _base_name(self, e):
        e = strip(e)
        k = e.get("kind")
        if k == "DeclRefExpr":
            return e["referencedDecl"]["name"]
        if k in ("ArraySubscriptExpr",):
            a, b = kids(e)
            return self._base_name(a if ptrish(qt(a)) else b)
        if k in ("MemberExpr", "UnaryOperator", "CompoundAssignOperator"):
            return self._base_name(kids(e)[0])
        if k == "BinaryOperator":
            a, b = kids(e)
            if e.get("opcode") in (",", "="):
                return self._base_name(b)
            return self._base_name(a if ptrish(qt(a)) else b)
        if k == "ConditionalOperator":
            return self._base_name(kids(e)[1])
        return self.tu.text_of(e)[:30]

    def _describe(self, objs):
        out = []
        for o in sorted(objs, key=str):
            if o[0] == "param":
                out.append("*%s" % self.func.params[o[1]]["name"])
            elif o[0] == "global":
                out.append("global %s" % o[1])
            elif o[0] == "var":
                out.append("variable %s" % self.func.vars[o[1]].get("name", "?"))
            elif o[0] == "alloc":
                if o[1] not in self.alloc_prot:
                    out.append("heap block allocated outside the region")
                elif self.alloc_prot[o[1]] in ONE_THREAD:
                    out.append("heap block allocated once (omp %s) inside the region" % self.alloc_prot[o[1]])
                else:
                    out.append("heap block allocated by each thread inside the region")
            else:
                out.append("result of %s" % o[1])
        return ", ".join(out)

    def _decide(self, expr, objs, ctx, direct_var=None, depsets=None, args=None):
        """-> (class, why)"""
        if not objs:
            return "unresolved", "the analysis found no object for this address"
        if direct_var is not None and direct_var in self.reduction_ids:
            return "reduction", "reduction variable"
        shared = [o for o in objs if not self.obj_private(o, ctx)]
        if not shared:
            return "private", "thread-private memory"
        if any(o[0] == "unknown" for o in shared) and all(o[0] == "unknown" for o in shared):
            return "unresolved", "pointer returned by an external function"
        if ctx.prot:
            return "protected", "inside omp %s" % ctx.prot
        g = self._thread_selective_guard(ctx)
        if g:
            return "guarded", g
        if depsets is None:
            labs = self.taint(expr, ctx)
        else:
            # callee stores: every store's address must depend on some thread-partitioned argument
            labs = set()
            for d in depsets:
                ld = set()
                for j in d:
                    if j == "T":
                        ld.add(TID)
                    elif j < len(args):
                        ld |= self.taint(args[j], ctx)
                if not ld:
                    labs = set()
                    break
                labs |= ld
        if labs:
            names = []
            for lab in sorted(labs):
                if lab == TID:
                    names.append("omp_get_thread_num()")
                else:
                    for l in ctx.ws:
                        if l.id == lab:
                            names.append("worksharing variable %s" % "/".join(l.iv_names))
            return "partitioned", "address depends on " + ", ".join(names)
        return "violation", None

    def _thread_selective_guard(self, ctx):
        """an enclosing `if (x == y)` / `if (x != y)` with exactly one thread-dependent side, or a switch
        on a thread-dependent value, selects (at most) one thread or iteration: not a definite race"""
        for ck, cn, own, exprs in ctx.ctrl:
            if ck == "switch":
                if self.taint(exprs[0], ctx):
                    return "under a switch on a thread-dependent value (line %d)" % self.tu.line_of(cn)
            elif ck == "if":
                for x in pwalk(exprs[0]):
                    if x.get("kind") == "BinaryOperator" and x.get("opcode") in ("==", "!="):
                        a, b = kids(x)
                        if bool(self.taint(a, ctx)) != bool(self.taint(b, ctx)):
                            return "under `if (%s)` selecting one thread/iteration (line %d)" % (
                                re.sub(r"\s+", " ", self.tu.text_of(x)), self.tu.line_of(cn))
        return None

    def _classify(self):
        f = self.func
        for node, lhs, rhs, ctx in self.store_ev:
            objs = f.objects(lhs)
            l = strip(lhs)
            direct = l["referencedDecl"]["id"] if l.get("kind") == "DeclRefExpr" else None
            cls, why = self._decide(lhs, objs, ctx, direct)
            if cls == "violation" and direct is not None:
                key = (f.name, l["referencedDecl"]["name"])
                # a named exception only covers the shape its reason describes: `if (v) v = <literal>;
                # else v = <literal>` -- every thread stores the constant selected by the branch it took
                guarded = any(ck == "if" and direct in self._refs(exprs[0])[0] for ck, _, _, exprs in ctx.ctrl)
                if key in self.exceptions and rhs is not None and strip(rhs).get("kind") == "IntegerLiteral" \
                        and node.get("kind") == "BinaryOperator" and guarded:
                    cls, why = "exception", self.exceptions[key]
            self.items.append(Item(kind="store", node=node, expr=lhs, cls=cls, why=why,
                                   base=self._base_name(lhs), objs=objs, line=self.tu.line_of(node),
                                   text=self.tu.text_of(node)))
            if cls == "partitioned" and self.taint(lhs, ctx) == {TID}:
                self._check_tid_scratch(node, lhs, objs, ctx)
        for node, ctx in self.call_ev:
            names, indirect = self.prog.call_targets(f, node)
            args = kids(node)[1:]
            ctext = self.tu.text_of(kids(node)[0])
            if indirect and not names:
                raise AnalysisError("%s: call through function pointer %s inside a parallel region has no "
                                    "known target" % (f.name, ctext))
            for nm in names:
                w, g, unres = self.prog.callee_effects(nm, args)
                if unres:
                    raise AnalysisError("%s: call to %s inside a parallel region: %s" % (
                        f.name, nm, sorted(unres)[0]))
                if nm in self.prog.funcs and self.prog.summary[nm].orphan_omp:
                    raise AnalysisError("%s: callee %s contains orphaned OpenMP constructs (not modelled)" % (
                        f.name, nm))
                for gl in sorted(g):
                    cls = "protected" if ctx.prot else "violation"
                    self.items.append(Item(kind="global", node=node, expr=node, cls=cls,
                                           why="inside omp %s" % ctx.prot if ctx.prot else None,
                                           base=gl, objs={("global", gl)}, line=self.tu.line_of(node),
                                           text=self.tu.text_of(node), callee=nm))
                for i in sorted(w):
                    if i >= len(args):
                        continue
                    objs = f.pts_expr(args[i])
                    cls, why = self._decide(args[i], objs, ctx, depsets=self.prog.callee_wdeps(nm, i),
                                            args=args)
                    self.items.append(Item(kind="call", node=node, expr=args[i], cls=cls, why=why,
                                           base=self._base_name(args[i]), objs=objs,
                                           line=self.tu.line_of(node), text=self.tu.text_of(node),
                                           callee=nm, argi=i))

    def _check_tid_scratch(self, node, lhs, objs, ctx):
        """a buffer allocated in this function and split between threads by thread id must be sized
        by the thread count"""
        f = self.func
        sites = [o[1] for o in objs if o[0] == "alloc"]
        if not sites or any(o[0] != "alloc" for o in objs):
            return
        for c in f.calls:
            if c["id"] in sites:
                ok = False
                for a in kids(c)[1:]:
                    ids, _, nt = self._refs(a)
                    if nt or any(i in self.nt_vars for i in ids):
                        ok = True
                self.tid_scratch.append((ok, "%s: buffer %s indexed by thread id, allocated by %s" % (
                    f.name, self._base_name(lhs), re.sub(r"\s+", " ", self.tu.text_of(c))), c))

    # -- worksharing constructs reached by all threads ---------------------------
    def _uniformity(self):
        # variables whose only definitions are worksharing-loop induction: thread-dependent afterwards
        for kind, node, ctx, pragma in self.directives:
            bad = None
            for ck, cn, own, exprs in ctx.ctrl:
                for e in exprs:
                    ids, tid, _ = self._refs(e)
                    if tid or any(TID in self.labels.get(i, ()) for i in ids if i not in own):
                        bad = "enclosing %s statement at line %d depends on the thread id" % (
                            ck, self.tu.line_of(cn))
                        break
                if bad:
                    break
            if bad:
                self.nonuniform.append((node, kind, bad))
            else:
                self.uniform_ok.append((node, kind, pragma.text, len(ctx.ctrl)))


def analyse_regions(prog, rels, exceptions=None):
    """-> list of Region for every outermost parallel region of the TUs in rels"""
    out = []
    for name in sorted(prog.funcs):
        f = prog.funcs[name]
        if f.tu.rel not in rels:
            continue
        for k, node in enumerate(f.regions):
            out.append(Region(prog, f, node, k + 1, exceptions))
    return out


# ----------------------------------------------------------------------------
# function pointers passed from Python (ctypes)
# ----------------------------------------------------------------------------
def _getattr_target(v):
    """getattr(libX, "NAME") or libX.NAME -> (lib, NAME)"""
    if isinstance(v, ast.Call) and isinstance(v.func, ast.Name) and v.func.id == "getattr" and len(v.args) == 2 \
            and isinstance(v.args[0], ast.Name) and isinstance(v.args[1], ast.Constant) \
            and isinstance(v.args[1].value, str):
        return v.args[0].id, v.args[1].value
    if isinstance(v, ast.Attribute) and isinstance(v.value, ast.Name) and v.value.id.startswith("lib"):
        return v.value.id, v.attr
    return None


def read_py_callbacks(tree, py_rels):
    """Read, off the Python call sites, which C functions are passed as function pointers to which
    driver: {(driver lib, driver name, arg position): set((lib, name))}.  A driver is a name bound to
    getattr(lib, "X") (or lib.X) that is called with at least one argument itself bound that way."""
    table = {}
    sites = 0
    for rel in py_rels:
        if not tree.exists(rel):
            raise AnalysisError("anchored Python file %s vanished" % rel)
        mod = tree.py(rel)
        for fn in ast.walk(mod):
            if not isinstance(fn, (ast.FunctionDef, ast.AsyncFunctionDef)):
                continue
            bind = {}
            for n in ast.walk(fn):
                if isinstance(n, ast.Assign) and len(n.targets) == 1 and isinstance(n.targets[0], ast.Name):
                    t = _getattr_target(n.value)
                    if t is not None:
                        bind.setdefault(n.targets[0].id, set()).add(t)
            for n in ast.walk(fn):
                if not isinstance(n, ast.Call):
                    continue
                drv = None
                if isinstance(n.func, ast.Name) and n.func.id in bind:
                    drv = bind[n.func.id]
                else:
                    t = _getattr_target(n.func)
                    if t is not None:
                        drv = {t}
                if not drv:
                    continue
                for i, a in enumerate(n.args):
                    if isinstance(a, ast.Name) and a.id in bind:
                        passed = bind[a.id]
                    elif _getattr_target(a) is not None:
                        passed = {_getattr_target(a)}
                    else:
                        continue
                    for d in drv:
                        table.setdefault((d[0], d[1], i), set()).update(passed)
                    sites += 1
    return table, sites


# ----------------------------------------------------------------------------
# alternative build configurations (code the default configuration compiles out)
# ----------------------------------------------------------------------------
def load_variant(tree, rel, copies, aux, tag):
    """Parse translation unit `rel` in another build configuration: `rel` and the repository files
    `copies` (paths relative to the TU's directory) are copied into a scratch directory together
    with the generated files `aux` (name -> text, e.g. a different generated config header and stub
    vendor headers), and clang parses the copy.  Offsets equal those of the repository file.
    -> cfacts.TU (never written under the repository root)."""
    import hashlib
    import json
    import os
    import shutil
    import subprocess
    import tempfile
    full_rel = cfacts.LIB + "/" + rel
    text = tree.read(full_rel)
    d = os.path.dirname(full_rel)
    ctexts = {c: tree.read(d + "/" + c) for c in copies}
    h = hashlib.sha1()
    for part in [text, tag, "omp-variant-v1"] + [k + "\0" + v for k, v in sorted(ctexts.items())] \
            + [k + "\0" + v for k, v in sorted(aux.items())]:
        h.update(part.encode())
        h.update(b"\1")
    stubs = os.path.join(cfacts.VERIF, "stubs")
    for s in sorted(os.listdir(stubs)):
        with open(os.path.join(stubs, s), "rb") as f:
            h.update(f.read())
    os.makedirs(cfacts.CACHE, exist_ok=True)
    cp = os.path.join(cfacts.CACHE, "%s.variant-%s.%s.json" % (rel.replace("/", "_"), tag, h.hexdigest()))
    mutated = any(p in tree.overlay for p in [full_rel] + [d + "/" + c for c in copies])
    if os.path.exists(cp) and not mutated:
        with open(cp) as f:
            data = json.load(f)
    else:
        tmpd = tempfile.mkdtemp(prefix="verif_cv_")
        try:
            base = os.path.basename(rel)
            for name, t in list(ctexts.items()) + list(aux.items()) + [(base, text)]:
                with open(os.path.join(tmpd, name), "w") as f:
                    f.write(t)
            cmd = ["clang", "-fopenmp", "-fsyntax-only", "-w", "-Xclang", "-ast-dump=json",
                   "-I", tmpd, "-I", stubs, os.path.join(tmpd, base)]
            p = subprocess.run(cmd, capture_output=True, text=True)
            if p.returncode != 0:
                raise AnalysisError("clang cannot parse %s in configuration %s: %s" % (rel, tag, p.stderr[:400]))
            raw = json.loads(p.stdout)
        finally:
            shutil.rmtree(tmpd, ignore_errors=True)
        funcs = []
        cur_file = None
        for dcl in raw.get("inner", []):
            loc = dcl.get("loc") or {}
            if "expansionLoc" in loc:
                loc = loc["expansionLoc"]
            if "file" in loc:
                cur_file = loc["file"]
            if dcl.get("kind") == "FunctionDecl" and any(
                    isinstance(c, dict) and c.get("kind") == "CompoundStmt" for c in dcl.get("inner", [])):
                if cur_file is None or os.path.basename(cur_file) == base:
                    cfacts._prune(dcl)
                    funcs.append(dcl)
        data = {"funcs": funcs}
        if not mutated:
            tmp = cp + ".tmp%d" % os.getpid()
            with open(tmp, "w") as f:
                json.dump(data, f)
            os.replace(tmp, cp)
    tu = cfacts.TU.__new__(cfacts.TU)
    tu.rel = rel
    tu.full_rel = full_rel
    tu.text = text
    tu.funcs = {f["name"]: f for f in data["funcs"]}
    tu.decls = []
    tu.macros = {}
    tu.variant = tag
    return tu
