import sys, os, ctypes
sys.path.insert(0, os.path.dirname(os.path.abspath(__file__)))
import patch_load
import numpy as np
from pyscf import gto, dft
from ciderpress.pyscf.sdmx import eval_conv_sh
gomp = ctypes.CDLL("libgomp.so.1")
mol = gto.M(atom="O 0 0 0; H 0 -0.757 0.587; H 0 0.757 0.587; O 0 0 12.0; H 0 -0.757 12.587; H 0 0.757 12.587", basis="roos-dz", verbose=0)
grids = dft.gen_grid.Grids(mol); grids.level=0; grids.build()
coords = grids.coords
ng = coords.shape[0]
from pyscf.gto.eval_gto import make_screen_index
tab=make_screen_index(mol, np.asfortranarray(coords),(0,mol.nbas),grids.cutoff); print(ng, grids.cutoff, (tab==0).sum(axis=0))
alphas = np.array([0.05, 0.2, 0.8, 3.2]); norms = np.ones(4)
plan = (alphas, norms, "gauss_diff")
for deriv in [0]:
  def run(nt, cutoff):
    gomp.omp_set_num_threads(nt)
    nrf = int(mol._bas[:,3].sum())
    n = 4*(1+deriv)*nrf*ng
    buf = np.full(n + 8*ng, 7.0)
    res = eval_conv_sh(plan, mol, coords, deriv=deriv, cutoff=cutoff, out=buf)
    return np.array(res), buf[n:].copy()
  ref, pad = run(1, None)
  r1, pad1 = run(1, grids.cutoff)
  print("deriv",deriv,"nrf", ref.shape, "pad touched (1 thread)", (pad1!=7.0).sum())
  print("1thr screened vs unscreened max diff per rf\n", np.abs(r1-ref).max(axis=1))
  for nt in [1,2,4,8,16]:
    for rep in range(3):
        r, p = run(nt, grids.cutoff)
        d = np.abs(r-r1).max(axis=1)
        print(nt, rep, "max diff vs 1 thread per (alpha, rf):", np.argwhere(d>0).tolist(), d.max(), "pad", (p!=7.0).sum())
