#!/usr/bin/env python3
"""Confirm a seeded breaking change produced by a seeder agent, in its own
scratch worktree, and import it into /verif/seeded/<Cxx>-<n>/.

usage: tools/verify_seed.py Cxx [n ...]
For each /tmp/seed/Cxx/seed_out/<n>/: (1) patch applies to a clean worktree,
(2) pinned suite with the patch: 143 passed, (3) demo exits non-zero with the
patch, (4) demo exits 0 without.  Only then is it copied to /verif/seeded/.
"""
import json
import os
import re
import shutil
import subprocess
import sys

VERIF = os.path.dirname(os.path.dirname(os.path.abspath(__file__)))


def sh(cmd, cwd, timeout=1800):
    try:
        p = subprocess.run(cmd, shell=True, cwd=cwd, capture_output=True, text=True, timeout=timeout)
        return p.returncode, p.stdout + p.stderr
    except subprocess.TimeoutExpired:
        return 124, "timeout"


def main():
    prop = sys.argv[1]
    base = os.environ.get("SEED_BASE", "/tmp/seed")
    offset = int(os.environ.get("SEED_OFFSET", "0"))  # wave 2 seeds are numbered after wave 1
    wt = "%s/%s" % (base, prop)
    ns = sys.argv[2:] or sorted(x for x in os.listdir(os.path.join(wt, "seed_out")) if x.isdigit())
    env = "PYTHONPATH=%s OMP_NUM_THREADS=8 " % wt
    for n in ns:
        d = os.path.join(wt, "seed_out", n)
        if not os.path.exists(os.path.join(d, "patch.diff")):
            continue
        sid = "%s-%d" % (prop, int(n) + offset)
        res = {"seed": sid}
        sh("git checkout -- . ", wt)
        demo = "demo.py" if os.path.exists(os.path.join(d, "demo.py")) else None
        if demo is None:
            cands = [f for f in os.listdir(d) if f.startswith(("demo", "test")) and f.endswith(".py")]
            demo = cands[0] if cands else None
        rc0, out0 = sh(env + "/venv/bin/python %s" % demo, d) if demo else (None, "")
        res["demo_clean_rc"] = rc0
        rc, out = sh("git apply %s" % os.path.join(d, "patch.diff"), wt)
        res["apply_rc"] = rc
        if rc == 0:
            rc, out = sh(env + "/venv/bin/python -m pytest -q -p no:cacheprovider --timeout=900 "
                         "--continue-on-collection-errors 2>&1 | tail -3", wt)
            m = re.search(r"(\d+) passed", out)
            res["suite_passed"] = int(m.group(1)) if m else None
            m = re.search(r"(\d+) failed", out)
            res["suite_failed"] = int(m.group(1)) if m else 0
            rc1, out1 = sh(env + "/venv/bin/python %s" % demo, d) if demo else (None, "")
            res["demo_patched_rc"] = rc1
            res["demo_patched_tail"] = out1[-300:]
        sh("git checkout -- . ", wt)
        ok = (res.get("apply_rc") == 0 and res.get("suite_passed") == 143 and res.get("suite_failed") == 0
              and res.get("demo_clean_rc") == 0 and res.get("demo_patched_rc") not in (0, None))
        res["confirmed"] = ok
        print(json.dumps(res))
        if ok:
            dst = os.path.join(VERIF, "seeded", sid)
            if os.path.exists(dst):
                shutil.rmtree(dst)
            shutil.copytree(d, dst, ignore=shutil.ignore_patterns("__pycache__", "*.so", "*.o", "build*"))
            readme = ""
            if os.path.exists(os.path.join(d, "README.md")):
                readme = open(os.path.join(d, "README.md")).read()
            files = re.findall(r"^\+\+\+ b/(\S+)", open(os.path.join(d, "patch.diff")).read(), re.M)
            meta = {
                "property": prop,
                "files": files,
                "needs_to_manifest": "see README.md (written by the seeding agent)",
                "confirmed_by_integrator": {
                    "worktree_base": subprocess.run("git rev-parse HEAD", shell=True, cwd=wt, capture_output=True, text=True).stdout.strip(),
                    "suite_with_patch": "%s passed, %s failed (pinned command, PYTHONPATH=worktree)" % (res["suite_passed"], res["suite_failed"]),
                    "demo_without_patch_exit": res["demo_clean_rc"],
                    "demo_with_patch_exit": res["demo_patched_rc"],
                    "demo_cmd": "PYTHONPATH=<worktree> /venv/bin/python %s" % demo,
                },
            }
            with open(os.path.join(dst, "meta.json"), "w") as f:
                json.dump(meta, f, indent=1)


if __name__ == "__main__":
    main()
