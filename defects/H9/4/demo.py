"""
C15 -- feature-subset / spin-symmetrised wrapper kernels whose diag() ignores
the column selection made by their __call__:
  * SingleDot.diag      (inherited DotProduct.diag uses every column of X)
  * ADKernel.diag       (passes the unsliced X to the wrapped kernel)
  * SpinSymKernel.diag  (inherits ADKernel.diag: one unsliced call instead of
                         the up + down sum returned by __call__)

Expected: kernel.diag(X) == np.diag(kernel(X, X)) for every kernel class.
"""
import sys

import numpy as np
from sklearn.gaussian_process.kernels import RBF, DotProduct

from ciderpress.models import kernels as K

rng = np.random.default_rng(0)
X = rng.uniform(size=(5, 4))
fails = []

cases = {
    "SingleDot(index=2)": K.SingleDot(0.7, index=2),
    "ADKernel(DotProduct, [0, 2])": K.ADKernel(DotProduct(0.7), [0, 2]),
    "ADKernel(DiffPolyKernel, [0, 2])": K.ADKernel(K.DiffPolyKernel(0.7), [0, 2]),
    "ADKernel(DensityNoise(index=1), [2, 3])": K.ADKernel(K.DensityNoise(1), [2, 3]),
    "SpinSymKernel(RBF, [0, 1], [2, 3])": K.SpinSymKernel(RBF(0.7), [0, 1], [2, 3]),
    "SpinSymKernel(DotProduct, [0, 1], [2, 3])": K.SpinSymKernel(
        DotProduct(0.7), [0, 1], [2, 3]
    ),
}
for name, kern in cases.items():
    kxx = kern(X)
    ev = np.linalg.eigvalsh(kxx).min()
    dg = kern.diag(X)
    err = np.abs(dg - np.diag(kxx)).max()
    print("[%s] min eig %.2e" % (name, ev))
    print("    diag(X)         =", dg)
    print("    diag of k(X, X) =", np.diag(kxx))
    if err > 1e-12:
        fails.append(name)

if fails:
    print("FAIL:", fails)
    sys.exit(1)
print("OK")
