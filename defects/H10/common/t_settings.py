import sys, os, itertools, traceback
import numpy as np
from ciderpress.dft.settings import *
from ciderpress.dft.feat_normalizer import FeatNormalizerList

def consistent(s, name):
    n = s.nfeat
    out = []
    for meth in ["get_feat_usps", "ueg_vector", "get_reasonable_normalizer"]:
        try:
            v = getattr(s, meth)()
            if len(v) != n:
                out.append("%s len %d != nfeat %d" % (meth, len(v), n))
        except NotImplementedError as e:
            out.append("%s NotImplementedError" % meth)
        except Exception as e:
            out.append("%s raised %r" % (meth, e))
    if out: print(name, out)

# FracLapl
for nk0, nk1, nd1, ndd in itertools.product(range(3), range(3), range(3), range(3)):
    if ndd > nd1: continue
    l1 = [(-1,-1)] + [(j,k) for j in range(-1,nk1) for k in range(-1,nk1)]
    ld = [(j,k) for j in range(-1,nd1) for k in range(-1,nd1)]
    s = FracLaplSettings([-0.5,0.5,1.0][:max(nk0,nk1,nd1,1)] if max(nk0,nk1,nd1)<=3 else None, nk0, nk1, l1, nd1, ld, ndd)
    consistent(s, ("FL", nk0,nk1,nd1,ndd))
# SDMX
for pows in [[0],[0,1],[0,1,2],[2,1]]:
    consistent(SDMXSettings(pows), ("SDMX", pows))
    for a in range(len(pows)+1):
        consistent(SDMXGSettings(pows, a), ("SDMXG", pows, a))
        consistent(SDMX1Settings(pows, a), ("SDMX1", pows, a))
        for b in range(len(pows)+1):
            consistent(SDMXG1Settings(pows, a, b), ("SDMXG1", pows, a, b))
for sd in [{1.0:([0,1,2],[3,2,1,1])}, {1.0:([0,1],[2,1,0,0]), 2.0:([1,2],[1,1,2,2])}, {1.5:([0],[1,1,1,1]), 1:([2,0],[2,2,2,2])}]:
    consistent(SDMXFullSettings(sd), ("SDMXFull", sd))
consistent(SADMSettings("exact"), "SADM exact"); consistent(SADMSettings("smooth"), "SADM smooth")
# NLDF
for lvl in ["GGA","MGGA"]:
    th = [1.0, 0.1, 0.03][: 3 if lvl=="MGGA" else 2]
    fp = lambda a: [a, 0.0, 0.04][: 3 if lvl=="MGGA" else 2]
    for rm in ["one","expnt"]:
        for l0 in [[], ["se"], ["se","se_r2","se_apr2","se_ap","se_ap2r2","se_lapl"]]:
            for l1, dots in [([],[]), (["se_grad"],[(0,0),(-1,0)]), (["se_grad","se_rvec"],[(0,1),(1,1),(-1,1),(-1,-1)])]:
                consistent(NLDFSettingsVI(lvl, th, rm, l0, l1, dots), ("VI",lvl,rm,l0,l1,dots))
                consistent(NLDFSettingsVIJ(lvl, th, rm, l0, l1, dots, ["se","se_ar2","se_a2r4","se_erf_rinv"], [fp(1.),fp(2.),fp(3.),fp(4.)+[2.0]]), ("VIJ",lvl,rm,l0,l1,dots))
        consistent(NLDFSettingsVJ(lvl, th, rm, ["se","se_ar2","se_a2r4","se_erf_rinv"], [fp(1.),fp(2.),fp(3.),fp(4.)+[2.0]]), ("VJ",lvl,rm))
        consistent(NLDFSettingsVK(lvl, th, rm, [fp(1.),fp(2.)], "exponential"), ("VK",lvl,rm))
for m in ["nst","npa","ns","np"]:
    consistent(SemilocalSettings(m), ("SL", m))
# FeatureSettings combos
sl = [None, SemilocalSettings("nst"), SemilocalSettings("np")]
nl = [None, NLDFSettingsVJ("MGGA",[1.,0.,0.03],"one",["se"],[[2.,0.,0.04]])]
fl = [None, FracLaplSettings([0.5],1,1,[(0,0)],1,[(0,-1)],1)]
sd = [None, SDMXGSettings([0,1],1), SADMSettings("smooth")]
for a,b,c,d in itertools.product(sl,nl,fl,sd):
    try:
        f = FeatureSettings(a,b,c,d)
        loc = f.get_feat_loc()
        assert loc[-1]==f.nfeat
        consistent(f, ("FS", type(a).__name__, type(b).__name__, type(c).__name__, type(d).__name__))
        f.assign_reasonable_normalizer()
        assert f.normalizers.nfeat == f.nfeat
        u = f.get_feat_usps(with_normalizers=True); v = f.ueg_vector(with_normalizers=True)
        assert len(u)==f.nfeat==len(v)
    except Exception as e:
        print("FS", type(a).__name__, type(b).__name__, type(c).__name__, type(d).__name__, "raised", repr(e))
