import sys, os, itertools
sys.path.insert(0, os.path.dirname(os.path.abspath(__file__)))
import build_libs; build_libs.build_fft(); import patch_load
import numpy as np
from ciderpress.lib.fft_plan import FFTWrapper
rng = np.random.default_rng(1)
dimsets = [[1],[2],[3],[1,1],[1,4],[4,1],[1,5],[5,1],[2,3],[3,2],[1,1,1],[1,3,4],[3,1,4],[3,4,1],[2,3,5],[5,3,2],[2,2,3,3],[3,2,1,2],[2,1,2,1,3],[2,2,2,2,2]]
bad=0
for dims in dimsets:
  for nt in [1,2,3,7]:
    for fwd,r2c,inplace,bf in itertools.product([True,False],repeat=4):
        w = FFTWrapper(dims, ntransform=nt, fwd=fwd, r2c=r2c, inplace=inplace, batch_first=bf)
        nd=len(dims)
        axes = tuple(range(1,nd+1)) if bf else tuple(range(nd))
        rshape = ([nt]+dims) if bf else (dims+[nt])
        if r2c:
            xr = rng.normal(size=rshape)
            xk = np.fft.rfftn(xr, axes=axes)
        else:
            xr = rng.normal(size=rshape)+1j*rng.normal(size=rshape)
            xk = np.fft.fftn(xr, axes=axes)
        if fwd:
            assert w.input_shape==xr.shape and w.output_shape==xk.shape,(dims,w.input_shape,xr.shape,w.output_shape,xk.shape)
            out = w.call(np.ascontiguousarray(xr)); ref=xk
        else:
            assert w.input_shape==xk.shape and w.output_shape==xr.shape
            out = w.call(np.ascontiguousarray(xk)); ref=xr*np.prod(dims)
        err=np.abs(out-ref).max()
        if not err<1e-9*max(1,np.abs(ref).max()):
            bad+=1; print("BAD",dims,nt,fwd,r2c,inplace,bf,err)
        # wrong shape rejected
        try:
            w.call(np.zeros(tuple(s+1 for s in w.input_shape), dtype=np.complex128)); print("NOREJECT",dims); bad+=1
        except ValueError: pass
print("bad",bad)
