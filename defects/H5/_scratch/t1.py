import cider_build
import numpy as np, sys
from pyscf import gto
from ciderpress.pyscf.nldf_convolutions import PyscfNLDFGenerator
from ciderpress.pyscf.gen_cider_grid import CiderGrids
from ciderpress.dft.settings import NLDFSettingsVI, NLDFSettingsVJ, NLDFSettingsVIJ, NLDFSettingsVK

vj_specs = ["se", "se_ar2", "se_a2r4", "se_erf_rinv"]
theta_params = [1.0, 0.0, 0.03125]
feat_params = [[2.0, 0.0, 0.04] for i in range(4)]
feat_params[-1].append(2.0)
vi = NLDFSettingsVI("MGGA", theta_params, "one", ["se_ap", "se_lapl"], ["se_grad", "se_rvec"], [(0, 0), (0,1), (-1, 1)])
vj = NLDFSettingsVJ("MGGA", theta_params, "one", vj_specs, feat_params)
vij = NLDFSettingsVIJ("MGGA", theta_params, "one", ["se_ap"], ["se_grad", "se_rvec"], [(0, 0), (1, -1)], vj_specs, feat_params)
vk = NLDFSettingsVK("MGGA", theta_params, "one", [[1.0, 0.0, 0.02], [2.0, 0.0, 0.04]], "exponential")

mols = [gto.M(atom="Ne 0.1 0.2 0.3", basis="def2-svp", verbose=0),
        gto.M(atom="H 0 0 0; F 0 0.1 0.9; Li 1.5 0.3 -0.4", basis="def2-svp", verbose=0, spin=1)]
rng = np.random.default_rng(0)
for mol in mols:
    grids = CiderGrids(mol, lmax=6)
    grids.level = 0
    grids.build()
    for name, st in [("vi", vi), ("vj", vj), ("vij", vij), ("vk", vk)]:
        for itype in ["onsite_direct", "onsite_spline"]:
            for plan_type in ["gaussian", "spline"]:
                gen = PyscfNLDFGenerator.from_mol_and_settings(mol, grids.grids_indexer, 1, st, plan_type=plan_type, interpolator_type=itype, aux_lambd=1.8, alpha_max=3000)
                gen.interpolator.set_coords(grids.coords)
                nato = grids.grids_indexer.ngrids
                x = rng.normal(size=(nato, gen.plan.nalpha))
                Ax = gen._perform_fwd_convolution(x).copy()
                y = rng.normal(size=Ax.shape)
                ycopy = y.copy()
                By = gen._perform_bwd_convolution(ycopy)
                l = np.sum(Ax * y); r = np.sum(x * By)
                print(mol.natm, name, itype, plan_type, l, r, abs(l - r) / abs(l))
