/* declaration-only stub used by /verif for parsing (clang -fsyntax-only); nothing is linked or run */
#ifndef STUB_FFTW3_MPI_H
#define STUB_FFTW3_MPI_H
#include <stddef.h>
#include <fftw3.h>
#include <mpi.h>
#define FFTW_MPI_DEFAULT_BLOCK (0)
#define FFTW_MPI_TRANSPOSED_IN (1U << 29)
#define FFTW_MPI_TRANSPOSED_OUT (1U << 30)
void fftw_mpi_init(void);
void fftw_mpi_cleanup(void);
ptrdiff_t fftw_mpi_local_size_many_transposed(int, const ptrdiff_t *, ptrdiff_t, ptrdiff_t, ptrdiff_t, MPI_Comm,
                                              ptrdiff_t *, ptrdiff_t *, ptrdiff_t *, ptrdiff_t *);
fftw_plan fftw_mpi_plan_many_dft(int, const ptrdiff_t *, ptrdiff_t, ptrdiff_t, ptrdiff_t, fftw_complex *, fftw_complex *,
                                 MPI_Comm, int, unsigned);
fftw_plan fftw_mpi_plan_many_dft_r2c(int, const ptrdiff_t *, ptrdiff_t, ptrdiff_t, ptrdiff_t, double *, fftw_complex *,
                                     MPI_Comm, unsigned);
fftw_plan fftw_mpi_plan_many_dft_c2r(int, const ptrdiff_t *, ptrdiff_t, ptrdiff_t, ptrdiff_t, fftw_complex *, double *,
                                     MPI_Comm, unsigned);
#endif
