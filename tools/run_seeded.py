#!/usr/bin/env python3
"""Run the registered quick checks against every seeded breaking change in
/verif/seeded/<id>/patch.diff, on a scratch copy of /repo's working tree
(never on /repo itself, so it can run while other work is going on).

usage: tools/run_seeded.py [seed-id ...] [--all-checks]
Prints, per seed, which checks raise VIOLATION (expected: the check of the
property it breaks), and verifies the scratch copy without the patch is silent.
"""
import json
import os
import shutil
import subprocess
import sys
import tempfile

VERIF = os.path.dirname(os.path.dirname(os.path.abspath(__file__)))


def sh(cmd, cwd=None):
    p = subprocess.run(cmd, shell=True, cwd=cwd, capture_output=True, text=True)
    return p.returncode, p.stdout + p.stderr


def main():
    args = [a for a in sys.argv[1:] if not a.startswith("--")]
    all_checks = "--all-checks" in sys.argv
    compact = "--compact" in sys.argv
    seeds = sorted(x for x in os.listdir(os.path.join(VERIF, "seeded"))
                   if os.path.isdir(os.path.join(VERIF, "seeded", x)))
    if args:
        seeds = [s for s in seeds if s in args]
    man = json.load(open(os.path.join(VERIF, "MANIFEST.json")))
    checks = {c["property_id"]: c for c in man["checks"]}
    def one(sid):
        summary = []
        d = os.path.join(VERIF, "seeded", sid)
        meta = json.load(open(os.path.join(d, "meta.json")))
        prop = meta["property"]
        scratch = tempfile.mkdtemp(prefix="verif_seed_")
        try:
            sh("git -C /repo ls-files -z ciderpress docs | xargs -0 -I{} cp --parents {} %s/" % scratch, cwd="/repo")
            # generated (git-ignored) config headers are part of /repo's working tree
            for gen in ("ciderpress/lib/fft_wrapper/cider_fft_config.h", "ciderpress/lib/pwutil/config.h"):
                if os.path.exists("/repo/" + gen):
                    shutil.copy("/repo/" + gen, os.path.join(scratch, gen))
            # working-tree contents (ls-files + cp copies the working tree versions)
            rc, out = sh("git apply --unsafe-paths --directory=%s -p1 %s" % (scratch, os.path.join(d, "patch.diff")), cwd=scratch)
            if rc != 0:
                alt = os.path.join(d, "patch_rebased.diff")
                if os.path.exists(alt):
                    rc, out = sh("patch -p1 -d %s < %s" % (scratch, alt))
                else:
                    rc, out = sh("patch -p1 -d %s < %s" % (scratch, os.path.join(d, "patch.diff")))
            if rc != 0:
                summary.append((sid, prop, "PATCH-DOES-NOT-APPLY", out[-300:]))
                return summary
            todo = list(checks) if all_checks else [prop]
            fired = {}
            for pid in todo:
                if pid not in checks:
                    continue
                cmd = checks[pid]["quick_cmd"] + " --root %s" % scratch
                rc, out = sh(cmd, cwd=VERIF)
                viol = [l for l in out.splitlines() if l.startswith("VIOLATION")]
                rep = [l for l in out.splitlines() if "::" in l and not l.startswith(("NOTE", "KNOWN"))]
                fired[pid] = (rc, len(viol), rep[:3])
            rc, nv, rep = fired.get(prop, (None, 0, []))
            status = "DETECTED" if rc == 1 and nv else ("NOT-CLAIMED" if prop not in checks else "MISSED rc=%s" % rc)
            others = [p for p, (r, n, _) in fired.items() if p != prop and r == 1]
            summary.append((sid, prop, status, "; ".join(rep)[:400] + (" | also fired: %s" % others if others else "")))
        finally:
            shutil.rmtree(scratch, ignore_errors=True)
        return summary

    import concurrent.futures as cf
    summary = []
    with cf.ThreadPoolExecutor(6) as ex:
        for r in ex.map(one, seeds):
            summary.extend(r)
    rows = [{"seed": a, "property": b, "status": c, "detail": d_[:600]} for a, b, c, d_ in summary]
    rp = os.path.join(VERIF, "seeded", "RESULTS.json")
    if all_checks and not args:
        with open(rp, "w") as fh:
            json.dump(rows, fh, indent=1)
    elif "--merge" in sys.argv and os.path.exists(rp):
        # refresh only the rows of the seeds given on the command line
        old = {r["seed"]: r for r in json.load(open(rp))}
        old.update({r["seed"]: r for r in rows})
        def _k(sid):
            a, b = sid.split("-")
            return (a, int(b))
        with open(rp, "w") as fh:
            json.dump([old[k] for k in sorted(old, key=_k)], fh, indent=1)
    for s in summary:
        also = s[3].split("| also fired:")[1].strip() if "| also fired:" in s[3] else ""
        print("%-8s %-4s %-22s %s %s" % (s[0], s[1], s[2][:22], ("also=" + also) if also else "", "" if compact else s[3][:300]))
    missed = [s for s in summary if not s[2].startswith("DETECTED")]
    print("%d seeds, %d detected" % (len(summary), len(summary) - len(missed)))


if __name__ == "__main__":
    main()
