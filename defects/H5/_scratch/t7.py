import cider_build
import numpy as np, sys
from pyscf import gto, dft
from ciderpress.pyscf.gen_cider_grid import CiderGrids
from ciderpress.dft.settings import *
from toy import make_ni

vj_specs = ["se", "se_ar2", "se_a2r4", "se_erf_rinv"]
theta_params = [1.0, 0.0, 0.03125]
feat_params = [[2.0, 0.0, 0.04] for i in range(4)]
feat_params[-1].append(2.0)
vi = NLDFSettingsVI("MGGA", theta_params, "one", ["se_ap", "se_lapl"], ["se_grad", "se_rvec"], [(0, 0), (0,1), (-1, 1), (-1,0)])
vj = NLDFSettingsVJ("MGGA", theta_params, "one", vj_specs, feat_params)
vk = NLDFSettingsVK("MGGA", theta_params, "one", [[1.0, 0.0, 0.02], [2.0, 0.0, 0.04]], "exponential")
sd = SDMXG1Settings([0,1,2], 2, 2)
sl = SemilocalSettings("nst")

mol = gto.M(atom="O 0 0 0; H 0.15 0.85 0.45; F -0.75 -0.35 0.95", basis="def2-svp", verbose=0, spin=0)
rng = np.random.default_rng(5)
ks = dft.RKS(mol); ks.xc = "PBE"; ks.kernel(); dm = ks.make_rdm1()
mo = ks.mo_coeff
P = np.outer(mo[:, 5], mo[:, 13]); P = P + P.T

def fdtest(ni, mol, grids, dm, label, uks=False):
    fn = ni.nr_uks if uks else ni.nr_rks
    n, e, v = fn(mol, grids, "", dm)
    for d in [1e-3, 1e-4]:
        ep = fn(mol, grids, "", dm + d * P)[1]
        em = fn(mol, grids, "", dm - d * P)[1]
        fd = (ep - em) / (2 * d)
        an = np.sum(v * P)
        print(label, "d=%g" % d, "E=%.10f" % e, "fd=%.10e an=%.10e rel=%.2e" % (fd, an, abs(fd - an) / abs(fd)), flush=True)

grids = CiderGrids(mol, lmax=6); grids.level = 0; grids.build(with_non0tab=True)
for nm, kw in [("sdmx", dict(sdmx=sd)), ("vj", dict(nldf=vj)), ("vi", dict(nldf=vi)), ("vk", dict(nldf=vk)), ("vj-spline", dict(nldf=vj, plan_type="spline")), ("vk-spline", dict(nldf=vk, plan_type="spline"))]:
    ni = make_ni(sl=sl, **kw)
    fdtest(ni, mol, grids, dm, "RKS " + nm)
