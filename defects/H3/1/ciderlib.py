"""Helper: build (if needed) libmcider / libxc_utils from the project's C sources with
gcc and hand them to the real Python wrappers through a patched numpy.ctypeslib.load_library."""
import os, subprocess, sys
import numpy.ctypeslib as _ncl

HERE = os.path.dirname(os.path.abspath(__file__))
ROOT = os.path.abspath(os.path.join(HERE, "..", ".."))
BUILD = os.path.join(ROOT, "hunt_out", "build")
SRC = os.path.join(ROOT, "ciderpress", "lib")


def _pyscf_lib():
    import pyscf
    return os.path.join(os.path.dirname(pyscf.__file__), "lib")


def build():
    os.makedirs(BUILD, exist_ok=True)
    PL = _pyscf_lib()
    out = os.path.join(BUILD, "libmcider.so")
    if not os.path.exists(out):
        files = ["frac_lapl.c", "cider_coefs.c", "cider_grids.c", "spline.c", "sph_harm.c",
                 "conv_interpolation.c", "convolutions.c", "fast_sdmx.c", "debug_numint.c",
                 "model_utils.c"]
        cmd = ["gcc", "-O2", "-fopenmp", "-shared", "-fPIC", "-w", "-I.", "-I%s/deps/include" % PL,
               "-o", out] + files + ["-L" + PL, "-L%s/deps/lib" % PL, "-Wl,-rpath," + PL,
               "-Wl,-rpath,%s/deps/lib" % PL, "-l:libcgto.so", "-l:libdft.so", "-l:libcvhf.so",
               "-l:libnp_helper.so", "-lcint", "-lopenblas", "-llapack", "-lm"]
        subprocess.check_call(cmd, cwd=os.path.join(SRC, "mod_cider"))
    out = os.path.join(BUILD, "libxc_utils.so")
    if not os.path.exists(out):
        cmd = ["gcc", "-O2", "-fopenmp", "-shared", "-fPIC", "-w", "-I%s/deps/include" % PL, "-o", out,
               "xc_utils/libxc_baselines.c", "-L%s/deps/lib" % PL, "-Wl,-rpath,%s/deps/lib" % PL,
               "-lxc", "-lm"]
        subprocess.check_call(cmd, cwd=SRC)


_orig = _ncl.load_library


def _patched(libname, loader_path):
    p = os.path.join(BUILD, libname + ".so")
    if os.path.exists(p):
        return _orig(libname, BUILD)
    try:
        return _orig(libname, loader_path)
    except OSError:
        from unittest.mock import MagicMock
        return MagicMock()


def install():
    build()
    _ncl.load_library = _patched
    import numpy
    numpy.ctypeslib.load_library = _patched
