import cider_build
import numpy as np, sys
from pyscf import gto, dft
from ciderpress.pyscf.gen_cider_grid import CiderGrids
from ciderpress.pyscf.nldf_convolutions import PyscfNLDFGenerator
from ciderpress.dft.settings import *
vj_specs = ["se", "se_ar2", "se_a2r4", "se_erf_rinv"]
mol = gto.M(atom="O 0 0 0; H 0.15 0.85 0.45; F -0.75 -0.35 0.95", basis="def2-svp", verbose=0, spin=0)
ks = dft.RKS(mol); ks.xc = "PBE"; ks.kernel(); dm = ks.make_rdm1()
mo = ks.mo_coeff
P = np.outer(mo[:, 5], mo[:, 5])
grids = CiderGrids(mol, lmax=6); grids.level = 0; grids.build(with_non0tab=True)
ni = dft.numint.NumInt()
rng = np.random.default_rng(3)
pcoords = rng.normal(size=(200, 3)) * 1.5
def getrho(dm, coords):
    ao = ni.eval_ao(mol, coords, deriv=1)
    return ni.eval_rho(mol, ao, dm, xctype="MGGA", with_lapl=False)
rho0 = getrho(dm, grids.coords); drho = getrho(P, grids.coords)
prho0 = getrho(dm, pcoords); pdrho = getrho(P, pcoords)
for lvl in ["GGA", "MGGA"]:
    n = 2 if lvl == "GGA" else 3
    theta = [1.0, 0.3, 0.03125][:n]
    fp = [[2.0, 0.2, 0.04][:n] for i in range(4)]
    fp[-1].append(2.0)
    for rm in ["one", "expnt"]:
        vij = NLDFSettingsVIJ(lvl, theta, rm, ["se_ap", "se_r2", "se_lapl"], ["se_grad", "se_rvec"], [(0, 0), (1, -1), (0, 1), (-1, 0)], vj_specs, fp)
        vk = NLDFSettingsVK(lvl, theta, rm, [[1.0, 0.1, 0.02][:n], [2.0, 0.0, 0.04][:n]], "exponential")
        for nm, st in [("vij", vij), ("vk", vk)]:
            g1 = PyscfNLDFGenerator.from_mol_and_settings(mol, grids.grids_indexer, 1, st, plan_type="spline", interpolator_type="train_gen")
            g1.interpolator.set_coords(pcoords)
            feat, occd = g1.get_features_and_occ_derivs(rho0, drho[None], prho0, pdrho[None])
            h = 1e-4
            fpv = g1.get_features_and_occ_derivs(rho0 + h*drho, np.empty(0), prho0 + h*pdrho, np.empty(0))[0]
            fmv = g1.get_features_and_occ_derivs(rho0 - h*drho, np.empty(0), prho0 - h*pdrho, np.empty(0))[0]
            fd = (fpv - fmv) / (2*h)
            err = np.abs(fd - occd[0]).max(axis=1) / np.abs(fd).max(axis=1)
            print(lvl, rm, nm, np.array2string(err, precision=1), flush=True)
