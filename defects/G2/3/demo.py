"""sdmx_slow.EXXSphGenerator.get_feat_and_occd(dm, coeffs, mol, coords, buf=work)
must return the same features / occupation derivatives as with buf=None (the buffer
is only scratch space). On the current code the orbital values overwrite the
convolved-orbital values (both are placed at the start of buf): silent garbage."""
import os
import sys

sys.path.insert(0, os.path.dirname(os.path.abspath(__file__)))
import cider_boot

cider_boot.boot()
import numpy as np
from pyscf import dft, gto

from ciderpress.dft.settings import SDMXG1Settings, SDMXSettings
from ciderpress.pyscf import sdmx_slow

mol = gto.M(atom="O 0 0 0; H 0 0.76 0.59; H 0 -0.76 0.59", basis="def2-svp", verbose=0)
ks = dft.RKS(mol)
ks.xc = "PBE"
ks.grids.level = 0
ks.kernel()
dm = ks.make_rdm1()
coords = np.ascontiguousarray(ks.grids.coords[::37][:100])
coeffs = ks.mo_coeff[:, [2, 4, 6]].T.copy()
nfail = 0
for name, st in [("SDMXSettings([0,1])", SDMXSettings([0, 1])),
                 ("SDMXG1Settings([0,1,2],2,2)", SDMXG1Settings([0, 1, 2], 2, 2))]:
    gen = sdmx_slow.EXXSphGenerator.from_settings_and_mol(st, 1, mol)
    f, occd = gen.get_feat_and_occd(dm, coeffs, mol, coords)
    f_ref = gen.get_features(dm, mol, coords)
    ncpa = 4 if gen.has_l1 else 1
    work = np.empty(mol.nao_nr() * coords.shape[0] * (1 + ncpa * gen.plan.nalpha))
    fb, ob = gen.get_feat_and_occd(dm, coeffs, mol, coords, buf=work)
    e0 = np.abs(f - f_ref).max() / np.abs(f_ref).max()
    e1 = np.abs(fb - f_ref).max() / np.abs(f_ref).max()
    e2 = np.abs(ob - occd).max() / np.abs(occd).max()
    print("%s: buf=None rel.err vs get_features %.1e (expected ~1e-12)" % (name, e0))
    print("%s: buf=work rel.err of features %.1e, of occ. derivatives %.1e (expected ~1e-12)"
          % (name, e1, e2))
    if max(e0, e1, e2) > 1e-9:
        nfail += 1
if nfail:
    print("FAIL")
    sys.exit(1)
print("OK")
