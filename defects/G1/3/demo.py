"""
C01 for a symmetric but indefinite density matrix (the quantifier is "all
symmetric density matrices, not only converged ones"): semilocal mode 'npa'.
get_alpha() clamps alpha = max(tau - tau_W, 0) / tau_unif, dalpha() returns the
derivative of the unclamped expression.  Where tau < tau_W (possible only for a
non-positive-semidefinite P) the energy does not depend on alpha's arguments
but vmat still contains d(alpha)/d(rho, sigma, tau).
Expected: sum(vmat * D) == d exc / d h for P + h D.  Observed: they differ.
The same matrix in mode 'nst' (no clamp) agrees, so the negative-density
points, which the model cuts consistently, are not the cause.
"""
import os
import sys

sys.path.insert(0, os.path.dirname(os.path.abspath(__file__)))
import cider_build  # noqa

import numpy as np
from pyscf import dft, gto

from ciderpress.dft.baselines import BASELINE_CODES
from ciderpress.dft.settings import FeatureSettings, SemilocalSettings
from ciderpress.dft.transform_data import FeatureList, LMap
from ciderpress.dft.xc_evaluator import GlobalLinearEvaluator, MappedDFTKernel, MappedXC
from ciderpress.pyscf.dft import make_cider_calc

np.seterr(all="ignore")
mol = gto.M(atom="H 0 0 0; F 0 0 0.9", basis="def2-svp", verbose=0)
dm0 = dft.RKS(mol).get_init_guess(key="minao")
rng = np.random.RandomState(5)
P1 = rng.normal(size=dm0.shape) * 0.3
dm = dm0 + P1 + P1.T  # symmetric, indefinite
D = rng.normal(size=dm0.shape) * 0.05
D = D + D.T
print("eigenvalues of P: min %.3f max %.3f" % tuple(np.linalg.eigvalsh(dm)[[0, -1]]))


def check(mode):
    settings = FeatureSettings(sl_settings=SemilocalSettings(mode))
    coef = np.zeros(settings.nfeat)
    coef[-1] = 1.0  # model = LDA_X(n) * (alpha or tau)
    model = MappedXC(
        [
            MappedDFTKernel(
                GlobalLinearEvaluator(coef),
                FeatureList([LMap(i) for i in range(settings.nfeat)]),
                "SEP",
                BASELINE_CODES["LDA_X"],
            )
        ],
        settings,
    )
    ks = make_cider_calc(dft.RKS(mol), model)
    ks.grids.level = 1
    ks.build()
    ni = ks._numint
    f = lambda p: ni.nr_rks(mol, ks.grids, ks.xc, p)
    nelec, exc, vmat = f(dm)
    an = np.sum(vmat * D)
    worst = 0
    for h in (1e-4, 1e-5):
        fd = (f(dm + h * D)[1] - f(dm - h * D)[1]) / (2 * h)
        print("  mode %s h=%.0e: finite difference %.8f   sum(vmat*D) %.8f" % (mode, h, fd, an))
        worst = max(worst, abs(fd - an) / max(1.0, abs(fd)))
    return worst


e_nst = check("nst")
e_npa = check("npa")
print("relative mismatch: nst %.2e (expected ~1e-9), npa %.2e (expected ~1e-9)" % (e_nst, e_npa))
sys.exit(0 if (e_nst < 1e-6 and e_npa < 1e-6) else 1)
