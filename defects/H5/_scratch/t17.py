import cider_build
import numpy as np, sys
from pyscf import gto, dft
from ciderpress.pyscf.gen_cider_grid import CiderGrids
from ciderpress.pyscf.nldf_convolutions import PyscfNLDFGenerator
from ciderpress.dft.settings import *
mol = gto.M(atom="O 0 0 0; H 0.15 0.85 0.45; F -0.75 -0.35 0.95", basis="def2-svp", verbose=0, spin=0)
ks = dft.RKS(mol); ks.xc = "PBE"; ks.kernel(); dm = ks.make_rdm1()
mo = ks.mo_coeff
P = np.outer(mo[:, 5], mo[:, 13]); P = P + P.T
grids = CiderGrids(mol, lmax=6); grids.level = 0; grids.build(with_non0tab=True)
ni = dft.numint.NumInt()
ao = ni.eval_ao(mol, grids.coords, deriv=1)
rho0 = ni.eval_rho(mol, ao, dm, xctype="MGGA", with_lapl=False)
drho = ni.eval_rho(mol, ao, P, xctype="MGGA", with_lapl=False)
vk = NLDFSettingsVK("MGGA", [1.0, 0.0, 0.03125], "one", [[1.0, 0.1, 0.02], [2.0, 0.0, 0.04]], "exponential")
g1 = PyscfNLDFGenerator.from_mol_and_settings(mol, grids.grids_indexer, 1, vk, plan_type="spline", interpolator_type="train_gen")
g1.interpolator.set_coords(grids.coords)
g2 = PyscfNLDFGenerator.from_mol_and_settings(mol, grids.grids_indexer, 1, vk, plan_type="spline", interpolator_type="onsite_spline")
g2.interpolator.set_coords(grids.coords)
feat, occd = g1.get_features_and_occ_derivs(rho0, drho[None])
f2 = g2.get_features(rho0)
print(feat.shape, f2.shape, np.abs(feat).max(), np.abs(f2).max(), np.isnan(feat).sum())
big = np.abs(feat - f2) > 1e-6
print(np.argwhere(big)[:20], grids.weights.size, grids.grids_indexer.padding)
print(feat[:, -10:]); print(f2[:, -10:]); print(rho0[0, -10:])
o = occd[0]
print("occd max", np.abs(o).max(), np.isnan(o).sum())
j = np.unravel_index(np.argmax(np.abs(o)), o.shape)
print(j, rho0[:, j[1]], drho[:, j[1]], feat[:, j[1]])
# FD
d = 1e-4
fp = g2.get_features(rho0 + d*drho); fm = g2.get_features(rho0 - d*drho)
fd = (fp - fm) / (2*d)
m = rho0[0] > 1e-6
print("fd vs occd (rho>1e-6)", np.abs(fd - o)[:, m].max(), np.abs(o)[:, m].max())
rng = np.random.default_rng(0)
g2.get_features(rho0)
c = rng.normal(size=feat.shape) * grids.weights * m
c0 = c.copy(); o0 = occd.copy(); rho_c = rho0.copy()
v = g2.get_potential(c)
print("c changed", np.abs(c - c0).max(), "occd changed", np.abs(occd - o0).max(), "rho0 changed", np.abs(rho0-rho_c).max())
print(np.sum(c*occd[0]), np.sum(v*drho), np.abs(v).max())
