"""
C11: RBFEvaluator (C squared-exponential evaluator) vs the Python kernel sum
for an *isotropic* (scalar / one-element) length scale, which sklearn's RBF
(and hence DiffRBF / SubsetRBF, default length_scale=1.0) supports.
"""
import os
import sys

import numpy as np

import cider_stub

cider_stub.install()

from ciderpress.dft.xc_evaluator import KernelEvaluator, RBFEvaluator  # noqa: E402
from ciderpress.models.kernels import (  # noqa: E402
    DiffConstantKernel,
    DiffRBF,
    SubsetRBF,
)

rng = np.random.default_rng(0)
nctrl, nfeat, n = 7, 4, 5
Xctrl = rng.normal(size=(nctrl, nfeat))
alpha = rng.normal(size=nctrl)
X = rng.normal(size=(n, nfeat))

cases = {
    "SubsetRBF([0,2,3], length_scale=0.7)": DiffConstantKernel(1.3)
    * SubsetRBF([0, 2, 3], length_scale=0.7),
    "SubsetRBF([0,2,3], length_scale=[0.7])": DiffConstantKernel(1.3)
    * SubsetRBF([0, 2, 3], length_scale=np.array([0.7])),
    "DiffRBF(length_scale=[0.7]) (4 features)": DiffConstantKernel(1.3)
    * DiffRBF(length_scale=np.array([0.7])),
    "DiffRBF(length_scale=0.7) (4 features)": DiffConstantKernel(1.3)
    * DiffRBF(length_scale=0.7),
}
# control: anisotropic length scale with the same value everywhere
control = DiffConstantKernel(1.3) * SubsetRBF(
    [0, 2, 3], length_scale=np.array([0.7, 0.7, 0.7])
)
nfail = 0
fref, dfref = KernelEvaluator(control, Xctrl, alpha)(X)
f, df = RBFEvaluator(control, Xctrl, alpha)(X)
print("control (anisotropic, all 0.7): max|f_C - f_py| = %.2e" % np.abs(f - fref).max())
assert np.abs(f - fref).max() < 1e-12 and np.abs(df - dfref).max() < 1e-12

for name, kernel in cases.items():
    # Python predictive function f(x) = sum_a k(x, x_a) alpha_a and its gradient
    fref, dfref = KernelEvaluator(kernel, Xctrl, alpha)(X)
    try:
        # repeat to expose reads of uninitialised / foreign memory
        outs = [RBFEvaluator(kernel, Xctrl, alpha)(X) for _ in range(3)]
    except Exception as e:
        print("%s\n   expected f = %s\n   observed: %s: %s" % (name, fref, type(e).__name__, e))
        nfail += 1
        continue
    f, df = outs[0]
    err = max(np.abs(f - fref).max(), np.abs(df - dfref).max())
    print("%s\n   expected f = %s\n   observed f = %s\n   max error (f, df) = %.3e" % (name, fref, f, err))
    if not (err < 1e-10):
        nfail += 1

if nfail:
    print("FAIL: %d isotropic-length-scale kernels are not reproduced by RBFEvaluator" % nfail)
    sys.stdout.flush()
    # the out-of-bounds writes of the C routine can corrupt the heap;
    # leave without running interpreter teardown
    os._exit(1)
print("OK")
