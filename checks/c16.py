#!/usr/bin/env python3
"""C16 -- Gaussian-process training solves the documented linear system.
Only the *history* clause and the shape of the system are decided statically (DESIGN.md §C16); the
algebraic identities (weights, residual, likelihood value) are numerical and NOT decided.

 reset-append   containers read by fit == containers appended by add_reactions ⊆ containers emptied
                by reset_reactions (over *all* kernels); xkernels/ckernels partition kernels;
                __init__ resets after self.kernels is set
 row-once       on every non-raising path of one iteration of the reaction loop of add_reactions each of
                rxn_ref_list, rxn_noise_list and the rxn_cov_list of every kernel group receives exactly
                one append (path-counting over the structured body)
 fit-system     fit stacks rxn_cov_list of every kernel of self.kernels, accumulates their Nystroem
                covariances with +=, adds diag(noise**2) (noise std squared exactly once), solves against
                rxn_ref_list, regularises only with self.numerical_epsilon (a literal <= 1e-6) and assigns
                kernel.alpha in the same kernel order
"""
import ast
import os
import sys

sys.path.insert(0, os.path.dirname(os.path.dirname(os.path.abspath(__file__))))
from sa import core, pyfacts as pf, cfg as cfgm, inline  # noqa: E402
from sa.pyfacts import clone as _ast_clone  # noqa: E402
from sa.selftest import Mutant  # noqa: E402

PROP = "C16"
TR = "ciderpress/models/train.py"
DK = "ciderpress/models/dft_kernel.py"
GROW = ("append", "extend", "insert")


# ----------------------------------------------------------------------------
# class facts
# ----------------------------------------------------------------------------
class GP:
    def __init__(self, prog, mod, cls):
        self.prog, self.mod, self.cls = prog, mod, cls
        self.groups = {}  # property name -> (base attr, condition ast, loop var)
        for m, c in prog.mro(mod, cls):
            for name, fn in pf.methods(c).items():
                if name in self.groups or not any(pf.src(d) == "property" for d in fn.decorator_list):
                    continue
                rets = [x for x in pf.walk_no_nested(fn) if isinstance(x, ast.Return)]
                if len(rets) == 1 and isinstance(rets[0].value, ast.Name):
                    # out = []; for k in self.kernels: if cond: out.append(k); return out
                    loops = [x for x in fn.body if isinstance(x, ast.For)]
                    if len(loops) == 1 and pf.is_self_attr(loops[0].iter) and isinstance(loops[0].target, ast.Name) \
                            and len(loops[0].body) == 1 and isinstance(loops[0].body[0], ast.If) \
                            and not loops[0].body[0].orelse and len(loops[0].body[0].body) == 1 \
                            and pf.src(loops[0].body[0].body[0]) == "%s.append(%s)" % (rets[0].value.id, loops[0].target.id):
                        self.groups[name] = (loops[0].iter.attr, loops[0].body[0].test, loops[0].target.id)
                        continue
                if len(rets) == 1 and isinstance(rets[0].value, ast.Call) and pf.call_name(rets[0].value) == "list" \
                        and rets[0].value.args and isinstance(rets[0].value.args[0], ast.GeneratorExp):
                    ge = rets[0].value.args[0]
                    rets[0] = ast.Return(value=ast.ListComp(elt=ge.elt, generators=ge.generators))
                if len(rets) == 1 and isinstance(rets[0].value, ast.ListComp):
                    lc = rets[0].value
                    if len(lc.generators) == 1 and pf.is_self_attr(lc.generators[0].iter) \
                            and isinstance(lc.generators[0].target, ast.Name) \
                            and pf.src(lc.elt) == lc.generators[0].target.id and len(lc.generators[0].ifs) == 1:
                        self.groups[name] = (lc.generators[0].iter.attr, lc.generators[0].ifs[0],
                                             lc.generators[0].target.id)

        # properties over self.kernels the rule could not read; iterating one of them is an analysis error,
        # never "not a kernel loop"
        self.unread = set()
        for m, c in prog.mro(mod, cls):
            for name, fn in pf.methods(c).items():
                if name not in self.groups and any(pf.src(d) == "property" for d in fn.decorator_list) \
                        and any(pf.is_self_attr(x, "kernels") for x in ast.walk(fn)):
                    self.unread.add(name)

    def method(self, name):
        r = self.prog.find_method(self.mod, self.cls, name)
        if r is None:
            raise core.AnalysisError("anchor method %s.%s vanished" % (self.cls.name, name))
        return r[2]

    def kernel_iter(self, it):
        """iterable expression -> set of kernel groups it covers, or None when it is not a kernel list.
        'ALL' stands for self.kernels."""
        if isinstance(it, ast.Call) and pf.call_name(it) == "enumerate" and it.args:
            it = it.args[0]
        if pf.is_self_attr(it) and it.attr in self.unread:
            raise core.AnalysisError("loop over self.%s, a property over self.kernels the rule cannot read" % it.attr)
        if pf.is_self_attr(it, "kernels"):
            return {"ALL"}
        if pf.is_self_attr(it) and it.attr in self.groups and self.groups[it.attr][0] == "kernels":
            return {it.attr}
        if isinstance(it, ast.BinOp) and isinstance(it.op, ast.Add):
            a, b = self.kernel_iter(it.left), self.kernel_iter(it.right)
            if a and b:
                return a | b  # concatenation of kernel lists (possibly in another order than self.kernels)
        if isinstance(it, ast.Call) and pf.call_name(it) in ("list", "tuple") and len(it.args) == 1:
            return self.kernel_iter(it.args[0])
        return None

    def covers_all(self, groups):
        allg = {n for n, (b, _, _) in self.groups.items() if b == "kernels"}
        return groups == {"ALL"} or (bool(allg) and groups is not None and allg <= groups)


def loop_var(f):
    t = f.target
    if isinstance(f.iter, ast.Call) and pf.call_name(f.iter) == "enumerate" and isinstance(t, ast.Tuple) \
            and len(t.elts) == 2:
        t = t.elts[1]
    return t.id if isinstance(t, ast.Name) else None


def complementary(c1, v1, c2, v2):
    """the two comprehension filters are each other's negation"""
    def norm(c, v):
        neg = False
        while isinstance(c, ast.UnaryOp) and isinstance(c.op, ast.Not):
            c, neg = c.operand, not neg
        if isinstance(c, ast.Compare) and len(c.ops) == 1:
            op = type(c.ops[0])
            flip = {ast.NotEq: ast.Eq, ast.NotIn: ast.In, ast.IsNot: ast.Is}
            if op in flip:
                op, neg = flip[op], not neg
            l = pf.src(c.left).replace(v + ".", "$.")
            r = pf.src(c.comparators[0]).replace(v + ".", "$.")
            if op is ast.Eq and l > r:
                l, r = r, l
            return (op.__name__, l, r), neg
        return ("expr", pf.src(c).replace(v + ".", "$."), ""), neg
    a, na = norm(c1, v1)
    b, nb = norm(c2, v2)
    return a == b and na != nb


# ----------------------------------------------------------------------------
# container growth sites
# ----------------------------------------------------------------------------
def growth(call):
    """X.<list>.append(...) -> (receiver_expr, list_name, how) or None"""
    if isinstance(call, ast.Call) and isinstance(call.func, ast.Attribute) and call.func.attr in GROW \
            and isinstance(call.func.value, ast.Attribute):
        return call.func.value.value, call.func.value.attr, call.func.attr
    return None


def tracked_containers_of_fit(gp, fit):
    """containers (('self'|'kernel', name)) that fit reads"""
    out = {}
    kvars = set()
    for x in pf.walk_no_nested(fit):
        if isinstance(x, ast.For) and gp.kernel_iter(x.iter):
            v = loop_var(x)
            if v:
                kvars.add(v)
    for x in pf.walk_no_nested(fit):
        if isinstance(x, ast.Attribute) and isinstance(x.ctx, ast.Load) and x.attr.startswith("rxn_") \
                and x.attr.endswith("_list"):
            if pf.is_self_attr(x):
                out.setdefault(("self", x.attr), x)
            elif isinstance(x.value, ast.Name) and x.value.id in kvars:
                out.setdefault(("kernel", x.attr), x)
    return out


# ----------------------------------------------------------------------------
# rule 1
# ----------------------------------------------------------------------------
def rule_reset_append(chk, gp):
    add = gp.method("add_reactions")
    rst = gp.method("reset_reactions")
    fit = gp.method("fit")
    cname = gp.cls.name
    # partition
    by_base = [n for n, (base, _, _) in gp.groups.items() if base == "kernels"]
    inst = "%s: %s partition self.kernels" % (cname, sorted(by_base))
    if len(by_base) == 2:
        (c1, v1), (c2, v2) = [(gp.groups[n][1], gp.groups[n][2]) for n in sorted(by_base)]
        if complementary(c1, v1, c2, v2):
            chk.ok("reset-append", inst)
        else:
            fn = gp.method(sorted(by_base)[0])
            chk.violation("reset-append", TR, cname, "kernel groups %s" % sorted(by_base), fn.lineno,
                          "the kernel groups filter self.kernels by `%s` and `%s`, which are not complementary: a "
                          "kernel outside both (or inside both) gets no (or two) covariance rows per reaction"
                          % (pf.src(c1), pf.src(c2)), instance=inst)
    elif by_base:
        raise core.AnalysisError("%s: %d kernel-group properties over self.kernels; expected xkernels/ckernels"
                                 % (cname, len(by_base)))
    # appended
    appended = {}
    kv = {}
    for x in pf.walk_no_nested(add):
        if isinstance(x, ast.For):
            g = gp.kernel_iter(x.iter)
            if g and loop_var(x):
                kv.setdefault(loop_var(x), set()).update(g)
    for x in pf.walk_no_nested(add):
        gr = growth(x)
        if gr is None:
            continue
        recv, lname, how = gr
        if isinstance(recv, ast.Name) and recv.id == "self":
            appended.setdefault(("self", lname), x)
        elif isinstance(recv, ast.Name) and recv.id in kv:
            appended.setdefault(("kernel", lname), x)
    # reset
    reset = {}
    for st in pf.walk_no_nested(rst):
        if isinstance(st, ast.Assign) and len(st.targets) == 1 and isinstance(st.targets[0], ast.Attribute):
            t = st.targets[0]
            empty = (isinstance(st.value, ast.List) and not st.value.elts) or \
                    (isinstance(st.value, ast.Call) and pf.call_name(st.value) == "list" and not st.value.args)
            if not empty:
                continue
            if pf.is_self_attr(t):
                reset[("self", t.attr)] = (st, None)
            elif isinstance(t.value, ast.Name):
                loop = pf.enclosing(st, (ast.For,))
                if loop is not None and loop_var(loop) == t.value.id:
                    reset[("kernel", t.attr)] = (st, gp.kernel_iter(loop.iter))
    used = tracked_containers_of_fit(gp, fit)
    chk.count("containers read by fit", len(used))
    chk.count("containers appended by add_reactions", len(appended))
    chk.count("containers emptied by reset_reactions", len(reset))
    if not used:
        raise core.AnalysisError("fit reads no rxn_*_list container")
    for key in sorted(set(used) | set(appended)):
        owner, lname = key
        label = ("self.%s" % lname) if owner == "self" else ("<kernel>.%s" % lname)
        inst = "%s: %s appended/reset/read" % (cname, label)
        if key not in appended:
            chk.violation("reset-append", TR, cname + ".add_reactions", label, add.lineno,
                          "fit reads %s but add_reactions never appends to it: its rows cannot stay aligned with "
                          "the other per-reaction lists" % label, instance=inst)
        elif key not in reset:
            chk.violation("reset-append", TR, cname + ".reset_reactions", label, rst.lineno,
                          "add_reactions appends to %s but reset_reactions does not empty it: after "
                          "reset_reactions(); add_reactions(r) it keeps the rows of the previous reactions while the "
                          "other lists restart, so fit pairs covariances, labels and noises of different reactions"
                          % label, instance=inst)
        elif owner == "kernel" and reset[key][1] != {"ALL"}:
            chk.violation("reset-append", TR, cname + ".reset_reactions", label, reset[key][0].lineno,
                          "%s is emptied only for %s, not for every kernel of self.kernels"
                          % (label, sorted(reset[key][1] or ["an unknown list"])), instance=inst)
        else:
            chk.ok("reset-append", inst)
    # __init__ : reset after kernels are stored
    init = gp.method("__init__")
    g = cfgm.CFG(init)
    calls = [x for x in pf.walk_no_nested(init) if isinstance(x, ast.Call) and pf.src(x.func) == "self.reset_reactions"]
    kas = [x for x in pf.walk_no_nested(init) if isinstance(x, ast.Assign) and any(pf.is_self_attr(t, "kernels") for t in x.targets)]
    inst = "%s.__init__ empties the lists after self.kernels is set" % cname
    if calls and kas:
        cn = g.stmt_of_expr(calls[0])
        if all(g.dominates(g.node_of(k).id, cn.id) for k in kas):
            chk.ok("reset-append", inst)
        else:
            chk.violation("reset-append", TR, cname + ".__init__", "self.reset_reactions()", calls[0].lineno,
                          "reset_reactions iterates self.kernels, which is not assigned yet on some path",
                          instance=inst)
    else:
        initd = {t.attr for x in pf.walk_no_nested(init) if isinstance(x, ast.Assign) for t in x.targets
                 if pf.is_self_attr(t)}
        missing = [k for k in appended if k[0] == "self" and k[1] not in initd]
        if missing:
            chk.violation("reset-append", TR, cname + ".__init__", "list initialisation", init.lineno,
                          "__init__ neither calls reset_reactions nor creates %s" % missing, instance=inst)
        else:
            chk.ok("reset-append", inst + " (direct assignments)")
    return appended, kv


# ----------------------------------------------------------------------------
# rule 2: exactly-once per reaction
# ----------------------------------------------------------------------------
class PathCount:
    """Counts appends per tracked container along the non-raising paths of a structured block."""

    def __init__(self, gp, fn, keys_self, kernel_list, groups):
        self.gp, self.fn = gp, fn
        self.keys_self = keys_self          # names of self.<list>
        self.kernel_list = kernel_list      # names of <kernel>.<list>
        self.groups = groups                # e.g. ['ckernels', 'xkernels']
        self.problems = []                  # (stmt, message)

    def zero(self):
        d = {"self.%s" % k: 0 for k in self.keys_self}
        for g in self.groups:
            for l in self.kernel_list:
                d["%s:%s" % (g, l)] = 0
        return d

    # -- path facts: tests over names that are not re-assigned inside the reaction loop ------------
    stable = frozenset()

    def atom(self, test):
        """(key, polarity) for `name <op> literal` / `name` tests over stable names, else None"""
        pol = True
        while isinstance(test, ast.UnaryOp) and isinstance(test.op, ast.Not):
            test, pol = test.operand, not pol
        if isinstance(test, ast.Compare) and len(test.ops) == 1 and isinstance(test.left, ast.Name) \
                and test.left.id in self.stable and isinstance(test.comparators[0], ast.Constant):
            op = type(test.ops[0])
            flip = {ast.NotEq: ast.Eq, ast.IsNot: ast.Is, ast.NotIn: ast.In}
            if op in flip:
                op, pol = flip[op], not pol
            return ("?%s %s %r" % (test.left.id, op.__name__, test.comparators[0].value), pol,
                    test.left.id, op.__name__, test.comparators[0].value)
        if isinstance(test, ast.Name) and test.id in self.stable:
            return ("?%s" % test.id, pol, test.id, "truth", None)
        return None

    def decide(self, d, atom):
        key, pol, name, op, const = atom
        if key in d:
            return d[key] == pol
        if op == "Eq":
            for k2, v2 in d.items():
                if isinstance(k2, str) and k2.startswith("?%s Eq " % name) and v2 is True and k2 != key:
                    return not pol  # equal to a different literal: this equality is False
        return None

    def learn(self, fs, atom, branch):
        d = dict(fs)
        d[atom[0]] = (atom[1] == branch)
        return frozenset(d.items())

    def touches(self, node):
        for x in ast.walk(node):
            gr = growth(x)
            if gr and (gr[1] in self.keys_self or gr[1] in self.kernel_list):
                return True
            if isinstance(x, (ast.AugAssign, ast.Assign)):
                ts = [x.target] if isinstance(x, ast.AugAssign) else x.targets
                for t in ts:
                    if isinstance(t, ast.Attribute) and (t.attr in self.keys_self or t.attr in self.kernel_list):
                        return True
        return False

    def helper_touches(self, call):
        if isinstance(call.func, ast.Attribute) and isinstance(call.func.value, ast.Name) and call.func.value.id == "self":
            r = self.gp.prog.find_method(self.gp.mod, self.gp.cls, call.func.attr)
            if r is not None and self.touches(r[2]):
                return True
        return False

    def block(self, stmts, states, kvar=None):
        """states: dict frozenset(items)->trail ; returns (fall_states, end_states)"""
        ends = {}
        for st in stmts:
            if not states:
                break
            states, e = self.stmt(st, states, kvar)
            ends.update(e)
        return states, ends

    def stmt(self, st, states, kvar):
        if isinstance(st, ast.Raise):
            return {}, {}
        if isinstance(st, (ast.Return, ast.Continue, ast.Break)):
            return {}, dict(states)
        if isinstance(st, ast.If):
            ttxt = pf.src(st.test)[:50]
            atom = self.atom(st.test)
            s_true, s_false = {}, {}
            for k, v in states.items():
                dec = None if atom is None else self.decide(dict(k), atom)
                if dec is not False:
                    k2 = k if atom is None else self.learn(k, atom, True)
                    s_true[k2] = v + [ttxt]
                if dec is not True:
                    k2 = k if atom is None else self.learn(k, atom, False)
                    s_false[k2] = v + ["not (%s)" % ttxt]
            a, ea = self.block(st.body, s_true, kvar)
            b, eb = self.block(st.orelse, s_false, kvar)
            out = dict(b)
            out.update(a)
            ea.update(eb)
            return out, ea
        if isinstance(st, ast.For):
            groups = self.gp.kernel_iter(st.iter)
            if groups and kvar is None and self.touches(st):
                v = loop_var(st)
                brk = any(isinstance(x, ast.Break) for x in pf.walk_no_nested(st))
                if brk or st.orelse:
                    self.problems.append((st, "the kernel loop `for %s in %s` can be left early (break/else): some "
                                              "kernels get no row" % (v, pf.src(st.iter))))
                gs = self.groups if groups == {"ALL"} else sorted(groups)
                out = {}
                for fs, trail in states.items():
                    sub = PathCount(self.gp, self.fn, self.keys_self, self.kernel_list, ["K"])
                    d0 = sub.zero()
                    d0.update({k: val for k, val in dict(fs).items() if isinstance(k, str) and k.startswith("?")})
                    fall, ends = sub.block(st.body, {frozenset(d0.items()): []}, kvar=v)
                    self.problems += sub.problems
                    allst = dict(fall)
                    allst.update(ends)
                    d = dict(fs)
                    for l in self.kernel_list:
                        cs = {}
                        for ifs, itrail in allst.items():
                            cs.setdefault(dict(ifs)["K:%s" % l], itrail)
                        if len(cs) > 1:
                            if any((v + ".") in t for tr in cs.values() for t in tr):
                                raise core.AnalysisError(
                                    "add_reactions: an append inside `for %s in %s` depends on a property of the "
                                    "kernel; per-kernel selection inside the loop is not modelled" % (v, pf.src(st.iter)))
                            c_bad, tr = sorted(cs.items())[0] if sorted(cs)[0] != 1 else sorted(cs.items())[1]
                            self.problems.append(
                                (st, "inside `for %s in %s` the number of appends to %s.%s differs between paths "
                                     "(%s) for reasons other than the reaction mode: %d on the path (%s)"
                                     % (v, pf.src(st.iter), v, l, sorted(cs), c_bad, " and ".join(tr) or "straight line")))
                        c = max(cs) if cs else 0
                        for g in gs:
                            d["%s:%s" % (g, l)] += c
                    for ifs, itrail in allst.items():
                        for k in self.keys_self:
                            if dict(ifs)["self.%s" % k]:
                                self.problems.append((st, "self.%s is appended inside the kernel loop: once per kernel, "
                                                          "not once per reaction" % k))
                    out[frozenset(d.items())] = trail
                return out, {}
            if self.touches(st):
                if groups and kvar is not None:
                    raise core.AnalysisError("nested kernel loops around an append: %s" % pf.src(st)[:80])
                self.problems.append((st, "a tracked list is appended inside the data loop `for %s in %s`: the number "
                                          "of rows depends on the reaction's contents" % (pf.src(st.target), pf.src(st.iter)[:60])))
                return states, {}
            ends = {}
            if any(isinstance(x, ast.Return) for x in pf.walk_no_nested(st)):
                ends = dict(states)
            return states, ends
        if isinstance(st, (ast.With,)):
            return self.block(st.body, states, kvar)
        if isinstance(st, (ast.While, ast.Try)) or type(st).__name__ in ("Match", "TryStar"):
            if self.touches(st) or any(isinstance(x, (ast.Return, ast.Continue, ast.Break)) for x in pf.walk_no_nested(st)):
                raise core.AnalysisError("add_reactions: %s statement around a tracked append/exit is not modelled"
                                         % type(st).__name__)
            return states, {}
        # simple statement
        hits = []
        for x in ast.walk(st):
            gr = growth(x)
            if gr:
                recv, lname, how = gr
                if lname in self.keys_self and isinstance(recv, ast.Name) and recv.id == "self":
                    hits.append(("self.%s" % lname, how, x))
                elif lname in self.kernel_list:
                    if kvar is not None and isinstance(recv, ast.Name) and recv.id == kvar:
                        hits.append(("K:%s" % lname, how, x))
                    else:
                        raise core.AnalysisError("append to %s outside a loop over a kernel group" % pf.src(x.func)[:60])
            elif isinstance(x, ast.Call) and self.helper_touches(x):
                raise core.AnalysisError("add_reactions delegates list growth to %s(); the path count does not follow "
                                         "helpers" % pf.src(x.func))
        if isinstance(st, (ast.AugAssign, ast.Assign)) and self.touches(st) and not hits:
            raise core.AnalysisError("tracked list modified by assignment: %s" % pf.src(st)[:80])
        if not hits:
            return states, {}
        out = {}
        for fs, trail in states.items():
            d = dict(fs)
            for key, how, x in hits:
                if how != "append":
                    raise core.AnalysisError("%s(...) on a tracked list: number of rows not statically known" % how)
                d[key] += 1
            out[frozenset(d.items())] = trail
        return out, {}


def rule_row_once(chk, gp, appended):
    add = gp.method("add_reactions")
    cname = gp.cls.name
    params = {a.arg for a in add.args.args}
    loops = [st for st in add.body if isinstance(st, ast.For) and isinstance(st.iter, ast.Name) and st.iter.id in params]
    if len(loops) != 1:
        raise core.AnalysisError("add_reactions: the single top-level loop over the reaction list was not found")
    loop = loops[0]
    outside = [st for st in add.body if st is not loop]
    keys_self = sorted(k[1] for k in appended if k[0] == "self")
    kernel_list = sorted(k[1] for k in appended if k[0] == "kernel")
    groups = sorted(n for n, (b, _, _) in gp.groups.items() if b == "kernels") or ["ALL"]
    pc = PathCount(gp, add, keys_self, kernel_list, groups)
    assigned = set()
    for x in pf.walk_no_nested(loop):
        if x is loop:
            continue
        if isinstance(x, (ast.Assign, ast.AugAssign, ast.AnnAssign, ast.For)):
            ts = x.targets if isinstance(x, ast.Assign) else [x.target]
            for t in ts:
                assigned |= {n.id for n in ast.walk(t) if isinstance(n, ast.Name)}
    loop_names = {n.id for n in ast.walk(loop.target) if isinstance(n, ast.Name)}
    PathCount.stable = frozenset((loop_names | params) - assigned)
    for st in outside:
        if pc.touches(st):
            raise core.AnalysisError("add_reactions modifies a tracked list outside the reaction loop")
    if any(isinstance(x, ast.Break) for x in pf.walk_no_nested(loop)) or loop.orelse:
        pass  # a break ends the iteration like continue; handled as an end state
    fall, ends = pc.block(loop.body, {frozenset(pc.zero().items()): []})
    allst = dict(fall)
    allst.update(ends)
    if not allst:
        raise core.AnalysisError("add_reactions: no non-raising path through the reaction loop")
    chk.count("non-raising abstract paths of one reaction", len(allst))
    seen_p = set()
    for st, msg in pc.problems:
        if (st.lineno, msg) in seen_p:
            continue
        seen_p.add((st.lineno, msg))
        chk.violation("row-once", TR, cname + ".add_reactions", pf.src(st).split("\n")[0], st.lineno, msg,
                      instance="%s: %s" % (cname, pf.src(st).split("\n")[0][:60]))
    for key in sorted(pc.zero()):
        label = key if key.startswith("self.") else "rxn rows of %s (.%s)" % tuple(key.split(":"))
        inst = "%s.add_reactions: exactly one append to %s per reaction" % (cname, label)
        bad = [(dict(fs)[key], trail) for fs, trail in allst.items() if dict(fs)[key] != 1]
        # (keys starting with "?" are path facts, not counters)
        if not bad:
            chk.ok("row-once", inst, detail="%d abstract path(s)" % len(allst))
        else:
            c, trail = bad[0]
            chk.violation("row-once", TR, cname + ".add_reactions", label, loop.lineno,
                          "a non-raising path of one reaction (%s) makes %d append(s) to %s instead of exactly one: "
                          "the per-reaction lists get different lengths / rows of different reactions are paired in fit"
                          % (" and ".join(trail) or "straight line", c, label), instance=inst)


# ----------------------------------------------------------------------------
# rule 3: shape of the system in fit
# ----------------------------------------------------------------------------
def top_assigns(fn):
    """(stmt, conditional?) for every assignment statement in source order"""
    out = []
    for x in pf.walk_no_nested(fn):
        if isinstance(x, (ast.Assign, ast.AugAssign)):
            cond = pf.enclosing(x, (ast.If, ast.For, ast.While)) is not None
            out.append((x, cond))
    out.sort(key=lambda p: (p[0].lineno, p[0].col_offset))
    return out


MODULE_CONSTS = {}


def small_literal(e):
    try:
        v = pf.literal(e, MODULE_CONSTS)
    except pf.NotLiteral:
        return None
    if isinstance(v, (int, float)) and not isinstance(v, bool):
        return v
    return None


def rule_fit(chk, gp):
    fit = gp.method("fit")
    cname = gp.cls.name
    where = cname + ".fit"
    kloops = [x for x in pf.walk_no_nested(fit) if isinstance(x, ast.For) and gp.kernel_iter(x.iter)]
    stack_loops = []
    for lp in kloops:
        v = loop_var(lp)
        for x in pf.walk_no_nested(lp):
            if isinstance(x, ast.Attribute) and x.attr == "rxn_cov_list" and isinstance(x.value, ast.Name):
                if x.value.id != v:
                    chk.violation("fit-system", TR, where, pf.src(x), x.lineno,
                                  "the covariance rows are read from %s, not from the kernel of this iteration (%s)"
                                  % (pf.src(x), v), instance="%s reads %s" % (where, pf.src(x)))
                elif lp not in stack_loops:
                    stack_loops.append(lp)
    if len(stack_loops) != 1:
        raise core.AnalysisError("fit: expected exactly one kernel loop reading rxn_cov_list, found %d" % len(stack_loops))
    lp = stack_loops[0]
    kv = loop_var(lp)
    inst = "%s: covariance loop covers every kernel" % where
    if gp.covers_all(gp.kernel_iter(lp.iter)):
        chk.ok("fit-system", inst)
    else:
        chk.violation("fit-system", TR, where, pf.src(lp).split("\n")[0], lp.lineno,
                      "fit stacks rxn_cov_list only for %s; the documented covariance is the sum over all kernels"
                      % pf.src(lp.iter), instance=inst)
    # accumulation with += of a product involving this kernel's stacked rows
    stacked = set()
    for x in pf.walk_no_nested(lp):
        if isinstance(x, ast.Assign) and len(x.targets) == 1 and isinstance(x.targets[0], ast.Name) \
                and any(isinstance(y, ast.Attribute) and y.attr == "rxn_cov_list" for y in ast.walk(x.value)):
            stacked.add(x.targets[0].id)
    pre = {t.id for st in fit.body if isinstance(st, ast.Assign) and st.lineno < lp.lineno
           for t in st.targets if isinstance(t, ast.Name)}
    derived = set(stacked)
    changed = True
    while changed:
        changed = False
        for x in pf.walk_no_nested(lp):
            if isinstance(x, ast.Assign) and len(x.targets) == 1 and (pf_names(x.value) & derived):
                tnames = [t.id for t in ast.walk(x.targets[0]) if isinstance(t, ast.Name) and isinstance(t.ctx, ast.Store)]
                for tn in tnames:
                    if tn not in derived and tn not in pre:
                        derived.add(tn)
                        changed = True
    acc = None
    for x in pf.walk_no_nested(lp):
        if isinstance(x, (ast.AugAssign, ast.Assign)):
            t = x.target if isinstance(x, ast.AugAssign) else x.targets[0]
            root = pf.base_name(t)
            if root and root in pre and (pf_names(x.value) & derived):
                acc = (root, x)
    inst = "%s: reaction covariance accumulated over kernels with +=" % where
    if acc is None:
        raise core.AnalysisError("fit: accumulation of Kmn.T K^-1 Kmn over the kernel loop not found")
    cov_name, acc_st = acc
    if isinstance(acc_st, ast.AugAssign) and isinstance(acc_st.op, ast.Add):
        chk.ok("fit-system", inst)
    else:
        chk.violation("fit-system", TR, where, pf.src(acc_st), acc_st.lineno,
                      "%s is overwritten in each iteration of the kernel loop instead of accumulated: only the last "
                      "kernel's covariance enters the system" % cov_name, instance=inst)
    # the accumulator itself is only ever *added to* inside the loop: a scale applied to the running sum is applied
    # once more to every earlier kernel's contribution (scaling belongs to the term, or after the loop)
    inst = "%s: the running sum %s is not rescaled or overwritten inside the kernel loop" % (where, cov_name)
    bad_acc = []
    for x in pf.walk_no_nested(lp):
        if x is acc_st or not isinstance(x, (ast.AugAssign, ast.Assign)):
            continue
        for t in ([x.target] if isinstance(x, ast.AugAssign) else x.targets):
            if pf.base_name(t) == cov_name and not isinstance(t, ast.Attribute):
                if isinstance(x, ast.AugAssign) and isinstance(x.op, (ast.Add, ast.Sub)) and cov_name not in pf_names(x.value):
                    continue  # a second additive contribution is still an accumulation
                bad_acc.append(x)
    if not bad_acc:
        chk.ok("fit-system", inst)
    for x in bad_acc:
        chk.violation("fit-system", TR, where, pf.src(x), x.lineno,
                      "`%s` modifies the accumulator %s inside the loop that accumulates it over the kernels (`%s`): "
                      "after kernel j the running sum already holds kernels 1..j, so they are rescaled again in every "
                      "later iteration (kernel j ends up scaled nk-j+1 times); scale the term, or the sum after the loop"
                      % (pf.src(x), cov_name, pf.src(acc_st)), instance=inst)
    # per-kernel solve list appended once per kernel, consumed in the same order
    lists = [gr for x in pf.walk_no_nested(lp) for gr in [growth_local(x)] if gr]
    inst = "%s: per-kernel K^-1 Kmn stored once per kernel and consumed in kernel order" % where
    okl = False

    def seq_of(loop):
        it = loop.iter
        if isinstance(it, ast.Call) and pf.call_name(it) == "enumerate" and it.args:
            it = it.args[0]
        while isinstance(it, ast.Call) and pf.call_name(it) in ("list", "tuple") and len(it.args) == 1:
            it = it.args[0]
        return pf.src(it)
    mispaired = None
    for lname, call in lists:
        for lp2 in kloops:
            if lp2 is lp:
                continue
            if gp.covers_all(gp.kernel_iter(lp2.iter)) and isinstance(lp2.iter, ast.Call) and isinstance(lp2.target, ast.Tuple):
                ivar = lp2.target.elts[0].id if isinstance(lp2.target.elts[0], ast.Name) else None
                kv2 = loop_var(lp2)
                for x in pf.walk_no_nested(lp2):
                    if isinstance(x, ast.Assign) and isinstance(x.targets[0], ast.Attribute) \
                            and x.targets[0].attr == "alpha" and pf.src(x.targets[0].value) == kv2:
                        subs = [y for y in ast.walk(x.value) if isinstance(y, ast.Subscript)
                                and pf.src(y.value) == lname and pf.src(y.slice) == ivar]
                        if subs:
                            okl = True
                            if seq_of(lp) != seq_of(lp2):
                                mispaired = (lname, lp2, x)
    if mispaired is not None:
        lname, lp2, x = mispaired
        chk.violation("fit-system", TR, where, "positional pairing of %s" % lname, x.lineno,
                      "%s is filled while iterating `%s` but consumed by position (`%s`) while iterating `%s`: entry i "
                      "belongs to the i-th kernel of the first sequence, which is a different kernel whenever the two "
                      "orders differ (e.g. a correlation kernel listed before an exchange kernel) -- the weights go to "
                      "the wrong kernels" % (lname, seq_of(lp), pf.src(x)[:60], seq_of(lp2)), instance=inst)
    elif okl and len([1 for l, c in lists]) >= 1 and _once_in_block(lp, [c for l, c in lists]):
        chk.ok("fit-system", inst)
    else:
        chk.violation("fit-system", TR, where, "kernel.alpha assignment", lp.lineno,
                      "kernel.alpha is not computed from the list entry stored for the same kernel "
                      "(for ik, kernel in enumerate(self.kernels): ... LIST[ik] ...)", instance=inst)
    # labels
    refs = [x for x in pf.walk_no_nested(fit) if pf.is_self_attr(x, "rxn_ref_list") and isinstance(x.ctx, ast.Load)]
    inst = "%s: right-hand side of the final solve is rxn_ref_list" % where
    if not refs:
        chk.violation("fit-system", TR, where, "no read of self.rxn_ref_list", fit.lineno,
                      "fit never reads self.rxn_ref_list: the system is not solved against the stored labels",
                      instance=inst)
        refs = None
    elif len(refs) != 1:
        raise core.AnalysisError("fit reads self.rxn_ref_list %d times" % len(refs))
    if refs:
        _labels(chk, fit, refs[0], where, inst)
    _noise_and_jitter(chk, gp, fit, where, cov_name)


def _labels(chk, fit, ref, where, inst):
    ref_st = ref
    while not isinstance(ref_st, ast.stmt):
        ref_st = pf.parent(ref_st)
    yname = ref_st.targets[0].id if isinstance(ref_st, ast.Assign) and isinstance(ref_st.targets[0], ast.Name) else None
    solves = [x for x in pf.walk_no_nested(fit) if isinstance(x, ast.Call) and (pf.call_name(x) or "").split(".")[-1]
              in ("cho_solve", "solve") and pf.enclosing(x, (ast.For,)) is None]
    if yname is None or not solves:
        raise core.AnalysisError("fit: label vector / final solve not found")
    final = solves[-1]
    if pf.enclosing(ref_st, (ast.For,)) is None and len(final.args) >= 2 and pf.src(final.args[1]) == yname \
            and not _reassigned_between(fit, yname, ref_st, final):
        chk.ok("fit-system", inst)
    else:
        chk.violation("fit-system", TR, where, pf.src(final), final.lineno,
                      "the final solve is not taken against np.array(self.rxn_ref_list)", instance=inst)


def _noise_and_jitter(chk, gp, fit, where, cov_name):
    # noise: std squared exactly once, on the diagonal of the solved matrix
    nrefs = [x for x in pf.walk_no_nested(fit) if pf.is_self_attr(x, "rxn_noise_list") and isinstance(x.ctx, ast.Load)]
    if len(nrefs) != 1:
        raise core.AnalysisError("fit reads self.rxn_noise_list %d times" % len(nrefs))
    power = {}
    notes = []
    for st, cond in top_assigns(fit):
        if isinstance(st, ast.Assign) and len(st.targets) == 1 and isinstance(st.targets[0], ast.Name):
            p = noise_power(st.value, power)
            nm = st.targets[0].id
            if p is not None:
                if cond and power.get(nm) != p:
                    notes.append((st, "conditional assignment changes the power of the noise in %s" % nm))
                power[nm] = p
            elif nm in power and not cond:
                del power[nm]
        elif isinstance(st, ast.AugAssign):
            root = pf.base_name(st.target)
            if root in power:
                p = noise_power(st.value, power)
                if isinstance(st.op, ast.Pow):
                    e = small_literal(st.value)
                    if e is None:
                        raise core.AnalysisError("noise raised to a non-literal power")
                    newp = power[root] * e
                    if cond:
                        notes.append((st, "conditional power change of %s" % root))
                    power[root] = newp
                elif isinstance(st.op, ast.Mult) and p:
                    notes.append((st, "%s is multiplied by another noise-derived quantity" % root))
    diags = [x for x in pf.walk_no_nested(fit) if isinstance(x, ast.Call) and pf.call_name(x) in ("np.diag", "numpy.diag")
             and x.args and (pf_names(x.args[0]) & set(power))]
    inst = "%s: system matrix = covariance + diag(noise ** 2)" % where
    fchol = [x for x in pf.walk_no_nested(fit) if isinstance(x, ast.Call) and (pf.call_name(x) or "").split(".")[-1] == "cholesky"
             and pf.enclosing(x, (ast.For,)) is None]
    if not fchol:
        raise core.AnalysisError("fit: final cholesky not found")
    kname = pf.base_name(fchol[-1].args[0]) if fchol[-1].args else None
    kdef = [st for st, c in top_assigns(fit) if isinstance(st, ast.Assign) and isinstance(st.targets[0], ast.Name)
            and st.targets[0].id == kname]
    if not diags:
        chk.violation("fit-system", TR, where, "no diag(noise)", fit.lineno,
                      "no np.diag(<noise>) term derived from self.rxn_noise_list enters the system matrix", instance=inst)
    else:
        d = diags[0]
        p = noise_power(d.args[0], power)
        terms = set()
        if kdef:
            terms = _sum_terms(kdef[-1].value)
        has_cov = any(pf.base_name(t) == cov_name for t in terms)
        has_diag = any(t is d for t in terms)
        for st, msg in notes:
            chk.violation("fit-system", TR, where, pf.src(st), st.lineno, msg, instance="%s: %s" % (where, pf.src(st)[:50]))
        if p != 2:
            chk.violation("fit-system", TR, where, pf.src(d), d.lineno,
                          "the noise standard deviations of rxn_noise_list enter the diagonal with power %s; the "
                          "documented Sigma_noise is diag(sigma_i ** 2)" % p, instance=inst)
        elif not (has_cov and has_diag):
            chk.violation("fit-system", TR, where, pf.src(kdef[-1]) if kdef else "K", d.lineno,
                          "the matrix factorised for the final solve (%s) is not <accumulated covariance %s> + "
                          "np.diag(noise ** 2)" % (kname, cov_name), instance=inst)
        else:
            chk.ok("fit-system", inst)
    # jitter terms
    eps_attr = None
    n_j = 0
    for x in pf.walk_no_nested(fit):
        if isinstance(x, ast.BinOp) and isinstance(x.op, ast.Mult):
            for a, b in ((x.left, x.right), (x.right, x.left)):
                if isinstance(b, ast.Call) and pf.call_name(b) in ("np.identity", "np.eye", "numpy.identity", "numpy.eye"):
                    n_j += 1
                    inst = "%s: regulariser %s" % (where, pf.src(x))
                    coef = a
                    if isinstance(coef, ast.Name):
                        ds = [st.value for st, c in top_assigns(fit) if isinstance(st, ast.Assign)
                              and isinstance(st.targets[0], ast.Name) and st.targets[0].id == coef.id]
                        if len(ds) == 1:
                            coef = ds[0]
                    lit = small_literal(coef)
                    if pf.is_self_attr(coef):
                        if eps_attr is None:
                            eps_attr = coef.attr
                        val = _attr_literal(gp, coef.attr)
                        if val is None or not (0 <= val <= 1e-6):
                            chk.violation("fit-system", TR, where, pf.src(x), x.lineno,
                                          "the diagonal regulariser self.%s is not a literal <= 1e-6 set in __init__ "
                                          "(found %r): it changes the solved system beyond numerical noise"
                                          % (coef.attr, val), instance=inst)
                        elif coef.attr != eps_attr:
                            chk.violation("fit-system", TR, where, pf.src(x), x.lineno,
                                          "two different regulariser attributes (self.%s, self.%s) in one fit"
                                          % (eps_attr, coef.attr), instance=inst)
                        else:
                            chk.ok("fit-system", inst + " = %g" % val)
                    elif lit is not None and 0 <= lit <= 1e-6:
                        chk.ok("fit-system", inst)
                    else:
                        chk.violation("fit-system", TR, where, pf.src(x), x.lineno,
                                      "identity term with coefficient %s is not a small numerical regulariser: the "
                                      "solved matrix is not K + Sigma_noise" % pf.src(a), instance=inst)
    chk.count("identity regularisers in fit", n_j)


def pf_names(e):
    return {x.id for x in ast.walk(e) if isinstance(x, ast.Name)}


def growth_local(call):
    if isinstance(call, ast.Call) and isinstance(call.func, ast.Attribute) and call.func.attr == "append" \
            and isinstance(call.func.value, ast.Name):
        return call.func.value.id, call
    return None


def _once_in_block(loop, calls):
    """each call is a top-level statement of the loop body (exactly once per iteration)"""
    for c in calls:
        st = c
        while not isinstance(st, ast.stmt):
            st = pf.parent(st)
        if pf.parent(st) is not loop:
            return False
    return True


def _defined_before(fn, name, node):
    for x in pf.walk_no_nested(fn):
        if isinstance(x, ast.Assign) and any(isinstance(t, ast.Name) and t.id == name for t in x.targets) \
                and x.lineno < node.lineno:
            return True
    return False


def _reassigned_between(fn, name, a, b):
    for x in pf.walk_no_nested(fn):
        if isinstance(x, (ast.Assign, ast.AugAssign)) and a.lineno < x.lineno < b.lineno:
            ts = x.targets if isinstance(x, ast.Assign) else [x.target]
            if any(pf.base_name(t) == name for t in ts):
                return True
    return False


def _sum_terms(e):
    if isinstance(e, ast.BinOp) and isinstance(e.op, ast.Add):
        return _sum_terms(e.left) | _sum_terms(e.right)
    return {e}


def noise_power(e, power):
    """power with which the noise std enters expression e (None = not noise-derived)"""
    if pf.is_self_attr(e, "rxn_noise_list"):
        return 1
    if isinstance(e, ast.Name):
        return power.get(e.id)
    if isinstance(e, ast.Call):
        cn = pf.call_name(e) or ""
        if cn.split(".")[-1] in ("array", "asarray", "copy", "abs", "diag", "ascontiguousarray") and e.args:
            return noise_power(e.args[0], power)
        if cn.split(".")[-1] == "square" and e.args:
            p = noise_power(e.args[0], power)
            return None if p is None else 2 * p
        if cn.split(".")[-1] == "sqrt" and e.args:
            p = noise_power(e.args[0], power)
            return None if p is None else p / 2
        if isinstance(e.func, ast.Attribute) and e.func.attr == "copy":
            return noise_power(e.func.value, power)
        return None
    if isinstance(e, ast.Subscript):
        return noise_power(e.value, power)
    if isinstance(e, ast.BinOp):
        if isinstance(e.op, ast.Pow):
            p = noise_power(e.left, power)
            ex = small_literal(e.right)
            if p is None:
                return None
            if ex is None:
                raise core.AnalysisError("noise raised to a non-literal power: %s" % pf.src(e))
            return p * ex
        if isinstance(e.op, ast.Mult):
            a, b = noise_power(e.left, power), noise_power(e.right, power)
            if a is None:
                return b
            if b is None:
                return a
            return a + b
        if isinstance(e.op, ast.Div):
            a, b = noise_power(e.left, power), noise_power(e.right, power)
            if b is None:
                return a
            return (a or 0) - b
        if isinstance(e.op, (ast.Add, ast.Sub)):
            a, b = noise_power(e.left, power), noise_power(e.right, power)
            return a if a is not None else b
    return None


def _attr_literal(gp, attr):
    vals = []
    for m, c in gp.prog.mro(gp.mod, gp.cls):
        for fn in pf.methods(c).values():
            for x in pf.walk_no_nested(fn):
                if isinstance(x, ast.Assign) and any(pf.is_self_attr(t, attr) for t in x.targets):
                    vals.append(small_literal(x.value))
    if len(vals) >= 1 and all(v is not None for v in vals) and len(set(vals)) == 1:
        return vals[0]
    return None



# ----------------------------------------------------------------------------
# memo without invalidation (stale K_mm and friends)
# ----------------------------------------------------------------------------
XE = "ciderpress/dft/xc_evaluator.py"
XE2 = "ciderpress/dft/xc_evaluator2.py"


def _self_stores(fn):
    """[(stmt, attr)] for stores into self.<attr> (assignment, augmented assignment, element store, del)"""
    out = []
    for st in pf.walk_no_nested(fn):
        ts = []
        if isinstance(st, ast.Assign):
            for t in st.targets:
                ts += list(t.elts) if isinstance(t, (ast.Tuple, ast.List)) else [t]
        elif isinstance(st, (ast.AugAssign, ast.AnnAssign)):
            ts = [st.target]
        elif isinstance(st, ast.Delete):
            ts = st.targets
        for t in ts:
            while isinstance(t, ast.Subscript):
                t = t.value
            if pf.is_self_attr(t):
                out.append((st, t.attr))
    return out


def _attr_loads(prog, mod, cls, fn, depth=2, _seen=None):
    """self attributes read by fn, through self.method()/property of the MRO (bounded depth)"""
    _seen = _seen if _seen is not None else set()
    out = set()
    if id(fn) in _seen:
        return out
    _seen.add(id(fn))
    for n in pf.walk_no_nested(fn):
        if pf.is_self_attr(n) and isinstance(n.ctx, ast.Load):
            r = prog.find_method(mod, cls, n.attr)
            if r is not None:
                if depth > 0:
                    out |= _attr_loads(prog, mod, cls, r[2], depth - 1, _seen)
            else:
                out.add(n.attr)
    return out


def rule_memo(chk, prog):
    targets = [(DK, "DFTKernel"), (DK, "DFTKernel2"), (TR, "MOLGP"), (TR, "MOLGP2")]
    for rel, cname in targets:
        mod = prog.module(rel)
        cls = mod.cls(cname)
        mro = prog.mro(mod, cls)
        meths = {}
        for m, c in mro:
            for name, fn in pf.methods(c).items():
                meths.setdefault(name, (m, c, fn))
        data_attrs = set()
        for name, (m, c, fn) in meths.items():
            data_attrs |= {a for _, a in _self_stores(fn)}
        for name, (m, c, fn) in sorted(meths.items()):
            stores = [(st, a) for st, a in _self_stores(fn) if not isinstance(st, ast.Delete)]
            assigned = {a for _, a in stores}
            if not assigned or name == "__init__":
                continue
            g = None
            for a in sorted(assigned):
                served = [n for n in pf.walk_no_nested(fn) if isinstance(n, ast.Return) and pf.is_self_attr(n.value, a)]
                if not served:
                    continue
                g = g or cfgm.CFG(fn)
                a_nodes = {g.node_of(st).id for st, aa in stores if aa == a and g.node_of(st) is not None}

                def is_assign(n, a_nodes=a_nodes):
                    return n.id in a_nodes
                memo_sites = []
                for r in served:
                    okp, wit = g.must_pass(is_assign, src=g.entry.id, dst=g.node_of(r).id)
                    if not okp:
                        memo_sites.append(r)
                where = "%s.%s" % (cname, name)
                if not memo_sites:
                    chk.ok("memo-invalidate", "%s: self.%s is recomputed on every path before it is served (no memo)" % (where, a))
                    continue
                inputs = (_attr_loads(prog, mod, cls, fn) & data_attrs) - {a}
                n_w = 0
                for wname, (wm, wc, wfn) in sorted(meths.items()):
                    if wfn is fn or wname == "__init__":
                        continue
                    wst = _self_stores(wfn)
                    hit = [(st, b) for st, b in wst if b in inputs]
                    if not hit:
                        continue
                    n_w += 1
                    wg = cfgm.CFG(wfn)
                    resets = {wg.node_of(st).id for st, b in wst if b == a and wg.node_of(st) is not None}
                    recompute = {wg.stmt_of_expr(x).id for x in pf.walk_no_nested(wfn)
                                 if isinstance(x, ast.Call) and pf.src(x.func) == "self.%s" % name and wg.stmt_of_expr(x)}

                    def is_reset(n, resets=resets, recompute=recompute):
                        return n.id in resets or n.id in recompute
                    for st, b in hit:
                        nd = wg.node_of(st)
                        inst = "%s: %s.%s writes self.%s, an input of the memo self.%s" % (where, cname, wname, b, a)
                        if nd is None:
                            raise core.AnalysisError("%s: store to self.%s is not a CFG statement" % (wname, b))
                        okp = wg.must_pass(is_reset, src=nd.id)[0] or wg.must_pass(is_reset, src=wg.entry.id, dst=nd.id)[0]
                        if okp:
                            chk.ok("memo-invalidate", inst + " and invalidates it")
                        else:
                            chk.violation(
                                "memo-invalidate", wm.rel, "%s.%s" % (wc.name, wname), pf.src(st), st.lineno,
                                "%s serves the cached self.%s (`%s`) computed from self.%s; %s changes self.%s but "
                                "neither resets self.%s nor recomputes it: the next %s() returns the value of the "
                                "previous %s (fit then pairs a stale K_mm with fresh K_mn)"
                                % (where, a, pf.src(memo_sites[0]).split("\n")[0][:70], ", self.".join(sorted(inputs)),
                                   wname, b, a, name, b), instance=inst)
                # writers outside the class (train.py setting attributes of kernel objects)
                for orel in (TR, DK):
                    omod = prog.module(orel)
                    for n in ast.walk(omod.ast):
                        if isinstance(n, ast.Assign):
                            for t in n.targets:
                                if isinstance(t, ast.Attribute) and t.attr in inputs and isinstance(t.value, ast.Name) \
                                        and t.value.id not in ("self",) and rel == DK:
                                    fn2 = pf.enclosing_func(n)
                                    body = pf.src(fn2) if fn2 else ""
                                    inst = "%s: external store %s" % (where, pf.src(t))
                                    if "%s.%s = " % (t.value.id, a) in body or "%s.%s(" % (t.value.id, name) in body:
                                        chk.ok("memo-invalidate", inst + " followed by a reset")
                                    else:
                                        chk.violation("memo-invalidate", orel, pf.qualname(fn2) if fn2 else "<module>",
                                                      pf.src(n), n.lineno,
                                                      "writes %s, an input of the memo %s.%s, without resetting it"
                                                      % (pf.src(t), cname, a), instance=inst)
                chk.ok("memo-invalidate", "%s: memo self.%s over inputs {%s}: %d writer method(s) examined"
                       % (where, a, ", ".join(sorted(inputs)), n_w), nontrivial=False)


# ----------------------------------------------------------------------------
# sibling loops over the systems of one reaction iterate the same (structs, counts) pairing
# ----------------------------------------------------------------------------
LOSSY = {"dict", "set", "frozenset", "collections.OrderedDict", "OrderedDict", "Counter", "collections.Counter"}
NEUTRAL = {"list", "tuple", "iter"}


def _inline(e, env, depth=4):
    """copy of e with single-assignment locals replaced by their definitions"""
    class T(ast.NodeTransformer):
        def visit_Name(self, n):
            if isinstance(n.ctx, ast.Load) and n.id in env and depth > 0:
                return _inline(env[n.id], env, depth - 1)
            return n
    import copy
    return T().visit(_ast_clone(e))


def _strip_neutral(e):
    while isinstance(e, ast.Call) and pf.call_name(e) in NEUTRAL and len(e.args) == 1 and not e.keywords:
        e = e.args[0]
    return e


def rule_pairing(chk, gp):
    add = gp.method("add_reactions")
    cname = gp.cls.name
    params = {a.arg for a in add.args.args}
    loops = [st for st in add.body if isinstance(st, ast.For) and isinstance(st.iter, ast.Name) and st.iter.id in params]
    if len(loops) != 1:
        raise core.AnalysisError("add_reactions: the reaction loop was not found")
    loop = loops[0]
    rvars = {n.id for n in ast.walk(loop.target) if isinstance(n, ast.Name)}
    # single-assignment locals of the loop body
    counts = {}
    for x in pf.walk_no_nested(loop):
        if isinstance(x, ast.Assign):
            for t in x.targets:
                if isinstance(t, ast.Name):
                    counts.setdefault(t.id, []).append(x.value)
        elif isinstance(x, (ast.AugAssign, ast.For)):
            for n in ast.walk(x.target):
                if isinstance(n, ast.Name):
                    counts.setdefault(n.id, []).append(None)
    env = {k: v[0] for k, v in counts.items() if len(v) == 1 and v[0] is not None}
    def through_helpers(e):
        """`self.h(args)` -> the expression h returns (single trailing return), parameters substituted"""
        class T(ast.NodeTransformer):
            def visit_Call(self, n):
                self.generic_visit(n)
                if isinstance(n.func, ast.Attribute) and isinstance(n.func.value, ast.Name) and n.func.value.id == "self":
                    r = gp.prog.find_method(gp.mod, gp.cls, n.func.attr)
                    if r is not None:
                        h = getattr(gp.mod, "orig", gp.mod)
                        hf = r[2]
                        rets = [y for y in pf.walk_no_nested(hf) if isinstance(y, ast.Return)]
                        if len(rets) == 1 and rets[0] is hf.body[-1] and rets[0].value is not None:
                            ps = [a.arg for a in hf.args.args if a.arg not in ("self", "cls")]
                            sub = dict(zip(ps, n.args))
                            sub.update({k.arg: k.value for k in n.keywords if k.arg})
                            return _inline(rets[0].value, sub, 1)
                return n
        import copy
        return T().visit(copy.deepcopy(e)) if e is not None else e
    for k_ in list(env):
        env[k_] = through_helpers(env[k_])
    sys_loops = []
    oneshot_names = {}
    for st in pf.walk_no_nested(loop):
        if isinstance(st, ast.Assign) and len(st.targets) == 1 and isinstance(st.targets[0], ast.Name):
            v = through_helpers(st.value)
            if isinstance(v, ast.Call) and pf.call_name(v) in ("zip", "map", "filter", "iter", "enumerate", "reversed"):
                oneshot_names.setdefault(st.targets[0].id, v)
    for x in pf.walk_no_nested(loop):
        if x is loop or not isinstance(x, ast.For):
            continue
        if isinstance(x.iter, ast.Name) and x.iter.id in oneshot_names:
            # where was the iterator created, and is this loop inside another loop that does not enclose the creation?
            creation = [st for st in pf.walk_no_nested(loop) if isinstance(st, ast.Assign) and st.lineno < x.lineno
                        and any(isinstance(t, ast.Name) and t.id == x.iter.id for t in st.targets)]
            creation = sorted(creation, key=lambda c_: c_.lineno)[-1:]
            outer = pf.enclosing(x, (ast.For,))
            while outer is not None and outer is not loop and creation:
                if not any(c is y for c in creation for y in ast.walk(outer)):
                    chk.violation("pairing", TR, cname + ".add_reactions", "one-shot iterator %s" % x.iter.id, x.lineno,
                                  "`%s` is a one-shot %s iterator created once (`%s`) and consumed by `for %s in %s` inside "
                                  "`for %s in %s`: the first pass of the outer loop exhausts it, every later pass (the "
                                  "second kernel of the component) sums over nothing"
                                  % (x.iter.id, pf.call_name(oneshot_names[x.iter.id]), pf.src(creation[0])[:60],
                                     pf.src(x.target), x.iter.id, pf.src(outer.target), pf.src(outer.iter)[:40]),
                                  instance="%s.add_reactions: iterator %s is not reused across iterations of an enclosing loop"
                                  % (cname, x.iter.id))
                    break
                outer = pf.enclosing(outer, (ast.For,))
        it = _strip_neutral(_inline(through_helpers(x.iter), env))
        names = {n.id for n in ast.walk(it) if isinstance(n, ast.Name)}
        subs = {n.slice.value for n in ast.walk(it) if isinstance(n, ast.Subscript) and isinstance(n.value, ast.Name)
                and n.value.id in rvars and isinstance(n.slice, ast.Constant)}
        if not (names & rvars) or not subs:
            continue  # not a loop over data of this reaction (e.g. the kernel loops)
        sys_loops.append((x, it, subs))
    if len(sys_loops) < 2:
        raise core.AnalysisError("add_reactions: fewer than two loops over the systems of a reaction")
    # siblings = loops that walk the system ids of the reaction: the most common key of the reaction dict
    # among these loops (today "structs") defines the family; every loop using it must iterate the same pairing
    freq = {}
    for x, it, subs in sys_loops:
        for k in subs:
            freq[k] = freq.get(k, 0) + 1
    idkey = sorted(freq.items(), key=lambda kv: (-kv[1], kv[0] != "structs", kv[0]))[0][0]
    by_keys = {}
    for x, it, subs in sys_loops:
        if idkey in subs:
            by_keys.setdefault(frozenset([idkey]), []).append((x, it))
    for keys, group in sorted(by_keys.items(), key=lambda kv: sorted(kv[0])):
        forms = {}
        for x, it in group:
            # role binding: loop target names -> zip arguments when the iterable is a plain zip
            if isinstance(it, ast.Call) and pf.call_name(it) == "zip" and isinstance(x.target, ast.Tuple) \
                    and len(x.target.elts) == len(it.args) and all(isinstance(e, ast.Name) for e in x.target.elts):
                form = "zip{%s}" % ", ".join(sorted(pf.src(a) for a in it.args))
            else:
                form = pf.src(it)
            forms.setdefault(form, []).append(x)
        major = max(forms.items(), key=lambda kv: (len(kv[1]), "zip{" in kv[0]))[0]
        tag = "%s.add_reactions: loops over %s of one reaction" % (cname, "/".join(sorted(keys)))
        lossy_forms = {}
        for form, xs in forms.items():
            if "zip{" in form:
                continue
            try:
                tr = ast.parse(form, mode="eval")
            except SyntaxError:
                continue
            hit = [pf.call_name(n) for n in ast.walk(tr) if isinstance(n, ast.Call) and pf.call_name(n) in LOSSY]
            if hit:
                lossy_forms[form] = (hit[0], xs)
        for form, (ctor, xs) in sorted(lossy_forms.items()):
            chk.violation("pairing", TR, cname + ".add_reactions", "stoichiometry through %s(...)" % ctor, xs[0].lineno,
                          "the (system, count) pairs of a reaction are collapsed into `%s` before they are summed (%d loop(s)): "
                          "a %s keeps ONE count per system id, so a reaction that lists the same system twice "
                          "([A, A, C] / [-1, -1, 1]) loses a term and differs from its merged form ([A, C] / [-2, 1])"
                          % (form[:90], len(xs), ctor), instance=tag + " :: multiset kept")
        if lossy_forms and len(forms) == len(lossy_forms):
            continue
        if len(forms) == 1:
            chk.ok("pairing", tag + " all iterate %s (%d loops)" % (major, len(group)))
            continue
        for form, xs in sorted(forms.items()):
            if form == major:
                chk.ok("pairing", tag + ": %d loop(s) iterate %s" % (len(xs), form), nontrivial=False)
                continue
            lossy = [n for n in ast.walk(ast.parse(form.replace("zip{", "zip(").replace("}", ")").replace("<-", "=="), mode="eval"))
                     if isinstance(n, ast.Call) and pf.call_name(n) in LOSSY] if "zip{" not in form else []
            for x in xs:
                chk.violation("pairing", TR, cname + ".add_reactions", "for %s in %s" % (pf.src(x.target), pf.src(x.iter)),
                              x.lineno,
                              "this loop assembles part of the label/covariance row of a reaction from `%s`, while the "
                              "%d sibling loops of the same reaction iterate `%s`%s: label, covariance row and "
                              "baselines are then sums over different (system, count) pairs"
                              % (form, len(forms[major]), major,
                                 " (a %s built from the pairs keeps one count per system id, so repeated ids collapse)"
                                 % pf.call_name(lossy[0]) if lossy else ""),
                              instance=tag + " :: " + form)


# ----------------------------------------------------------------------------
# snapshots stored on self before an in-place rescaling of their source
# ----------------------------------------------------------------------------
def rule_snapshot(chk, gp):
    fit = gp.method("fit")
    cname = gp.cls.name
    where = cname + ".fit"
    g = cfgm.CFG(fit)
    defs = {}
    for x in pf.walk_no_nested(fit):
        if isinstance(x, ast.Assign):
            for t in x.targets:
                for tt in (t.elts if isinstance(t, (ast.Tuple, ast.List)) else [t]):
                    if isinstance(tt, ast.Name):
                        defs.setdefault(tt.id, []).append(x.value)
        elif isinstance(x, ast.AugAssign) and isinstance(x.target, ast.Name):
            defs.setdefault(x.target.id, []).append(x.value)

    def sources(e):
        seen, todo = set(), [n.id for n in ast.walk(e) if isinstance(n, ast.Name)]
        while todo:
            nm = todo.pop()
            if nm in seen:
                continue
            seen.add(nm)
            for v in defs.get(nm, []):
                todo += [n.id for n in ast.walk(v) if isinstance(n, ast.Name)]
        return seen
    # in-place updates of local arrays
    updates = []
    for x in pf.walk_no_nested(fit):
        if isinstance(x, ast.AugAssign) and isinstance(x.target, ast.Subscript):
            r = pf.base_name(x.target)
            if r and r != "self":
                updates.append((x, r))
        elif isinstance(x, ast.Assign):
            for t in x.targets:
                if isinstance(t, ast.Subscript) and pf.base_name(t) not in (None, "self"):
                    updates.append((x, pf.base_name(t)))
    stores = [(st, a) for st, a in _self_stores(fit) if isinstance(st, ast.Assign)]
    info = {}
    for st, a in stores:
        src = sources(st.value)
        later = [(u, r) for u, r in updates if r in src and reaches_cfg(g, g.node_of(st).id, g.node_of(u).id)]
        earlier = [(u, r) for u, r in updates if r in src and reaches_cfg(g, g.node_of(u).id, g.node_of(st).id)]
        alias = isinstance(st.value, ast.Name)
        info[a] = (st, later, earlier, alias)
    readers = {}
    for m, c in gp.prog.mro(gp.mod, gp.cls):
        for name, fn in pf.methods(c).items():
            if fn is fit:
                continue
            readers.setdefault(name, {x.attr for x in ast.walk(fn) if pf.is_self_attr(x) and isinstance(x.ctx, ast.Load)})
    for a, (st, later, earlier, alias) in sorted(info.items()):
        inst = "%s: self.%s is stored after every in-place update of the arrays it is derived from" % (where, a)
        if not later or alias:
            chk.ok("fit-snapshot", inst, nontrivial=bool(earlier))
            continue
        u, r = later[0]
        blk = pf.enclosing(u, (ast.If,))
        # attributes stored after an update of the same rescaling block
        post = [b for b, (st2, l2, e2, al2) in info.items() if b != a and any(pf.enclosing(u2, (ast.If,)) is blk for u2, _ in e2)]
        co = sorted({name for name, rd in readers.items() if a in rd and any(b in rd for b in post)})
        if co:
            chk.violation("fit-snapshot", TR, where, pf.src(st), st.lineno,
                          "self.%s is a copy derived from `%s` taken BEFORE `%s` rescales it in place, while self.%s "
                          "are stored after that rescaling; %s() combines them as if they described the same "
                          "hyper-parameters, so after fit(x=...) the reported quantity no longer belongs to the "
                          "system that was solved" % (a, r, pf.src(u), "/self.".join(sorted(post)), ", ".join(co)),
                          instance=inst)
        else:
            chk.ok("fit-snapshot", inst + " (pre-update copy, never combined with post-update state)", nontrivial=False)
            chk.note("fit-snapshot", where, "self.%s keeps a copy of `%s` from before `%s`" % (a, r, pf.src(u)))


def reaches_cfg(g, a, b):
    seen, todo = set(), list(g.succ[a])
    while todo:
        u = todo.pop()
        if u in seen:
            continue
        seen.add(u)
        if u == b:
            return True
        todo.extend(g.succ[u])
    return False

# ----------------------------------------------------------------------------
# in-place accumulation into an alias of stored per-system state
# ----------------------------------------------------------------------------
def _stored_root(e):
    """<obj>.<attr>[k]...[k] -> attr name (a container stored on an object), else None"""
    n = 0
    while isinstance(e, ast.Subscript):
        e = e.value
        n += 1
    if n and isinstance(e, ast.Attribute):
        return e.attr
    return None


def _array_valued(prog, attr):
    """evidence from the stores `<obj>.<attr>[key] = v` in train.py: True when v (or its elements) is built from
    axis-reductions / einsum with an output index / array constructors, False when only from full reductions"""
    ev = set()
    mod = prog.module(TR)
    for fn in [f for c in mod.classes.values() for f in pf.methods(c).values()] + list(mod.functions.values()):
        for st in pf.walk_no_nested(fn):
            if isinstance(st, ast.Assign) and any(isinstance(t, ast.Subscript) and isinstance(t.value, ast.Attribute)
                                                  and t.value.attr == attr for t in st.targets):
                names = pf_names(st.value)
                vals = [st.value]
                for x in pf.walk_no_nested(fn):
                    if isinstance(x, (ast.Assign, ast.AugAssign)):
                        ts = x.targets if isinstance(x, ast.Assign) else [x.target]
                        if any(pf.base_name(t) in names for t in ts):
                            vals.append(x.value)
                for v in vals:
                    for c in ast.walk(v):
                        if isinstance(c, ast.Call):
                            last = (pf.call_name(c) or "").split(".")[-1]
                            if not last and isinstance(c.func, ast.Attribute):
                                last = c.func.attr
                            if any(k.arg == "axis" for k in c.keywords):
                                ev.add(True)
                            elif last == "einsum" and c.args and isinstance(c.args[0], ast.Constant) \
                                    and c.args[0].value.replace(" ", "").split("->")[-1] != "":
                                ev.add(True)
                            elif last in ("zeros", "empty", "ones", "array", "concatenate", "stack"):
                                ev.add(True)
                            elif last in ("sum", "dot") and not c.keywords:
                                ev.add(False)
    if True in ev:
        return True
    if ev == {False}:
        return False
    return None


def rule_stored_alias(chk, gp):
    add = gp.method("add_reactions")
    cname = gp.cls.name
    where = cname + ".add_reactions"
    g = cfgm.CFG(add)
    state_in = {g.entry.id: {}}
    work = [g.entry.id]

    def transfer(n, st):
        st = dict(st)
        node = n.ast
        if n.kind == "iter" and isinstance(node, ast.For):
            for t in ast.walk(node.target):
                if isinstance(t, ast.Name):
                    st.pop(t.id, None)
            return st
        if n.kind == "stmt" and isinstance(node, ast.Assign):
            for t in node.targets:
                if isinstance(t, ast.Name):
                    v = node.value
                    root = _stored_root(v)
                    if root:
                        st[t.id] = (root, pf.src(v))
                    elif isinstance(v, ast.Name) and v.id in st:
                        st[t.id] = st[v.id]
                    else:
                        st.pop(t.id, None)
                elif isinstance(t, (ast.Tuple, ast.List)):
                    for x in ast.walk(t):
                        if isinstance(x, ast.Name):
                            st.pop(x.id, None)
        return st
    while work:
        u = work.pop()
        so = transfer(g.nodes[u], state_in[u])
        for v in g.succ[u]:
            cur = state_in.get(v)
            new = dict(cur) if cur is not None else {}
            chg = cur is None
            for k, val in so.items():
                if k not in new:
                    new[k] = val
                    chg = True
            if chg:
                state_in[v] = new
                work.append(v)
    nacc, nbad = 0, 0
    seen = set()
    for n in g.nodes:
        if n.kind != "stmt" or n.id not in state_in:
            continue
        node = n.ast
        tgt = None
        if isinstance(node, ast.AugAssign):
            tgt = node.target
        elif isinstance(node, ast.Assign) and isinstance(node.targets[0], ast.Subscript):
            tgt = node.targets[0]
        if tgt is None or isinstance(tgt, ast.Attribute):
            continue
        root = pf.base_name(tgt)
        nacc += 1
        if root in state_in[n.id]:
            attr, srcx = state_in[n.id][root]
            arr = _array_valued(gp.prog, attr)
            key = (attr, pf.src(node).split("__")[0])
            if key in seen:
                continue
            seen.add(key)
            inst = "%s: an in-place update does not write into state stored in %s" % (where, attr)
            if arr is True:
                nbad += 1
                chk.violation("stored-alias", TR, where, "in-place update of an alias of %s" % attr, node.lineno,
                              "`%s`: `%s` can be the very object stored in %s (bound by `%s = %s` without a copy on "
                              "some path), and %s holds numpy arrays: the in-place update changes the per-system data "
                              "kept by store_mol_covs, so every later reaction that uses the same system (and a "
                              "reset_reactions/add_reactions replay) sees different covariances"
                              % (pf.src(node), root, attr, root, srcx, attr), instance=inst)
            else:
                chk.note("stored-alias", where, "`%s` updates an alias of %s in place; %s" % (
                    pf.src(node), attr, "its values are scalars (rebinding, harmless)" if arr is False
                    else "the kind of its values is not known"))
    if not nbad:
        chk.ok("stored-alias", "%s: %d in-place updates of locals examined, none writes through an alias of stored arrays"
               % (where, nacc))


# ----------------------------------------------------------------------------
# no state carried from one reaction to the next
# ----------------------------------------------------------------------------
def rule_loop_carried(chk, gp, appended):
    add = gp.method("add_reactions")
    cname = gp.cls.name
    where = cname + ".add_reactions"
    params = {a.arg for a in add.args.args}
    loops = [st for st in add.body if isinstance(st, ast.For) and isinstance(st.iter, ast.Name) and st.iter.id in params]
    if len(loops) != 1:
        raise core.AnalysisError("add_reactions: the reaction loop was not found")
    loop = loops[0]
    g = cfgm.CFG(add)
    head = g.node_of(loop)
    comp_targets = {n.id for c in ast.walk(loop) if isinstance(c, ast.comprehension) for n in ast.walk(c.target)
                    if isinstance(n, ast.Name)}
    # definitions inside the body: name -> CFG node ids
    defs = {}
    body_nodes = set()
    todo = [v for v in g.succ[head.id] if g.edge_label.get((head.id, v)) == "T"]
    while todo:
        u = todo.pop()
        if u in body_nodes or u == head.id:
            continue
        body_nodes.add(u)
        todo.extend(g.succ[u])
    for nid in body_nodes:
        n = g.nodes[nid]
        node = n.ast
        if node is None:
            continue
        tg = []
        if n.kind == "stmt" and isinstance(node, ast.Assign):
            tg = node.targets
        elif n.kind == "stmt" and isinstance(node, (ast.AugAssign, ast.AnnAssign)):
            tg = [node.target]
        elif n.kind == "iter":
            tg = [node.target]
        elif n.kind == "with":
            tg = [i.optional_vars for i in node.items if i.optional_vars is not None]
        for t in tg:
            for x in (ast.walk(t) if isinstance(t, (ast.Tuple, ast.List, ast.Name)) else []):
                if isinstance(x, ast.Name) and isinstance(x.ctx, ast.Store):
                    defs.setdefault(x.id, set()).add(nid)
    for nm in loop.target.elts if isinstance(loop.target, ast.Tuple) else [loop.target]:
        if isinstance(nm, ast.Name):
            defs.setdefault(nm.id, set()).add(head.id)
    # names that feed the rows stored for the reaction
    tracked = {k[1] for k in appended}
    feed, todo = set(), []
    for x in pf.walk_no_nested(loop):
        gr = growth(x)
        if gr and gr[1] in tracked:
            for a in x.args:
                todo += [n.id for n in ast.walk(a) if isinstance(n, ast.Name)]
    flow = {}
    for x in pf.walk_no_nested(loop):
        if isinstance(x, (ast.Assign, ast.AugAssign)):
            ts = x.targets if isinstance(x, ast.Assign) else [x.target]
            for t in ts:
                r = pf.base_name(t)
                if r:
                    flow.setdefault(r, set()).update(n.id for n in ast.walk(x.value) if isinstance(n, ast.Name))
                    # control dependence: the tests that decide whether this assignment runs
                    for tst, pol, kind in cfgm.conditions_at(x, stop=loop):
                        flow[r].update(n.id for n in ast.walk(tst) if isinstance(n, ast.Name))
    while todo:
        nm = todo.pop()
        if nm in feed:
            continue
        feed.add(nm)
        todo.extend(flow.get(nm, ()))
    start = [v for v in g.succ[head.id] if g.edge_label.get((head.id, v)) == "T"]
    for nm in sorted((set(defs) & feed) - comp_targets):
        dn = defs[nm]
        if head.id in dn:
            chk.ok("loop-carried", "%s: %s is bound by the reaction loop itself" % (where, nm), nontrivial=False)
            continue
        bad = None
        for nid in sorted(body_nodes):
            n = g.nodes[nid]
            reads = []
            for root in _node_exprs(n):
                for x in ast.walk(root):
                    if isinstance(x, ast.Name) and x.id == nm and isinstance(x.ctx, ast.Load):
                        reads.append(x)
            if isinstance(n.ast, ast.AugAssign) and n.kind == "stmt" and pf.base_name(n.ast.target) == nm \
                    and isinstance(n.ast.target, ast.Name):
                reads.append(n.ast.target)
            if not reads:
                continue
            # can the read be reached from the start of this iteration without a definition of nm?
            seen, work = set(), list(start)
            reach = False
            while work:
                u = work.pop()
                if u in seen or u == head.id or u not in body_nodes:
                    continue
                seen.add(u)
                if u == nid:
                    reach = True
                    break
                if u in dn:
                    continue
                work.extend(g.succ[u])
            if reach:
                bad = (n, reads[0])
                break
        inst = "%s: %s is (re)defined in every iteration before it is read" % (where, nm)
        if bad is None:
            chk.ok("loop-carried", inst)
        else:
            n, rd = bad
            pre = any(isinstance(x, ast.Assign) and any(isinstance(t, ast.Name) and t.id == nm for t in x.targets)
                      for x in add.body if x is not loop and getattr(x, "lineno", 0) < loop.lineno)
            chk.violation("loop-carried", TR, where, "local %s" % nm, getattr(n.ast, "lineno", loop.lineno),
                          "`%s` is assigned only conditionally inside one iteration of the reaction loop%s, yet it is "
                          "read (`%s`) on a path of the same iteration that does not assign it, and it feeds the "
                          "label / noise / covariance row stored for the reaction: a reaction that does not set it "
                          "inherits the value left behind by the previous reaction, so the result depends on the "
                          "order in which reactions are added"
                          % (nm, " (it is initialised once before the loop)" if pre else "",
                             pf.src(n.ast).split("\n")[0][:80]), instance=inst)


def _node_exprs(n):
    st = n.ast
    if st is None:
        return []
    if n.kind == "test":
        return [st.test]
    if n.kind == "iter":
        return [st.iter]
    if n.kind == "with":
        return [i.context_expr for i in st.items]
    if n.kind == "handler" or isinstance(st, ast.Try):
        return []
    if isinstance(st, ast.Assign):
        return [st.value] + [t for t in st.targets if not isinstance(t, ast.Name)]
    if isinstance(st, ast.AugAssign):
        return [st.value] + ([st.target] if not isinstance(st.target, ast.Name) else [])
    return [st]


# ----------------------------------------------------------------------------
# option keys of a caller-owned dict are not overwritten with derived values
# ----------------------------------------------------------------------------
def _caller_dicts(fn):
    """names bound to caller-owned objects: parameters and targets of loops over parameters"""
    params = {a.arg for a in fn.args.args + fn.args.kwonlyargs if a.arg not in ("self", "cls")}
    out = set(params)
    for x in pf.walk_no_nested(fn):
        if isinstance(x, ast.For) and pf_names(x.iter) & params:
            out |= {n.id for n in ast.walk(x.target) if isinstance(n, ast.Name)}
    return out


def rule_option_writeback(chk, gp):
    cname = gp.cls.name
    nst = 0
    seen_fn = set()
    for m, c in gp.prog.mro(gp.mod, gp.cls):
        if m.rel != TR:
            continue
        for mname, fn in pf.methods(c).items():
            if mname in seen_fn:
                continue
            seen_fn.add(mname)
            owned = _caller_dicts(fn)
            reads = {}
            for x in ast.walk(fn):
                if isinstance(x, ast.Subscript) and isinstance(x.ctx, ast.Load) and isinstance(x.value, ast.Name) \
                        and x.value.id in owned and isinstance(x.slice, ast.Constant):
                    reads.setdefault((x.value.id, x.slice.value), x)
                if isinstance(x, ast.Call) and isinstance(x.func, ast.Attribute) and x.func.attr in ("get", "pop", "setdefault") \
                        and isinstance(x.func.value, ast.Name) and x.func.value.id in owned and x.args \
                        and isinstance(x.args[0], ast.Constant):
                    reads.setdefault((x.func.value.id, x.args[0].value), x)
            local_defs = {}
            for x in pf.walk_no_nested(fn):
                if isinstance(x, (ast.Assign, ast.AugAssign)):
                    for t in (x.targets if isinstance(x, ast.Assign) else [x.target]):
                        if isinstance(t, ast.Name):
                            local_defs.setdefault(t.id, []).append(x.value)
            for st in pf.walk_no_nested(fn):
                if not isinstance(st, (ast.Assign, ast.AugAssign)):
                    continue
                for t in (st.targets if isinstance(st, ast.Assign) else [st.target]):
                    if isinstance(t, ast.Subscript) and isinstance(t.value, ast.Name) and t.value.id in owned \
                            and isinstance(t.slice, ast.Constant) and (t.value.id, t.slice.value) in reads:
                        nst += 1
                        d, k = t.value.id, t.slice.value
                        where = "%s.%s" % (c.name, mname)
                        inst = "%s: %s[%r], read as an input option, is only ever given a plain default" % (where, d, k)
                        v = st.value
                        plain = isinstance(st, ast.Assign) and (
                            small_literal(v) is not None or isinstance(v, ast.Constant)
                            or (isinstance(v, ast.Name) and v.id in MODULE_CONSTS) or pf.is_self_attr(v))
                        if plain:
                            chk.ok("option-writeback", inst)
                        else:
                            chk.violation("option-writeback", TR, where, "%s[%r] = <derived>" % (d, k), st.lineno,
                                          "`%s` stores a value computed in this call back under the key %r of the "
                                          "caller's dict, and the same key is read as an input option (`%s`): calling "
                                          "the method again with the same dict (reset_reactions(); add_reactions(...)) "
                                          "takes the derived value for the user's option and applies the remaining "
                                          "adjustments a second time"
                                          % (pf.src(st)[:80], k, pf.src(reads[(d, k)])[:40]), instance=inst)
    chk.count("stores into option keys of caller-owned dicts", nst)


# ----------------------------------------------------------------------------
# option present vs. option falsy: a numeric option (0 is a value) falls back to its default only when absent
# ----------------------------------------------------------------------------
def _opt_read(e, owned):
    """(dict, key) when `e` is `d[K]` / `d.get(K)` / `d.get(K, None)` on a caller-owned dict"""
    if isinstance(e, ast.Subscript) and isinstance(e.value, ast.Name) and e.value.id in owned \
            and isinstance(e.slice, ast.Constant):
        return (e.value.id, e.slice.value)
    if isinstance(e, ast.Call) and isinstance(e.func, ast.Attribute) and e.func.attr == "get" \
            and isinstance(e.func.value, ast.Name) and e.func.value.id in owned and e.args and not e.keywords \
            and isinstance(e.args[0], ast.Constant) \
            and (len(e.args) == 1 or (len(e.args) == 2 and isinstance(e.args[1], ast.Constant) and e.args[1].value is None)):
        return (e.func.value.id, e.args[0].value)
    return None


def _assigned_in(stmts, name=None, key=None):
    """targets (names, (dict, key) pairs) assigned anywhere in the statements"""
    names, keys = set(), set()
    for s in stmts:
        for x in ast.walk(s):
            if isinstance(x, (ast.Assign, ast.AugAssign, ast.AnnAssign)):
                tg = x.targets if isinstance(x, ast.Assign) else [x.target]
                for t in tg:
                    for tt in (t.elts if isinstance(t, (ast.Tuple, ast.List)) else [t]):
                        if isinstance(tt, ast.Name):
                            names.add(tt.id)
                        elif isinstance(tt, ast.Subscript) and isinstance(tt.value, ast.Name) and isinstance(tt.slice, ast.Constant):
                            keys.add((tt.value.id, tt.slice.value))
    return names, keys


def _block_of(st):
    par = pf.parent(st)
    for fld in ("body", "orelse", "finalbody"):
        b = getattr(par, fld, None)
        if isinstance(b, list) and any(s is st for s in b):
            return b
    return None


def _stmt_of(x):
    while x is not None and not isinstance(x, ast.stmt):
        x = pf.parent(x)
    return x


def rule_option_default(chk, gp):
    """A test that decides between an option of a caller-owned dict and the default for the same quantity must be a
    presence test (`is None`, `is not None`, `in`): a truthiness test hands the default to an explicit 0."""
    n_inst = 0
    seen_fn = set()
    for m, c in gp.prog.mro(gp.mod, gp.cls):
        if m.rel != TR:
            continue
        for mname, fn in pf.methods(c).items():
            if mname in seen_fn:
                continue
            seen_fn.add(mname)
            owned = _caller_dicts(fn)
            where = "%s.%s" % (c.name, mname)
            # aliases: `v = d.get(K)`; a later load of v in the same block (no assignment of v in between) is the option
            alias_defs = {}
            for st in pf.walk_no_nested(fn):
                if isinstance(st, ast.Assign) and len(st.targets) == 1 and isinstance(st.targets[0], ast.Name):
                    o = _opt_read(st.value, owned)
                    if o is not None:
                        alias_defs.setdefault(st.targets[0].id, []).append((st, o))

            def option_of(e):
                o = _opt_read(e, owned)
                if o is not None:
                    return o, None
                if isinstance(e, ast.Name) and e.id in alias_defs:
                    use = _stmt_of(e)
                    for dst, o in alias_defs[e.id]:
                        blk = _block_of(dst)
                        if blk is None:
                            continue
                        i = next(k for k, s in enumerate(blk) if s is dst)
                        # the statement of the block that contains the use
                        j = None
                        for k in range(i + 1, len(blk)):
                            if any(y is use for y in ast.walk(blk[k])):
                                j = k
                                break
                        if j is None:
                            continue
                        if any(e.id in _assigned_in([s])[0] for s in blk[i + 1:j]):
                            continue
                        return o, e.id
                return None, None

            def numeric(o, alias):
                d, k = o
                for x in ast.walk(fn):
                    oo, al = (None, None)
                    if isinstance(x, (ast.Subscript, ast.Call)):
                        oo = _opt_read(x, owned)
                    if oo == o or (alias and isinstance(x, ast.Name) and x.id == alias and isinstance(x.ctx, ast.Load)):
                        p = pf.parent(x)
                        while p is not None and not isinstance(p, ast.stmt):
                            if isinstance(p, ast.BinOp):
                                return True
                            p = pf.parent(p)
                        if isinstance(p, ast.AugAssign) and any(y is x for y in ast.walk(p.value)):
                            return True
                    if alias and isinstance(x, ast.AugAssign) and isinstance(x.target, ast.Name) and x.target.id == alias:
                        return True
                # the value handed on to a local that is then used arithmetically: `noise = rxn["noise"]; noise += ...`
                for x in pf.walk_no_nested(fn):
                    if isinstance(x, ast.Assign) and len(x.targets) == 1 and isinstance(x.targets[0], ast.Name) \
                            and _opt_read(x.value, owned) == o:
                        nm = x.targets[0].id
                        for y in ast.walk(fn):
                            if isinstance(y, ast.AugAssign) and isinstance(y.target, ast.Name) and y.target.id == nm:
                                return True
                            if isinstance(y, ast.BinOp) and any(isinstance(z, ast.Name) and z.id == nm for z in ast.walk(y)):
                                return True
                return False

            def parse_test(t):
                """-> (option, alias, kind, default_when_test_true) | None"""
                if isinstance(t, ast.Compare) and len(t.ops) == 1:
                    op, l, r = t.ops[0], t.left, t.comparators[0]
                    if isinstance(op, (ast.Is, ast.IsNot, ast.Eq, ast.NotEq)) and isinstance(r, ast.Constant) and r.value is None:
                        o, al = option_of(l)
                        if o is not None:
                            return o, al, "presence", isinstance(op, (ast.Is, ast.Eq))
                    if isinstance(op, (ast.In, ast.NotIn)) and isinstance(l, ast.Constant) and isinstance(r, ast.Name) and r.id in owned:
                        return (r.id, l.value), None, "presence", isinstance(op, ast.NotIn)
                    return None
                if isinstance(t, ast.UnaryOp) and isinstance(t.op, ast.Not):
                    inner = parse_test(t.operand)
                    if inner is None:
                        return None
                    return inner[0], inner[1], inner[2], not inner[3]
                if isinstance(t, ast.Call) and pf.call_name(t) == "bool" and len(t.args) == 1:
                    return parse_test(t.args[0])
                o, al = option_of(t)
                if o is not None:
                    return o, al, "truth", False
                return None

            def reads_option(nodes, o, alias):
                for s in nodes:
                    for x in ast.walk(s):
                        if isinstance(x, (ast.Subscript, ast.Call)) and _opt_read(x, owned) == o:
                            return True
                        if alias and isinstance(x, ast.Name) and x.id == alias and isinstance(x.ctx, ast.Load):
                            return True
                return False

            def verdict(node, o, alias, kind, what):
                nonlocal n_inst
                if not numeric(o, alias):
                    return
                n_inst += 1
                inst = "%s: option %s[%r] gives way to its default only when absent" % (where, o[0], o[1])
                if kind == "presence":
                    chk.ok("option-default", inst)
                else:
                    chk.violation("option-default", TR, where, "%s[%r] tested by truthiness" % (o[0], o[1]), node.lineno,
                                  "`%s` %s: the option %r is used as a number, and an explicit 0 (0.0) is a value of its "
                                  "domain, yet it is falsy and is replaced by the default as if the option were absent; "
                                  "test `is None` / `is not None` instead" % (pf.src(node)[:80].split("\n")[0], what, o[1]),
                                  instance=inst)

            for x in pf.walk_no_nested(fn):
                if isinstance(x, ast.If):
                    pt = parse_test(x.test)
                    if pt is None:
                        continue
                    o, alias, kind, dflt_true = pt
                    dbr, obr = (x.body, x.orelse) if dflt_true else (x.orelse, x.body)
                    if not dbr:
                        continue
                    dn, dk_ = _assigned_in(dbr)
                    on, ok_ = _assigned_in(obr)
                    deciding = (alias is not None and alias in dn) or (o in dk_) \
                        or bool((dn & on) or (dk_ & ok_)) and reads_option(obr, o, alias)
                    if deciding:
                        verdict(x, o, alias, kind, "chooses between the option and the default assigned in the other branch")
                elif isinstance(x, ast.IfExp):
                    pt = parse_test(x.test)
                    if pt is None:
                        continue
                    o, alias, kind, dflt_true = pt
                    oarm = x.orelse if dflt_true else x.body
                    if reads_option([oarm], o, alias):
                        verdict(x, o, alias, kind, "chooses between the option and a default")
                elif isinstance(x, ast.BoolOp) and isinstance(x.op, ast.Or):
                    par = pf.parent(x)
                    tested = (isinstance(par, (ast.If, ast.While, ast.IfExp, ast.Assert)) and par.test is x) \
                        or (isinstance(par, ast.UnaryOp) and isinstance(par.op, ast.Not)) or isinstance(par, ast.BoolOp)
                    if tested:
                        continue
                    for v in x.values[:-1]:
                        o, alias = option_of(v)
                        if o is not None:
                            verdict(x, o, alias, "truth", "substitutes the default for a falsy option")
    chk.count("decisions between an option and its default", n_inst)


# ----------------------------------------------------------------------------
# per-iteration values are not used after their loop
# ----------------------------------------------------------------------------
def rule_stale_loop_value(chk, gp):
    seen_fn = set()
    for m, c in gp.prog.mro(gp.mod, gp.cls):
        if m.rel != TR:
            continue
        for mname, fn in pf.methods(c).items():
            if mname in seen_fn:
                continue
            seen_fn.add(mname)
            loops = [x for x in pf.walk_no_nested(fn) if isinstance(x, ast.For)]
            if not loops:
                continue
            where = "%s.%s" % (c.name, mname)
            g = cfgm.CFG(fn)
            alldefs = {}
            for x in pf.walk_no_nested(fn):
                ts = []
                if isinstance(x, ast.Assign):
                    ts = x.targets
                elif isinstance(x, (ast.AugAssign, ast.AnnAssign)):
                    ts = [x.target]
                elif isinstance(x, ast.For):
                    ts = [x.target]
                elif isinstance(x, ast.With):
                    ts = [i.optional_vars for i in x.items if i.optional_vars is not None]
                for t in ts:
                    if isinstance(t, (ast.Name, ast.Tuple, ast.List)):
                        for n in ast.walk(t):
                            if isinstance(n, ast.Name) and isinstance(n.ctx, ast.Store):
                                alldefs.setdefault(n.id, []).append(x)
            params = {a.arg for a in fn.args.args + fn.args.kwonlyargs}
            comp = {n.id for cpr in ast.walk(fn) if isinstance(cpr, ast.comprehension) for n in ast.walk(cpr.target)
                    if isinstance(n, ast.Name)}
            for lp in loops:
                if any(isinstance(x, ast.Break) for x in pf.walk_no_nested(lp)):
                    continue  # search loops legitimately use the element they stopped at
                inside = {id(x) for x in ast.walk(lp)}
                per_iter = [nm for nm, ds in alldefs.items()
                            if nm not in params and nm not in comp and all(id(d) in inside for d in ds)]
                head = g.node_of(lp)
                for nm in sorted(per_iter):
                    # uses after the loop, reachable from its exit without a new definition
                    bad = None
                    start = [v for v in g.succ[head.id] if g.edge_label.get((head.id, v)) == "F"]
                    seen, work = set(), list(start)
                    while work and bad is None:
                        u = work.pop()
                        if u in seen:
                            continue
                        seen.add(u)
                        n = g.nodes[u]
                        if n.ast is not None and id(n.ast) in inside:
                            continue  # back inside the loop through an enclosing loop: a new iteration defines it
                        for root in _node_exprs(n):
                            for x in ast.walk(root):
                                if isinstance(x, ast.Name) and x.id == nm and bad is None:
                                    bad = n
                        if n.kind == "stmt" and isinstance(n.ast, ast.AugAssign) and pf.base_name(n.ast.target) == nm:
                            bad = bad or n
                        if bad is not None:
                            break
                        if n.ast is not None and any(d is n.ast for d in alldefs.get(nm, [])):
                            continue
                        work.extend(g.succ[u])
                    inst = "%s: %s (set in every iteration of `for %s in %s`) is not used after the loop" % (
                        where, nm, pf.src(lp.target), pf.src(lp.iter)[:40])
                    if bad is None:
                        chk.ok("stale-loop-value", inst, nontrivial=False)
                    else:
                        chk.violation("stale-loop-value", TR, where, "%s after `for %s in %s`" % (nm, pf.src(lp.target), pf.src(lp.iter)[:40]),
                                      bad.ast.lineno,
                                      "`%s` is only ever assigned inside the loop `for %s in %s`, yet `%s` uses it after "
                                      "the loop has ended: it is the object of the LAST iteration only, so an operation "
                                      "meant for every element (every kernel's block) reaches one of them"
                                      % (nm, pf.src(lp.target), pf.src(lp.iter)[:40], pf.src(bad.ast).split("\n")[0][:70]),
                                      instance=inst)


# ----------------------------------------------------------------------------
# round 10: default likelihood, per-item memo, twin agreement of _compute_mol_covs
# ----------------------------------------------------------------------------
def rule_likelihood_default(chk, gp):
    fit = gp.method("fit")
    r = gp.prog.find_method(gp.mod, gp.cls, "compute_likelihood")
    if r is None:
        raise core.AnalysisError("compute_likelihood vanished")
    fn = r[2]
    cname = gp.cls.name
    where = cname + ".compute_likelihood"

    def final_chol_arg(f):
        cs = [x for x in pf.walk_no_nested(f) if isinstance(x, ast.Call) and (pf.call_name(x) or "").split(".")[-1] == "cholesky"
              and pf.enclosing(x, (ast.For,)) is None and x.args]
        return cs[-1].args[0] if cs else None
    karg = final_chol_arg(fit)
    stored = None
    if isinstance(karg, ast.Name):
        for st in pf.walk_no_nested(fit):
            if isinstance(st, ast.Assign) and isinstance(st.value, ast.Name) and st.value.id == karg.id:
                for t in st.targets:
                    if pf.is_self_attr(t):
                        stored = t.attr
    if stored is None:
        raise core.AnalysisError("fit does not store the matrix it factorises on self")
    xpar = [a.arg for a in fn.args.args if a.arg != "self"]
    if not xpar:
        raise core.AnalysisError("compute_likelihood has no hyper-parameter argument")
    xname = xpar[0]
    larg = final_chol_arg(fn)
    inst = "%s: with %s=None the likelihood is evaluated on the matrix fit() factorised (self.%s)" % (where, xname, stored)
    if larg is None:
        raise core.AnalysisError("compute_likelihood: factorised matrix not found")
    good = False

    def is_none_test(t, pol):
        if isinstance(t, ast.Compare) and isinstance(t.left, ast.Name) and t.left.id == xname and len(t.ops) == 1 \
                and isinstance(t.comparators[0], ast.Constant) and t.comparators[0].value is None:
            return (isinstance(t.ops[0], ast.Is) and pol) or (isinstance(t.ops[0], ast.IsNot) and not pol)
        return False
    if pf.is_self_attr(larg, stored):
        good = True
    if isinstance(larg, ast.Name):
        for st in pf.walk_no_nested(fn):
            if isinstance(st, ast.Assign) and any(isinstance(t, ast.Name) and t.id == larg.id for t in st.targets):
                v = st.value
                if pf.is_self_attr(v, stored) and any(is_none_test(t, pol) for t, pol, k in cfgm.conditions_at(st)):
                    good = True
                if isinstance(v, ast.IfExp) and ((is_none_test(v.test, True) and pf.is_self_attr(v.body, stored))
                                                 or (is_none_test(v.test, False) and pf.is_self_attr(v.orelse, stored))):
                    good = True
    if good:
        chk.ok("likelihood-default", inst)
    else:
        rescale = sorted({n.id for st in pf.walk_no_nested(fn) if isinstance(st, ast.Assign)
                          for n in ast.walk(st.value) if isinstance(n, ast.Name) and n.id in xpar})
        chk.violation("likelihood-default", TR, where, "matrix factorised when %s is None" % xname, fn.lineno,
                      "fit() factorises and stores self.%s, but compute_likelihood(%s=None) does not evaluate the "
                      "likelihood on that matrix: it rebuilds one from the stored pieces with %s (a default vector and "
                      "sigma_min are applied on top of the scaling fit already used), so the reported value is not the "
                      "log marginal likelihood of the fitted system" % (stored, xname, ", ".join(rescale) or "rescaling"),
                      instance=inst)


def _train_methods(gp):
    seen = set()
    for m, c in gp.prog.mro(gp.mod, gp.cls):
        if m.rel != TR:
            continue
        for mname, fn in pf.methods(c).items():
            if mname not in seen:
                seen.add(mname)
                yield c, mname, fn


def rule_per_item_memo(chk, gp, own_only=False):
    for c, mname, fn in _train_methods(gp):
        if own_only and c is not gp.cls:
            continue
        where = "%s.%s" % (c.name, mname)
        for lp in [x for x in pf.walk_no_nested(fn) if isinstance(x, ast.For)]:
            inside = {id(x) for x in ast.walk(lp)}
            per_iter = {n.id for n in ast.walk(lp.target) if isinstance(n, ast.Name)}
            body_defs = {}
            for x in pf.walk_no_nested(lp):
                if isinstance(x, (ast.Assign, ast.AugAssign)):
                    for t in (x.targets if isinstance(x, ast.Assign) else [x.target]):
                        for n in ast.walk(t):
                            if isinstance(n, ast.Name) and isinstance(n.ctx, ast.Store):
                                body_defs.setdefault(n.id, []).append(x)
            pre_none = set()
            for x in pf.walk_no_nested(fn):
                if isinstance(x, ast.Assign) and id(x) not in inside and x.lineno < lp.lineno \
                        and isinstance(x.value, ast.Constant) and x.value.value is None:
                    pre_none |= {t.id for t in x.targets if isinstance(t, ast.Name)}
            for nm in sorted(pre_none & set(body_defs)):
                guarded = []
                for st in body_defs[nm]:
                    for t, pol, k in cfgm.conditions_at(st, stop=lp):
                        if pol and isinstance(t, ast.Compare) and isinstance(t.left, ast.Name) and t.left.id == nm \
                                and isinstance(t.ops[0], ast.Is) and isinstance(t.comparators[0], ast.Constant) \
                                and t.comparators[0].value is None:
                            guarded.append(st)
                inst = "%s: %s (None before `for %s`) is not a per-item decision frozen by the first item" % (
                    where, nm, pf.src(lp.target))
                if len(guarded) != len(body_defs[nm]) or not guarded:
                    chk.ok("per-item-memo", inst, nontrivial=False)
                    continue
                # what the memoised value depends on
                deps, todo = set(), []
                for st in guarded:
                    todo += [n.id for n in ast.walk(st.value) if isinstance(n, ast.Name)]
                    for t, pol, k in cfgm.conditions_at(st, stop=lp):
                        todo += [n.id for n in ast.walk(t) if isinstance(n, ast.Name) and n.id != nm]
                while todo:
                    d = todo.pop()
                    if d in deps:
                        continue
                    deps.add(d)
                    for st2 in body_defs.get(d, []):
                        if d != nm:
                            todo += [n.id for n in ast.walk(st2.value) if isinstance(n, ast.Name)]
                varying = sorted((deps & (per_iter | (set(body_defs) - {nm}))))
                if varying:
                    chk.violation("per-item-memo", TR, where, "%s decided once for all items" % nm, guarded[0].lineno,
                                  "`%s` is None before the loop and is set only `if %s is None`, i.e. by the FIRST item, "
                                  "from %s, which differ from item to item: the decision taken for the first item is "
                                  "applied to all later ones, so the result depends on the order of the items"
                                  % (nm, nm, ", ".join(varying[:4])), instance=inst)
                else:
                    chk.ok("per-item-memo", inst + " (lazy initialisation from loop-invariant data)")


def _mask_names(fn):
    out = set()
    changed = True
    while changed:
        changed = False
        for st in pf.walk_no_nested(fn):
            if isinstance(st, ast.Assign) and len(st.targets) == 1 and isinstance(st.targets[0], ast.Name) \
                    and st.targets[0].id not in out:
                v = st.value
                is_mask = isinstance(v, ast.Compare) or (
                    isinstance(v, ast.Call) and (pf.call_name(v) or "").split(".")[-1] in ("logical_and", "logical_or", "logical_not", "isnan")) \
                    or (isinstance(v, ast.Subscript) and pf.base_name(v) in out) \
                    or (isinstance(v, ast.BinOp) and isinstance(v.op, (ast.BitAnd, ast.BitOr)))
                if is_mask:
                    out.add(st.targets[0].id)
                    changed = True
    return out


def rule_twin_covs(chk, prog):
    mod = prog.module(TR)
    twins = []
    for cname in ("MOLGP", "MOLGP2"):
        fn = pf.methods(mod.cls(cname)).get("_compute_mol_covs")
        if fn is not None:
            twins.append((cname, fn))
    if len(twins) < 2:
        raise core.AnalysisError("the twin _compute_mol_covs of MOLGP / MOLGP2 were not both found")
    # (a) a per-sample mask sits on the same (last) axis in every masked store of one array, in both twins
    pos = {}
    for cname, fn in twins:
        masks = _mask_names(fn)
        for st in pf.walk_no_nested(fn):
            if isinstance(st, ast.Assign) and len(st.targets) == 1 and isinstance(st.targets[0], ast.Subscript):
                t = st.targets[0]
                idx = t.slice.elts if isinstance(t.slice, ast.Tuple) else [t.slice]
                mpos = [i for i, e in enumerate(idx) if pf.base_name(e) in masks]
                if not mpos:
                    continue
                arr = pf.base_name(t)
                pos.setdefault(arr, []).append((len(idx) - 1 - mpos[-1], cname, st))
    for arr, sites in sorted(pos.items()):
        vals = {}
        for after, cname, st in sites:
            vals.setdefault(after, []).append((cname, st))
        inst = "_compute_mol_covs: low-density mask applied to the same axis of %s in all %d stores of both twins" % (arr, len(sites))
        if len(vals) == 1:
            chk.ok("twin-covs", inst)
        else:
            major = max(vals.items(), key=lambda kv: len(kv[1]))[0]
            for after, lst in vals.items():
                if after == major:
                    continue
                for cname, st in lst:
                    chk.violation("twin-covs", TR, cname + "._compute_mol_covs", "mask axis of %s" % arr, st.lineno,
                                  "`%s` applies the per-sample low-density mask %d position(s) before the end of the index, "
                                  "while the %d other masked stores of %s (both twins) apply it to the LAST axis (the sample "
                                  "axis): this store masks the feature axis with a per-sample mask"
                                  % (pf.src(st)[:70], after, len(vals[major]), arr), instance=inst + " :: " + cname)
    # (b) dicts whose values are (spin, array) tuples are not sliced like arrays
    for cname, fn in twins:
        tupled = set()
        for x in pf.walk_no_nested(fn):
            if isinstance(x, ast.For) and isinstance(x.iter, ast.Call) and isinstance(x.iter.func, ast.Attribute) \
                    and x.iter.func.attr == "items" and isinstance(x.iter.func.value, ast.Name) \
                    and isinstance(x.target, ast.Tuple) and len(x.target.elts) == 2 and isinstance(x.target.elts[1], ast.Tuple):
                tupled.add(x.iter.func.value.id)
        for d in sorted(tupled):
            uses = [x for x in ast.walk(fn) if isinstance(x, ast.Subscript) and isinstance(x.value, ast.Subscript)
                    and isinstance(x.value.value, ast.Name) and x.value.value.id == d]
            inst = "%s._compute_mol_covs: entries of %s, which are (spin, array) pairs, are indexed as pairs" % (cname, d)
            bad = [x for x in uses if isinstance(x.slice, (ast.Tuple, ast.Slice))]
            if bad:
                chk.violation("twin-covs", TR, cname + "._compute_mol_covs", "array slice of a %s entry" % d, bad[0].lineno,
                              "`%s`: the values of %s are unpacked as `(s, array)` pairs elsewhere in this method "
                              "(`for orb, (s, ...) in %s.items()`), so slicing the entry itself indexes a tuple with a "
                              "tuple of slices (TypeError) instead of its array component" % (pf.src(bad[0])[:60], d, d),
                              instance=inst)
            else:
                chk.ok("twin-covs", inst, nontrivial=bool(uses))
    # (c) inside the per-orbital loop (one spin channel s): per-spin arrays are indexed by s; weights enter once
    for cname, fn in twins:
        wt = set()
        for st in pf.walk_no_nested(fn):
            if isinstance(st, ast.Assign) and len(st.targets) == 1 and isinstance(st.targets[0], ast.Name):
                v = st.value
                if isinstance(v, ast.Subscript) and isinstance(v.value, ast.Name) and v.value.id in wt | {"weights"}:
                    wt.add(st.targets[0].id)
                if isinstance(v, ast.Subscript) and pf.src(v.slice) in ("'wt'", '"wt"'):
                    wt.add(st.targets[0].id)
        wloc = {w for w in wt if any(isinstance(st, ast.Assign) and isinstance(st.value, ast.Subscript)
                                     and isinstance(st.value.slice, ast.Slice) and isinstance(st.targets[0], ast.Name)
                                     and st.targets[0].id == w for st in pf.walk_no_nested(fn))}
        for lp in [x for x in pf.walk_no_nested(fn) if isinstance(x, ast.For) and isinstance(x.target, ast.Tuple)
                   and len(x.target.elts) == 2 and isinstance(x.target.elts[1], ast.Tuple)
                   and isinstance(x.target.elts[1].elts[0], ast.Name) and any(
                       isinstance(y, ast.AugAssign) for y in pf.walk_no_nested(x))]:
            svar = lp.target.elts[1].elts[0].id
            per_spin = set()
            for x in ast.walk(fn):
                if isinstance(x, ast.Subscript) and isinstance(x.value, ast.Name):
                    idx = x.slice.elts if isinstance(x.slice, ast.Tuple) else [x.slice]
                    if any(isinstance(i, ast.Name) and i.id == svar for i in idx[:2]):
                        per_spin.add(x.value.id)
            power = {}
            for st in lp.body:
                if isinstance(st, ast.Assign) and len(st.targets) == 1 and isinstance(st.targets[0], ast.Name):
                    power[st.targets[0].id] = _wt_power(st.value, power, wloc)
            for st in lp.body:
                if not isinstance(st, ast.AugAssign):
                    continue
                inst = "%s._compute_mol_covs: `%s` uses one spin channel and the quadrature weights once" % (
                    cname, pf.src(st.target))
                bare = sorted({n.id for n in ast.walk(st.value) if isinstance(n, ast.Name) and n.id in per_spin
                               and not (isinstance(pf.parent(n), ast.Subscript) and pf.parent(n).value is n)})
                p = _wt_power(st.value, power, wloc)
                if bare:
                    chk.violation("twin-covs", TR, cname + "._compute_mol_covs", "spin channel in `%s +=`" % pf.src(st.target),
                                  st.lineno,
                                  "`%s`: %s is indexed by the spin `%s` everywhere else in this method, but enters this "
                                  "per-orbital (single-spin) term whole: the term sums over all spin channels"
                                  % (pf.src(st)[:80], ", ".join(bare), svar), instance=inst + " :: spin")
                elif p is not None and p != 1:
                    chk.violation("twin-covs", TR, cname + "._compute_mol_covs", "weights in `%s +=`" % pf.src(st.target),
                                  st.lineno,
                                  "`%s` contains the quadrature weights to the power %s; every other integral of the "
                                  "twin methods contains them exactly once" % (pf.src(st)[:80], p), instance=inst + " :: weights")
                else:
                    chk.ok("twin-covs", inst)


def _wt_power(e, power, wloc):
    if isinstance(e, ast.Name):
        if e.id in wloc:
            return 1
        return power.get(e.id)
    if isinstance(e, ast.BinOp) and isinstance(e.op, ast.Mult):
        a, b = _wt_power(e.left, power, wloc), _wt_power(e.right, power, wloc)
        if a is None and b is None:
            return None
        return (a or 0) + (b or 0)
    if isinstance(e, ast.BinOp) and isinstance(e.op, (ast.Add, ast.Sub)):
        a, b = _wt_power(e.left, power, wloc), _wt_power(e.right, power, wloc)
        return a if a is not None else b
    if isinstance(e, ast.Subscript):
        return _wt_power(e.value, power, wloc)
    if isinstance(e, ast.Call):
        last = (pf.call_name(e) or "").split(".")[-1]
        if isinstance(e.func, ast.Attribute) and e.func.attr in ("sum", "copy", "ravel") and not (pf.call_name(e) or "").startswith("np."):
            return _wt_power(e.func.value, power, wloc)
        if last in ("dot", "einsum", "sum", "multiply", "inner"):
            ps = [_wt_power(a, power, wloc) for a in e.args if not isinstance(a, ast.Constant)]
            ps = [p for p in ps if p is not None]
            if isinstance(e.func, ast.Attribute) and not (pf.call_name(e) or "").startswith("np.") and last == "dot":
                q = _wt_power(e.func.value, power, wloc)
                if q is not None:
                    ps.append(q)
            return sum(ps) if ps else None
        ps = [_wt_power(a, power, wloc) for a in e.args]
        ps = [p for p in ps if p is not None]
        return max(ps) if ps else None
    return None


# ----------------------------------------------------------------------------
# per-instance state that is mutated in place is created per instance
# ----------------------------------------------------------------------------
MUTATORS = {"append", "extend", "update", "setdefault", "insert", "add", "pop", "clear", "remove", "popitem"}


def _is_mutable_literal(v):
    return isinstance(v, (ast.Dict, ast.List, ast.Set)) or (
        isinstance(v, ast.Call) and pf.call_name(v) in ("dict", "list", "set", "collections.defaultdict", "defaultdict",
                                                        "collections.OrderedDict", "OrderedDict") )


def rule_instance_state(chk, prog):
    # attributes mutated in place anywhere in train.py / dft_kernel.py: <obj>.<attr>[k] = v, <obj>.<attr>.append(...)
    mutated = {}
    for rel in (TR, DK):
        mod = prog.module(rel)
        for n in ast.walk(mod.ast):
            if isinstance(n, (ast.Assign, ast.AugAssign)):
                for t in (n.targets if isinstance(n, ast.Assign) else [n.target]):
                    while isinstance(t, ast.Subscript):
                        if isinstance(t.value, ast.Attribute):
                            mutated.setdefault(t.value.attr, n)
                        t = t.value
            elif isinstance(n, ast.Call) and isinstance(n.func, ast.Attribute) and n.func.attr in MUTATORS \
                    and isinstance(n.func.value, ast.Attribute):
                mutated.setdefault(n.func.value.attr, n)
    for rel, cname in ((DK, "DFTKernel"), (DK, "DFTKernel2"), (TR, "MOLGP"), (TR, "MOLGP2")):
        mod = prog.module(rel)
        cls = mod.cls(cname)
        mro = prog.mro(mod, cls)
        class_level = {}
        for m, c in mro:
            for k, v in pf.class_attrs(c).items():
                class_level.setdefault(k, (c, v))
        init_bound = set()
        inits = [pf.methods(c).get("__init__") for m, c in mro]
        # names bound in the constructor chain (the first __init__ found and the ones it reaches by super/Base.__init__)
        first = next((i for i in inits if i is not None), None)
        reach = [first] if first is not None else []
        if first is not None and any(isinstance(x, ast.Call) and isinstance(x.func, ast.Attribute) and x.func.attr == "__init__"
                                     for x in ast.walk(first)):
            reach = [i for i in inits if i is not None]
        for i in reach:
            for x in ast.walk(i):
                if isinstance(x, (ast.Assign, ast.AnnAssign)):
                    for t in (x.targets if isinstance(x, ast.Assign) else [x.target]):
                        if pf.is_self_attr(t):
                            init_bound.add(t.attr)
                if isinstance(x, ast.Call) and isinstance(x.func, ast.Attribute) and isinstance(x.func.value, ast.Name) \
                        and x.func.value.id == "self":
                    r = prog.find_method(mod, cls, x.func.attr)
                    if r is not None:
                        for y in ast.walk(r[2]):
                            if isinstance(y, ast.Assign):
                                for t in y.targets:
                                    if pf.is_self_attr(t):
                                        init_bound.add(t.attr)
        own_attrs = set(class_level) | init_bound
        for m, c in mro:
            for fn in pf.methods(c).values():
                for x in ast.walk(fn):
                    if pf.is_self_attr(x):
                        own_attrs.add(x.attr)
        for attr in sorted(set(mutated) & own_attrs):
            inst = "%s: self.%s, which is modified in place, is created per instance by the constructor" % (cname, attr)
            if attr in init_bound:
                chk.ok("instance-state", inst)
            elif attr in class_level and _is_mutable_literal(class_level[attr][1]):
                c, v = class_level[attr]
                chk.violation("instance-state", rel, cname, "class-level %s = %s" % (attr, pf.src(v)), v.lineno,
                              "`%s = %s` is a class-level default shared by every instance of %s, the constructor does "
                              "not rebind it, and it is filled in place (`%s`): all kernels write into the same object, "
                              "so the covariances/baselines stored for one kernel overwrite those of another"
                              % (attr, pf.src(v), c.name, pf.src(mutated[attr]).split("\n")[0][:70]), instance=inst)
            else:
                chk.ok("instance-state", inst + " (not a shared mutable default)", nontrivial=False)


# ----------------------------------------------------------------------------
# log-determinants are sums of logs, never the log of a product
# ----------------------------------------------------------------------------
def rule_log_prod(chk, gp):
    n = 0
    for c, mname, fn in _train_methods(gp):
        for x in ast.walk(fn):
            if isinstance(x, ast.Call) and (pf.call_name(x) or "").split(".")[-1] in ("log", "log2", "log10", "log1p") and x.args:
                n += 1
                inner = [y for y in ast.walk(x.args[0]) if isinstance(y, ast.Call)
                         and (pf.call_name(y) or "").split(".")[-1] in ("prod", "product", "cumprod")]
                if isinstance(x.args[0], ast.Name):
                    for st in pf.walk_no_nested(fn):
                        if isinstance(st, ast.Assign) and any(isinstance(t, ast.Name) and t.id == x.args[0].id for t in st.targets):
                            inner += [y for y in ast.walk(st.value) if isinstance(y, ast.Call)
                                      and (pf.call_name(y) or "").split(".")[-1] in ("prod", "product", "cumprod")]
                where = "%s.%s" % (c.name, mname)
                inst = "%s: `%s` is not the logarithm of a product over a vector" % (where, pf.src(x)[:50])
                if inner:
                    chk.violation("log-prod", TR, where, "log of a product", x.lineno,
                                  "`%s` multiplies all entries before taking the logarithm: for a few hundred factors the "
                                  "product under- or overflows (0 or inf) and the log marginal likelihood becomes +-inf; "
                                  "use the sum of the logs (or slogdet)" % pf.src(x)[:70], instance=inst)
                else:
                    chk.ok("log-prod", inst, nontrivial=False)
    chk.ok("log-prod", "%s: %d logarithms examined" % (gp.cls.name, n), nontrivial=False)


# ----------------------------------------------------------------------------
# a matrix served from a cache attribute was stored from the kernel evaluation itself
# ----------------------------------------------------------------------------
PASS_CALLS = {"np.ix_", "np.asfortranarray", "np.ascontiguousarray", "np.asarray", "np.array", "np.copy"}


def _data_calls(fn, e, defs, seen=None, depth=6):
    """calls the DATA of e passes through (indices of subscripts are not data), following local definitions"""
    seen = seen if seen is not None else set()
    out = []
    if isinstance(e, ast.Subscript):
        return _data_calls(fn, e.value, defs, seen, depth)
    if isinstance(e, ast.Name):
        if e.id in seen or depth <= 0:
            return out
        seen.add(e.id)
        for v in defs.get(e.id, []):
            out += _data_calls(fn, v, defs, seen, depth - 1)
        return out
    if isinstance(e, ast.BinOp):
        return _data_calls(fn, e.left, defs, seen, depth) + _data_calls(fn, e.right, defs, seen, depth)
    if isinstance(e, ast.Call):
        f = e.func
        if pf.is_self_attr(f, "kernel") or (isinstance(f, ast.Attribute) and pf.is_self_attr(f.value, "kernel")):
            return [("kernel", e)]
        nm = pf.call_name(e) or pf.src(f)
        if nm in PASS_CALLS or (isinstance(f, ast.Attribute) and f.attr in ("copy", "T")):
            inner = e.args[0] if e.args else (f.value if isinstance(f, ast.Attribute) else None)
            return _data_calls(fn, inner, defs, seen, depth) if inner is not None else []
        return [(nm, e)]
    if isinstance(e, ast.Attribute) and e.attr == "T":
        return _data_calls(fn, e.value, defs, seen, depth)
    return out


def rule_cache_source(chk, prog):
    mod = prog.module(DK)
    n = 0
    for cname in ("DFTKernel", "DFTKernel2"):
        cls = mod.cls(cname)
        ms = {}
        for m, c in prog.mro(mod, cls):
            for k, f in pf.methods(c).items():
                ms.setdefault(k, (c, f))
        served = {}
        for mname, (c, fn) in ms.items():
            for st in pf.walk_no_nested(fn):
                if isinstance(st, ast.Assign) and len(st.targets) == 1 and pf.is_self_attr(st.targets[0]) \
                        and pf.is_self_attr(st.value) and st.value.attr != st.targets[0].attr:
                    served[st.value.attr] = (mname, st)
        for attr, (mname, alias_st) in sorted(served.items()):
            for wname, (c, fn) in ms.items():
                if wname == "__init__":
                    continue
                defs = {}
                for x in pf.walk_no_nested(fn):
                    if isinstance(x, ast.Assign):
                        for t in x.targets:
                            if isinstance(t, ast.Name):
                                defs.setdefault(t.id, []).append(x.value)
                for st in pf.walk_no_nested(fn):
                    if isinstance(st, ast.Assign) and any(pf.is_self_attr(t, attr) for t in st.targets) \
                            and not isinstance(st.value, ast.Constant):
                        n += 1
                        calls = _data_calls(fn, st.value, defs)
                        other = [(nm, e) for nm, e in calls if nm != "kernel"]
                        inst = "%s: self.%s, served as self.%s by %s, is stored from the kernel evaluation itself" % (
                            cname, attr, pf.src(alias_st.targets[0]).split(".")[-1], mname)
                        if other or not calls:
                            chk.violation("cache-source", DK, "%s.%s" % (c.name, wname), "self.%s = %s" % (attr, pf.src(st.value)[:50]),
                                          st.lineno,
                                          "%s hands out self.%s as `%s`, but %s stores it from `%s`, whose data went through "
                                          "%s after the kernel was evaluated: the served matrix is a transformed one "
                                          "(e.g. normalised to unit diagonal), not kernel(X1ctrl, X1ctrl), so K_mm and "
                                          "K_mn no longer belong to the same kernel"
                                          % (mname, attr, pf.src(alias_st)[:50], wname, pf.src(st.value)[:50],
                                             ", ".join(sorted({nm for nm, e in other})) or "no kernel evaluation at all"),
                                          instance=inst)
                        else:
                            chk.ok("cache-source", inst)
    chk.ok("cache-source", "DFTKernel/DFTKernel2: %d store(s) into attributes that another method serves under a second name" % n,
           nontrivial=False)


# ----------------------------------------------------------------------------
def _analyse_own(chk):
    # statement-level helper calls are inlined one level so that the rules see one body per anchored method
    prog = inline.inlined_program(chk.tree, [TR, DK, XE, XE2])
    chk.count("helper calls inlined", sum(m.inlined for m in prog.modules.values()))
    mod = prog.module(TR)
    MODULE_CONSTS.clear()
    MODULE_CONSTS.update({k: v for k, v in mod.assigns.items()})
    chk.rule("memo-invalidate", "a cached attribute served under a guard is reset by every method that writes one of its inputs")
    chk.rule("pairing", "sibling loops over the systems of one reaction iterate the same (structs, counts) pairing")
    chk.rule("loop-carried", "locals feeding the stored rows are (re)defined in every iteration of the reaction loop")
    chk.rule("option-writeback", "an option key of a caller-owned dict is only given plain defaults, never a derived value")
    chk.rule("option-default", "a numeric option of a caller-owned dict gives way to its default only when absent (presence test, not truthiness)")
    chk.rule("stale-loop-value", "a value set in every iteration of a loop (without break) is not used after that loop")
    chk.rule("log-prod", "the likelihood never takes the logarithm of a product of many factors")
    chk.rule("likelihood-default", "compute_likelihood(x=None) evaluates the likelihood on the matrix fit() factorised")
    chk.rule("per-item-memo", "a decision that depends on the current item is not memoised across loop iterations")
    chk.rule("twin-covs", "MOLGP/MOLGP2._compute_mol_covs agree on mask axes, (spin, array) entries, spin channel and weights")
    chk.rule("stored-alias", "add_reactions never accumulates in place into an alias of the stored per-system arrays")
    chk.rule("fit-snapshot", "state stored by fit is not a pre-rescaling copy later combined with post-rescaling state")
    chk.rule("reset-append", "containers read by fit == appended by add_reactions ⊆ emptied by reset_reactions")
    chk.rule("row-once", "exactly one append per container per reaction on every non-raising path")
    chk.rule("fit-system", "fit assembles sum_k Knm Kmm^-1 Kmn + diag(noise**2) (+ eps I) against rxn_ref_list")
    base = mod.cls("MOLGP")
    targets = [base]
    for m, c in prog.subclasses("MOLGP"):
        if c is not base and m.rel == TR and any(n in pf.methods(c) for n in
                                                 ("add_reactions", "reset_reactions", "fit", "xkernels", "ckernels")):
            targets.append(c)
        elif c is not base:
            chk.count("subclasses inheriting add/reset/fit unchanged")
    for cls in targets:
        gp = GP(prog, mod, cls)
        res = chk.guard(rule_reset_append, gp)
        if res:
            chk.guard(rule_row_once, gp, res[0])
            chk.guard(rule_loop_carried, gp, res[0])
        chk.guard(rule_fit, gp)
        chk.guard(rule_pairing, gp)
        chk.guard(rule_snapshot, gp)
        chk.guard(rule_stored_alias, gp)
        chk.guard(rule_option_writeback, gp)
        chk.guard(rule_option_default, gp)
        chk.guard(rule_likelihood_default, gp)
        chk.guard(rule_log_prod, gp)
        chk.guard(rule_per_item_memo, gp)
        chk.guard(rule_stale_loop_value, gp)
    chk.guard(rule_memo, prog)
    for m_, c_ in prog.subclasses("MOLGP"):
        if c_ is not base and m_.rel == TR and c_ not in targets:
            chk.guard(rule_per_item_memo, GP(prog, m_, c_), True)
    chk.guard(rule_twin_covs, prog)
    chk.rule("instance-state", "attributes that are modified in place are created per instance, not shared class-level defaults")
    chk.guard(rule_instance_state, prog)
    chk.rule("cache-source", "a kernel matrix served from a cache attribute was stored from the kernel evaluation, untransformed")
    chk.guard(rule_cache_source, prog)
    chk.floor("instance-state", 5, "cov/base/dcov/dbase dicts and rxn_cov_list of the kernels, rxn lists and dicts of MOLGP")
    # the kernel objects start with an empty list too
    dk = prog.module(DK)
    for cname in ("DFTKernel", "DFTKernel2"):
        init = dk.func(cname + ".__init__")
        okk = any(isinstance(x, ast.Assign) and any(pf.is_self_attr(t, "rxn_cov_list") for t in x.targets)
                  and isinstance(x.value, ast.List) and not x.value.elts for x in pf.walk_no_nested(init))
        if okk:
            chk.ok("reset-append", "%s.__init__ starts with an empty rxn_cov_list" % cname, nontrivial=False)
        else:
            chk.note("reset-append", DK, "%s.__init__ does not create rxn_cov_list; MOLGP.__init__ resets it" % cname)
    chk.floor("reset-append", 3, "partition + 3 containers + __init__")
    chk.floor("row-once", 2, "rxn_ref_list, rxn_noise_list, rxn_cov_list of xkernels and of ckernels")
    chk.floor("memo-invalidate", 1, "DFTKernel.get_kctrl computes and returns self.Kmm")
    chk.floor("loop-carried", 2, "rxn_ref, noise, rxn_cov")
    chk.floor("option-writeback", 1, "rxn['unit'] default")
    chk.floor("option-default", 1, "unit, noise, noise_factor of MOLGP.add_reactions")
    chk.floor("stale-loop-value", 10, "per-iteration locals of the loops of MOLGP methods")
    chk.floor("likelihood-default", 1, "MOLGP.compute_likelihood")
    chk.floor("twin-covs", 6, "masked arrays, tuple dicts, per-orbital accumulations of both twins")
    chk.floor("stored-alias", 1, "MOLGP.add_reactions")
    chk.floor("pairing", 1, "six loops over zip(rxn['structs'], rxn['counts'])")
    chk.floor("fit-snapshot", 2, "Kcov_, K_, alpha_mol_, y_mol_")
    chk.floor("fit-system", 3, "loop, +=, order, labels, noise, 2 regularisers")
    chk.assumptions += [
        "rxn_* lists are only grown by MOLGP.add_reactions and emptied by MOLGP.reset_reactions "
        "(no other writer exists in ciderpress/models today)",
        "every kernel's component is fixed after construction (the x/c partition does not change between calls)",
    ]
    chk.not_decided += [
        "alpha == Kmm^-1 Kmn (Knm Kmm^-1 Kmn + Sigma)^-1 y numerically; residual identity; likelihood value",
        "content of the labels (baselines, stoichiometric counts, units) and of the covariance rows",
        "permutation invariance with respect to the order of reactions (follows from row alignment only)",
    ]



def _seed_memo(also_set_kernel):
    def fn(text):
        a = "        self.X1ctrl = X1\n\n    def get_kctrl(self):"
        b = '        if self.mode == "POL":\n            kaa = self.kernel(self.X1ctrl[0], self.X1ctrl[0])'
        if a not in text or b not in text or "    def set_kernel(self, kernel):\n        self.kernel = kernel\n" not in text:
            return None
        text = text.replace(a, "        self.X1ctrl = X1\n        self.Kmm = None\n\n    def get_kctrl(self):")
        text = text.replace(b, "        if getattr(self, 'Kmm', None) is not None and self.Kmm.shape[0] == self.Nctrl:\n"
                               "            return self.Kmm\n" + b, 1)
        if also_set_kernel:
            text = text.replace("    def set_kernel(self, kernel):\n        self.kernel = kernel\n",
                                "    def set_kernel(self, kernel):\n        self.kernel = kernel\n        self.Kmm = None\n")
        return text
    return fn


def _seed_memo_lazy(text):
    a = "        self.Kmm = k\n        return self.Kmm\n"
    b = '        if self.mode == "POL":\n            kaa = self.kernel(self.X1ctrl[0], self.X1ctrl[0])'
    c = "    def set_kernel(self, kernel):\n        self.kernel = kernel\n"
    if a not in text or b not in text or c not in text:
        return None
    text = text.replace(b, "        if getattr(self, 'Kmm', None) is None:\n            self.Kmm = self._kctrl()\n"
                           "        return self.Kmm\n\n    def _kctrl(self):\n" + b, 1)
    text = text.replace(a, "        return k\n")
    return text.replace(c, c + "        self.Kmm = None\n")


def _seed_snapshot(text):
    a = "        noise_nn = noise_nn**2  # get noise covariance from noise std deviation\n"
    b = "        noise = (sigma_min + x[1] ** 2) * (self.K_ - self.Kcov_)\n"
    if a not in text or b not in text:
        return None
    text = text.replace(a, a + "        self.Knoise_ = np.diag(noise_nn + self.numerical_epsilon)\n")
    return text.replace(b, "        noise = (sigma_min + x[1] ** 2) * self.Knoise_\n")


def analyse(chk):
    _analyse_own(chk)
    chk.guard(lambda c_: core.include_findings(c_, 'C15', files=['ciderpress/models/dft_kernel.py'], rules=['pol-kernel', 'param-write'],
                                               why='K_mm assembled by DFTKernel.get_kctrl must be the same symmetric sum of products as get_k, otherwise fit factorises a different matrix'))



def _seed_unit(text):
    a = "        for mode, rxn in rxn_list:\n            if mode == 1:"
    b = '                if rxn.get("unit") is None:\n                    rxn["unit"] = 0.00159360109742136  # kcal/mol per Ha\n                rxn_ref += rxn["energy"] * rxn["unit"]\n'
    if a not in text or b not in text:
        return None
    text = text.replace(a, "        unit = 0.00159360109742136\n" + a, 1)
    return text.replace(b, '                if rxn.get("unit") is not None:\n                    unit = rxn["unit"]\n                rxn_ref += rxn["energy"] * unit\n', 1)



def _revert_deriv(i):
    import re as _re

    def fn(text):
        pat = _re.compile(r"((?: +#.*\n)*)( +)if get_orb_deriv is None:\n +deriv = \"ddesc\" in data\n +else:\n +deriv = get_orb_deriv\n")
        ms = list(pat.finditer(text))
        if len(ms) <= i:
            return None
        m_ = ms[i]
        ind = m_.group(2)
        new = (ind + "if deriv is None:\n" + ind + "    if get_orb_deriv is None:\n" + ind + "        deriv = \"ddesc\" in data\n"
               + ind + "    else:\n" + ind + "        deriv = get_orb_deriv\n")
        text = text[:m_.start()] + new + text[m_.end():]
        # initialise before the loop over the systems
        loops = list(_re.finditer(r"( +)for (?:i, )?mol_id in (?:enumerate\()?mol_ids\)?:\n", text))
        if len(loops) <= i:
            return None
        lm = loops[i]
        return text[:lm.start()] + lm.group(1) + "deriv = None\n" + text[lm.start():]
    return fn



def _seed_all_dict(text):
    a = 'for sysid, count in zip(rxn["structs"], rxn["counts"]):'
    b = "            rxn_ref = 0\n"
    if text.count(a) < 2 or b not in text:
        return None
    text = text.replace(b, b + '            stoich = dict(zip(rxn["structs"], rxn["counts"]))\n', 1)
    return text.replace(a, "for sysid, count in stoich.items():")


def _seed_class_defaults(text):
    blk = ("        self.base_dict = {}\n        self.cov_dict = {}\n        self.dbase_dict = {}\n        self.dcov_dict = {}\n")
    if text.count(blk) < 1 or "class DFTKernel(KernelEvalBase):\n" not in text:
        return None
    text = text.replace(blk, "")
    return text.replace("class DFTKernel(KernelEvalBase):\n",
                        "class DFTKernel(KernelEvalBase):\n    base_dict = {}\n    cov_dict = {}\n    dbase_dict = {}\n    dcov_dict = {}\n\n", 1)



def _seed_kmm_sel(text):
    a = "        idx = sortidx[piv[:r_c]]\n"
    b = '        if self.mode == "POL":\n            kaa = self.kernel(self.X1ctrl[0], self.X1ctrl[0])'
    if a not in text or b not in text:
        return None
    text = text.replace(a, a + "        self._Kmm_sel = Snorm[np.ix_(idx, idx)]\n", 1)
    return text.replace(b, "        if getattr(self, '_Kmm_sel', None) is not None:\n            self.Kmm = self._Kmm_sel\n"
                           "            return self.Kmm\n" + b, 1)


def mutants(tree):
    return [
        Mutant("forget rxn_noise_list in reset", TR, "        self.rxn_noise_list = []\n", "", expect="reset-append"),
        Mutant("unit option tested by truthiness", TR, 'if rxn.get("unit") is None:', 'if not rxn.get("unit"):',
               expect="option-default"),
        Mutant("noise_factor option tested by truthiness", TR, 'elif rxn.get("noise_factor") is not None:',
               'elif rxn.get("noise_factor"):', expect="option-default"),
        Mutant("forget kernel lists in reset", TR,
               "        for kernel in self.kernels:\n            kernel.rxn_cov_list = []\n", "", expect="reset-append"),
        Mutant("reset only exchange kernels", TR,
               "        for kernel in self.kernels:\n            kernel.rxn_cov_list = []",
               "        for kernel in self.xkernels:\n            kernel.rxn_cov_list = []", expect="reset-append"),
        Mutant("ckernels filter not complementary", TR, 'if k.component != "x"]', 'if k.component == "c"]',
               expect="reset-append"),
        Mutant("remove the zero-row append", TR,
               "            else:\n                for kernel in self.ckernels:\n"
               "                    kernel.rxn_cov_list.append(np.zeros(kernel.Nctrl))\n", "", expect="row-once"),
        Mutant("append label twice", TR, "            self.rxn_ref_list.append(rxn_ref)\n",
               "            self.rxn_ref_list.append(rxn_ref)\n            self.rxn_ref_list.append(rxn_ref)\n",
               expect="row-once"),
        Mutant("noise appended only when given", TR, "            self.rxn_noise_list.append(noise)\n",
               '            if rxn.get("noise") is not None:\n                self.rxn_noise_list.append(noise)\n',
               expect="row-once"),
        Mutant("cov append moved into the structure loop", TR,
               "                        rxn_ref -= count * kernel.base_dict[sysid]\n                kernel.rxn_cov_list.append(rxn_cov)\n",
               "                        rxn_ref -= count * kernel.base_dict[sysid]\n                    kernel.rxn_cov_list.append(rxn_cov)\n",
               expect="row-once"),
        Mutant("skip reactions with zero label before the noise append", TR,
               "            self.rxn_ref_list.append(rxn_ref)\n",
               "            self.rxn_ref_list.append(rxn_ref)\n            if rxn_ref == 0:\n                continue\n",
               expect="row-once"),
        Mutant("Kmm memo not invalidated by set_kernel", DK, fn=_seed_memo(False), expect="memo-invalidate"),
        Mutant("lazy Kmm memo (if None) not invalidated by set_control_points", DK, fn=_seed_memo_lazy, expect="memo-invalidate"),
        Mutant("KS baseline loop over dict(zip(...))", TR,
               '                for sysid, count in zip(rxn["structs"], rxn["counts"]):\n                    rxn_ref -= count * self.ks_baseline_dict[sysid]',
               '                stoich = dict(zip(rxn["structs"], rxn["counts"]))\n                for sysid, count in stoich.items():\n                    rxn_ref -= count * self.ks_baseline_dict[sysid]',
               expect="pairing"),
        Mutant("reference loop pairs structs with another list", TR,
               '                for sysid, count in zip(rxn["structs"], rxn["counts"]):\n                    if isinstance(sysid, tuple):\n                        rxn_ref += count * self.dexx_ref_dict',
               '                for sysid, count in zip(rxn["structs"], rxn["weights"]):\n                    if isinstance(sysid, tuple):\n                        rxn_ref += count * self.dexx_ref_dict',
               expect="pairing"),
        Mutant("covariance loop over the set of pairs", TR,
               '                    for sysid, count in zip(rxn["structs"], rxn["counts"]):\n                        if isinstance(sysid, tuple):\n                            rxn_cov += count * kernel.dcov_dict',
               '                    for sysid, count in set(zip(rxn["structs"], rxn["counts"])):\n                        if isinstance(sysid, tuple):\n                            rxn_cov += count * kernel.dcov_dict',
               expect="pairing"),
        Mutant("covariance scale applied to the running sum inside the kernel loop", TR,
               "            Knmimn += Kmn.T.dot(Kimn)\n", "            Knmimn += Kmn.T.dot(Kimn)\n            if x is not None:\n                Kimn *= x[0] ** 2\n                Knmimn *= x[0] ** 2\n",
               expect="fit-system"),
        Mutant("running sum rescaled by reassignment inside the loop", TR,
               "            Knmimn += Kmn.T.dot(Kimn)\n", "            Knmimn += Kmn.T.dot(Kimn)\n            Knmimn = 0.5 * Knmimn\n",
               expect="fit-system"),
        Mutant("covariance row accumulated into the stored array", TR,
               "            for kernel in self.xkernels:\n                rxn_cov = 0\n                for sysid, count in zip(rxn[\"structs\"], rxn[\"counts\"]):\n                    if isinstance(sysid, tuple):\n                        rxn_cov += count * kernel.dcov_dict[sysid[0]][sysid[1]]",
               "            for kernel in self.xkernels:\n                rxn_cov = None\n                for sysid, count in zip(rxn[\"structs\"], rxn[\"counts\"]):\n                    if rxn_cov is None and not isinstance(sysid, tuple):\n                        rxn_cov = kernel.cov_dict[sysid]\n                        continue\n                    if isinstance(sysid, tuple):\n                        rxn_cov += count * kernel.dcov_dict[sysid[0]][sysid[1]]",
               expect="stored-alias"),
        Mutant("default unit kept in a local set before the loop", TR, fn=_seed_unit, expect="loop-carried"),
        Mutant("noise default only when absent, no else", TR,
               "            else:\n                noise = self.default_noise\n            if rxn.get(\"noise_rel_factor\")",
               "            if rxn.get(\"noise_rel_factor\")", expect="loop-carried"),
        Mutant("label not reset per reaction", TR, "            rxn_ref = 0\n            if mode == 0:",
               "            if mode == 0:\n                rxn_ref = 0", expect="loop-carried"),
        Mutant("resolved noise written back into the reaction dict", TR,
               "            self.rxn_noise_list.append(noise)\n", "            rxn[\"noise\"] = noise\n            self.rxn_noise_list.append(noise)\n",
               expect="option-writeback"),
        Mutant("only the last kernel block rescaled", TR, "            Kimn_list = [x[0] ** 2 * k for k in Kimn_list]\n",
               "            Kimn[:] *= x[0] ** 2\n", expect="stale-loop-value"),
        Mutant("regulariser sized by the last kernel's M after the loop", TR,
               "K += self.numerical_epsilon * np.identity(noise_nn.size)", "K += self.numerical_epsilon * np.identity(noise_nn.size) * (M > 0)",
               expect="stale-loop-value"),
        Mutant("default likelihood rebuilt with x=[1,1] and sigma_min", TR,
               "            Kfull = self.K_\n        else:\n", "            x = np.array([1.0, 1.0])\n        if True:\n", expect="likelihood-default"),
        Mutant("orbital-derivative decision frozen by the first system (MOLGP)", TR, fn=_revert_deriv(0), expect="per-item-memo"),
        Mutant("orbital-derivative decision frozen by the first system (MOLGP2)", TR, fn=_revert_deriv(1), expect="per-item-memo"),
        Mutant("MOLGP2 masks the feature axis", TR, "                            dkdX0T[:, s][:, :, cond[s]] = 0.0\n",
               "                            dkdX0T[:, s, cond[s], :] = 0.0\n", count=2, expect="twin-covs"),
        Mutant("MOLGP2 slices the (spin, array) entry", TR, "drho_tmp = wt * drho_data[orb][1][:, i0:i1]", "drho_tmp = wt * drho_data[orb][:, i0:i1]",
               expect="twin-covs"),
        Mutant("MOLGP2 baseline term over all spins, weights twice", TR, "dbaseline[orb] += (da[s] * drho_tmp).sum()",
               "dbaseline[orb] += np.dot(da * drho_tmp, wt)", expect="twin-covs"),
        Mutant("MOLGP baseline term with weights twice", TR, "dbaseline[orb] += (da[s] * ddesc_tmp).sum()",
               "dbaseline[orb] += np.dot(da[s] * ddesc_tmp, wt).sum()", expect="twin-covs"),
        Mutant("kernel blocks assembled in xkernels + ckernels order", TR,
               "        for kernel in self.kernels:\n            Kmm = kernel.get_kctrl()", "        for kernel in self.xkernels + self.ckernels:\n            Kmm = kernel.get_kctrl()",
               expect="fit-system"),
        Mutant("all stoichiometry loops through one dict", TR, fn=_seed_all_dict, expect="pairing"),
        Mutant("per-kernel dicts hoisted to class-level defaults", DK, fn=_seed_class_defaults, expect="instance-state"),
        Mutant("log-determinant as the log of a product", TR, "likelihood -= 0.5 * np.linalg.slogdet(Kfull)[1]",
               "likelihood -= np.log(np.prod(np.diag(Lfull)))", expect="log-prod"),
        Mutant("one zip iterator shared by the kernels of a component", TR,
               "            for kernel in self.xkernels:\n                rxn_cov = 0\n                for sysid, count in zip(rxn[\"structs\"], rxn[\"counts\"]):",
               "            terms = zip(rxn[\"structs\"], rxn[\"counts\"])\n            for kernel in self.xkernels:\n                rxn_cov = 0\n                for sysid, count in terms:",
               expect="pairing"),
        Mutant("Kmm served from the normalised selection matrix", DK, fn=_seed_kmm_sel, expect="cache-source"),
        Mutant("noise block snapshot before the rescaling", TR, fn=_seed_snapshot, expect="fit-snapshot"),
        Mutant("noise not squared", TR, "        noise_nn = noise_nn**2  # get noise covariance from noise std deviation\n", "",
               expect="fit-system"),
        Mutant("noise squared twice", TR, "K = Knmimn + np.diag(noise_nn)", "K = Knmimn + np.diag(noise_nn**2)",
               expect="fit-system"),
        Mutant("covariance overwritten per kernel", TR, "Knmimn += Kmn.T.dot(Kimn)", "Knmimn = Kmn.T.dot(Kimn)",
               expect="fit-system"),
        Mutant("fit only exchange kernels", TR, "        for kernel in self.kernels:\n            Kmm = kernel.get_kctrl()",
               "        for kernel in self.xkernels:\n            Kmm = kernel.get_kctrl()", expect="fit-system"),
        Mutant("regulariser is default_noise", TR, "K += self.numerical_epsilon * np.identity(noise_nn.size)",
               "K += self.default_noise * np.identity(noise_nn.size)", expect="fit-system"),
        Mutant("numerical_epsilon large", TR, "self.numerical_epsilon = 1e-9", "self.numerical_epsilon = 1e-2",
               expect="fit-system"),
        Mutant("diag noise dropped from K", TR, "K = Knmimn + np.diag(noise_nn)", "K = Knmimn + 0 * np.diag(noise_nn)",
               expect="fit-system"),
        Mutant("labels from another list", TR, "y = np.array(self.rxn_ref_list)", "y = np.array(self.rxn_noise_list)",
               expect="fit-system"),
    ]


if __name__ == "__main__":
    sys.exit(core.main(PROP, analyse, mutants, __doc__))
