#!/bin/bash
# usage: verify.sh <n>   -- demo on HEAD (expect non-zero), apply fix.diff, demo (expect 0), pinned suite, revert
n=$1
cd /tmp/hunt/H4 || exit 1
export PYTHONPATH=/tmp/hunt/H4
echo "== demo on unmodified HEAD"
(cd hunt_out/$n && /venv/bin/python demo.py > /tmp/hunt_demo_$n.before.log 2>&1; echo "exit code: $?"; tail -3 /tmp/hunt_demo_$n.before.log)
if [ -f hunt_out/$n/fix.diff ]; then
  git apply hunt_out/$n/fix.diff || exit 1
  echo "== demo with fix.diff applied"
  (cd hunt_out/$n && /venv/bin/python demo.py > /tmp/hunt_demo_$n.after.log 2>&1; echo "exit code: $?"; tail -3 /tmp/hunt_demo_$n.after.log)
  echo "== pinned suite with fix.diff applied"
  /venv/bin/python -m pytest -q -p no:cacheprovider --timeout=900 --continue-on-collection-errors 2>&1 | tail -1
  git apply -R hunt_out/$n/fix.diff
fi
echo "== git status (tracked files)"
git status --short | grep -v '^??'
echo "(end)"
