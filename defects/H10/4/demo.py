"""C19 demo: CiderGrids does not contain the points/weights of the PySCF grid with
the same settings when (a) atom_grid uses the 'default' key that PySCF's
gen_atomic_grids honours, or (b) the molecule contains a ghost atom (PySCF sizes
the ghost's atomic grid by the element, gen_atomic_grids_cider by charge 0)."""
import os
import sys

sys.path.insert(0, os.path.dirname(os.path.abspath(__file__)))
import cider_env  # noqa: E402

cider_env.install()

import numpy as np  # noqa: E402
import pyscf  # noqa: E402
from pyscf import dft, gto  # noqa: E402

from ciderpress.pyscf.gen_cider_grid import CiderGrids  # noqa: E402

print("PySCF version", pyscf.__version__)
fails = 0


def as_sorted_rows(g):
    a = np.hstack([g.coords, g.weights[:, None]])
    a = a[g.weights != 0]  # drop padding
    return a[np.lexsort(a.T[::-1])]


def compare(tag, mol, **attrs):
    global fails
    g0 = dft.Grids(mol)
    g1 = CiderGrids(mol, lmax=6)
    for k, v in attrs.items():
        setattr(g0, k, v)
        setattr(g1, k, v)
    g0.build()
    g1.build()
    a0, a1 = as_sorted_rows(g0), as_sorted_rows(g1)
    same = a0.shape == a1.shape and np.allclose(a0, a1, rtol=1e-12, atol=1e-12)
    n0 = dft.numint.eval_rho  # noqa: F841
    print("%-34s PySCF: %6d pts, sum w = %.6f | CIDER: %6d pts, sum w = %.6f -> %s" % (
        tag, a0.shape[0], a0[:, 3].sum(), a1.shape[0], a1[:, 3].sum(),
        "same" if same else "DIFFERENT"))
    # the index map itself must stay self-consistent in any case
    ind = g1.grids_indexer
    n = ind.idx_map.size
    assert np.array_equal(ind.all_weights[ind.idx_map], g1.weights[:n])
    if not same:
        fails += 1


h2o = gto.M(atom="O 0 0 0; H 0 0.757 0.587; H 0 -0.757 0.587", basis="sto-3g", verbose=0)
compare("control: level=1", h2o, level=1)
compare("control: atom_grid=(20,50)", h2o, atom_grid=(20, 50))
compare("control: atom_grid={'O':(20,50)}", h2o, atom_grid={"O": (20, 50)}, level=1)
compare("atom_grid={'default':(20,50)}", h2o, atom_grid={"default": (20, 50)}, level=1)
compare("atom_grid={'O':..,'default':..}", h2o,
        atom_grid={"O": (25, 86), "default": (20, 50)}, level=1)
ghost = gto.M(atom="O 0 0 0; H 0 0.757 0.587; ghost-O 0 0 2.8", basis="sto-3g",
              verbose=0, spin=1)
compare("ghost-O atom, level=1", ghost, level=1)

print("failures:", fails)
sys.exit(1 if fails else 0)
