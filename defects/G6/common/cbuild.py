"""Helper: compile selected C sources of ciderpress into a private shared
library and hand it to the real Python wrappers via a patched load_library."""
import ctypes
import os
import subprocess
import sys
import tempfile
from unittest import mock

import numpy
import numpy.ctypeslib


def build(sources, name="libmcider_hunt", extra=()):
    import ciderpress

    root = os.path.dirname(ciderpress.__file__)
    srcs = [os.path.join(root, "lib", s) for s in sources]
    outdir = tempfile.mkdtemp(prefix="hunt_lib_")
    out = os.path.join(outdir, name + ".so")
    cmd = ["gcc", "-O2", "-fopenmp", "-shared", "-fPIC", "-std=gnu99", "-o", out]
    cmd += srcs + list(extra) + ["-lm"]
    subprocess.check_call(cmd)
    return ctypes.CDLL(out)


def patch_loader(real_lib, names=("libmcider",)):
    orig = numpy.ctypeslib.load_library

    def fake(libname, path):
        if libname in names:
            return real_lib
        return mock.MagicMock()

    numpy.ctypeslib.load_library = fake
    return orig
