"""
Demo: FracLaplPlan._cache_ld_vectors caches the F^d (l=1 "d") vectors with a loop
over settings.nk1 instead of settings.nd1 (copy of its twin _cache_l1_vectors).
Whenever nd1 != nk1 the cached list is mis-aligned:

  * nd1 > nk1 > 0 : ld vector #nk1.. are never cached, index nk1 silently
                    resolves to the density gradient -> wrong feature values and a
                    potential (get_vxc) that is NOT the transpose of the
                    Jacobian of get_feat;
  * nk1 = 0 < nd1 : IndexError (or again the density gradient for index 0).

Checks, for random input data and the documented definition

    fl_feat[nk0 + len(l1_dots) + i] = sum_x fl_rho[nstart+3j+x] * fl_rho[nstart+3k+x],
    nstart = nk0 + 3*nk1, (j, k) = ld_dots[i], -1 = density gradient

  (1) get_feat against the definition,
  (2) <c, J d> from finite differences of get_feat against <J^T c, d> from get_vxc.

Run:  PYTHONPATH=/tmp/hunt/H5 /venv/bin/python demo.py
"""
import sys

import cider_build  # noqa: F401  (plans.py loads libmcider at import)
import numpy as np

from ciderpress.dft.plans import FracLaplPlan
from ciderpress.dft.settings import FracLaplSettings

rng = np.random.default_rng(0)
ng = 13
failed = False


def reference_feat(st, rho):
    nsl = 5
    nk0, nk1, nd1, ndd = st.nk0, st.nk1, st.nd1, st.ndd
    fl = rho[:, nsl:]
    drho = rho[:, 1:4]
    feat = np.empty((rho.shape[0], st.nfeat, rho.shape[2]))
    feat[:, :nk0] = fl[:, :nk0]

    def vec(start, j):
        return drho if j == -1 else fl[:, start + 3 * j : start + 3 * j + 3]

    n = nk0
    for j, k in st.l1_dots:
        feat[:, n] = np.einsum("sxg,sxg->sg", vec(nk0, j), vec(nk0, k))
        n += 1
    nstart = nk0 + 3 * nk1
    for j, k in st.ld_dots:
        feat[:, n] = np.einsum("sxg,sxg->sg", vec(nstart, j), vec(nstart, k))
        n += 1
    for i in range(ndd):
        feat[:, n + i] = fl[:, nstart + 3 * nd1 + i]
    return feat


for nk0, nk1, nd1, ndd in [(2, 2, 2, 1), (2, 1, 2, 2), (1, 0, 1, 0)]:
    l1 = [(j, k) for j in range(-1, nk1) for k in range(max(j, 0), nk1)]
    ld = [(j, k) for j in range(-1, nd1) for k in range(max(j, 0), nd1)]
    st = FracLaplSettings([-1.0, -0.5, 0.5], nk0, nk1, l1, nd1=nd1, ld_dots=ld, ndd=ndd)
    for nspin in [1, 2]:
        label = "nk0=%d nk1=%d nd1=%d ndd=%d nspin=%d" % (nk0, nk1, nd1, ndd, nspin)
        plan = FracLaplPlan(st, nspin)
        rho = rng.normal(size=(nspin, 5 + st.nrho, ng))
        d = rng.normal(size=rho.shape)
        try:
            feat = plan.get_feat(rho).copy()
            c = rng.normal(size=feat.shape)
            v = plan.get_vxc(c)
        except Exception as e:  # noqa
            print(label, ": EXCEPTION %s: %s   (expected: features)" % (type(e).__name__, e))
            failed = True
            continue
        ref = reference_feat(st, rho)
        err_def = np.abs(feat - ref).max()
        h = 1e-6
        fd = np.sum(c * (plan.get_feat(rho + h * d) - plan.get_feat(rho - h * d))) / (2 * h)
        an = np.sum(v * d)
        err_t = abs(fd - an) / abs(fd)
        ok = err_def < 1e-12 and err_t < 1e-7
        print(
            label,
            ": max|feat - definition| = %.2e (expected 0),  <c,J d> fd=% .8e  <J^T c,d> get_vxc=% .8e  rel.diff=%.1e (expected <1e-7) %s"
            % (err_def, fd, an, err_t, "" if ok else " --> MISMATCH")
        )
        failed = failed or not ok

if failed:
    print("FAIL")
    sys.exit(1)
print("OK")
