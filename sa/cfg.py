"""Statement-level control-flow graph for one Python function, dominators,
must-pass-through queries, and syntactic path conditions.

Nodes are ast statements (compound statements are represented by their
header: the `if`/`while` test, the `for` iterator, the `with` items).  Three
synthetic nodes: ENTRY, EXIT (normal return / fall off the end), RAISE
(exceptional exit by an explicit `raise` or failing `assert`).
Implicit exceptions of arbitrary expressions are modelled only inside `try`
bodies (any statement of the body may transfer to each handler).
"""
import ast


class Node:
    __slots__ = ("id", "kind", "ast", "label")

    def __init__(self, id, kind, node=None, label=""):
        self.id = id
        self.kind = kind  # 'entry','exit','raise','stmt','test','iter','with','handler'
        self.ast = node
        self.label = label

    def __repr__(self):
        if self.ast is not None:
            return "<%s %s L%s>" % (self.kind, type(self.ast).__name__, getattr(self.ast, "lineno", "?"))
        return "<%s>" % self.kind


class CFG:
    def __init__(self, func):
        self.func = func
        self.nodes = []
        self.succ = {}
        self.pred = {}
        self.edge_label = {}
        self.entry = self._new("entry")
        self.exit = self._new("exit")
        self.raise_exit = self._new("raise")
        self._loops = []  # (continue target id, break collector list)
        self._handlers = []  # stack of lists of handler entry ids
        self._finally = []
        self.by_ast = {}
        outs = self._block(func.body, [(self.entry.id, None)])
        for o in outs:
            self._edge(o, self.exit.id)

    # -- construction -------------------------------------------------------
    def _new(self, kind, node=None):
        n = Node(len(self.nodes), kind, node)
        self.nodes.append(n)
        self.succ[n.id] = set()
        self.pred[n.id] = set()
        if node is not None and kind != "handler":
            self.by_ast.setdefault(id(node), n)
        return n

    def _edge(self, frm, to):
        u, lab = frm if isinstance(frm, tuple) else (frm, None)
        self.succ[u].add(to)
        self.pred[to].add(u)
        if lab is not None:
            self.edge_label[(u, to)] = lab

    def _connect(self, preds, to):
        for p in preds:
            self._edge(p, to)

    def _may_raise_to_handlers(self, nid):
        if self._handlers:
            for h in self._handlers[-1]:
                self._edge(nid, h)

    def _block(self, stmts, preds):
        for st in stmts:
            preds = self._stmt(st, preds)
        return preds

    def _stmt(self, st, preds):
        if isinstance(st, ast.If):
            t = self._new("test", st)
            self._connect(preds, t.id)
            self._may_raise_to_handlers(t.id)
            a = self._block(st.body, [(t.id, "T")])
            b = self._block(st.orelse, [(t.id, "F")]) if st.orelse else [(t.id, "F")]
            return a + b
        if isinstance(st, (ast.For, ast.AsyncFor)):
            t = self._new("iter", st)
            self._connect(preds, t.id)
            self._may_raise_to_handlers(t.id)
            brk = []
            self._loops.append((t.id, brk))
            body_out = self._block(st.body, [(t.id, "T")])
            self._loops.pop()
            self._connect(body_out, t.id)
            els = self._block(st.orelse, [(t.id, "F")]) if st.orelse else [(t.id, "F")]
            return els + brk
        if isinstance(st, ast.While):
            t = self._new("test", st)
            self._connect(preds, t.id)
            brk = []
            self._loops.append((t.id, brk))
            body_out = self._block(st.body, [(t.id, "T")])
            self._loops.pop()
            self._connect(body_out, t.id)
            infinite = isinstance(st.test, ast.Constant) and bool(st.test.value)
            els = [] if infinite else (
                self._block(st.orelse, [(t.id, "F")]) if st.orelse else [(t.id, "F")])
            return els + brk
        if isinstance(st, (ast.With, ast.AsyncWith)):
            t = self._new("with", st)
            self._connect(preds, t.id)
            self._may_raise_to_handlers(t.id)
            return self._block(st.body, [(t.id, None)])
        if isinstance(st, ast.Try) or type(st).__name__ == "TryStar":
            hs = []
            for h in st.handlers:
                hn = self._new("handler", h)
                hs.append(hn)
            self._handlers.append([h.id for h in hs])
            head = self._new("stmt", st)  # try header (no-op)
            self._connect(preds, head.id)
            body_out = self._block(st.body, [(head.id, None)])
            self._handlers.pop()
            if st.orelse:
                body_out = self._block(st.orelse, body_out)
            outs = list(body_out)
            for hn, h in zip(hs, st.handlers):
                outs += self._block(h.body, [(hn.id, None)])
            if st.finalbody:
                outs = self._block(st.finalbody, outs)
            return outs
        # simple statements
        n = self._new("stmt", st)
        self._connect(preds, n.id)
        if isinstance(st, ast.Return):
            self._edge(n.id, self.exit.id)
            return []
        if isinstance(st, ast.Raise):
            if self._handlers:
                self._may_raise_to_handlers(n.id)
            else:
                self._edge(n.id, self.raise_exit.id)
            return []
        if isinstance(st, ast.Break):
            if self._loops:
                self._loops[-1][1].append((n.id, None))
            return []
        if isinstance(st, ast.Continue):
            if self._loops:
                self._edge(n.id, self._loops[-1][0])
            return []
        if isinstance(st, ast.Assert):
            if self._handlers:
                self._may_raise_to_handlers(n.id)
            else:
                self._edge(n.id, self.raise_exit.id)
            return [(n.id, None)]
        self._may_raise_to_handlers(n.id)
        return [(n.id, None)]

    # -- queries ------------------------------------------------------------
    def node_of(self, stmt):
        return self.by_ast.get(id(stmt))

    def stmt_of_expr(self, expr):
        """CFG node whose statement/header contains the expression."""
        n = expr
        while n is not None:
            if id(n) in self.by_ast:
                cn = self.by_ast[id(n)]
                # an expression inside the body of a compound statement belongs
                # to an inner simple statement, found earlier on the way up
                return cn
            n = getattr(n, "_parent", None)
        return None

    def reachable(self, start, blocked=()):
        blocked = set(blocked)
        seen = set()
        todo = [start]
        while todo:
            u = todo.pop()
            if u in seen or u in blocked:
                continue
            seen.add(u)
            todo.extend(self.succ[u])
        return seen

    def must_pass(self, pred_fn, src=None, dst=None):
        """True iff every path src->dst contains a node with pred_fn(node).
        Returns (bool, witness_node_ids_on_a_bypassing_path or None)."""
        src = self.entry.id if src is None else src
        dst = self.exit.id if dst is None else dst
        blocked = {n.id for n in self.nodes if n.kind not in ("entry",) and n.ast is not None and pred_fn(n)}
        if src in blocked:
            return True, None
        # BFS with parents for a witness
        par = {src: None}
        todo = [src]
        while todo:
            u = todo.pop(0)
            if u == dst:
                path = []
                while u is not None:
                    path.append(u)
                    u = par[u]
                return False, list(reversed(path))
            for v in self.succ[u]:
                if v not in par and v not in blocked:
                    par[v] = u
                    todo.append(v)
        return True, None

    def dominators(self):
        """dict node id -> set of dominator ids (iterative)."""
        reach = self.reachable(self.entry.id)
        order = sorted(reach)
        dom = {n: set(order) for n in order}
        dom[self.entry.id] = {self.entry.id}
        changed = True
        while changed:
            changed = False
            for n in order:
                if n == self.entry.id:
                    continue
                ps = [p for p in self.pred[n] if p in reach]
                new = set.intersection(*(dom[p] for p in ps)) if ps else set()
                new = new | {n}
                if new != dom[n]:
                    dom[n] = new
                    changed = True
        return dom

    def dominates(self, a, b, _cache={}):
        key = id(self)
        if key not in _cache:
            _cache.clear()
            _cache[key] = self.dominators()
        return a in _cache[key].get(b, ())


# ----------------------------------------------------------------------------
# syntactic path conditions
# ----------------------------------------------------------------------------
def _terminates(stmts):
    """The block always leaves the enclosing block (return/raise/continue/break)."""
    if not stmts:
        return False
    last = stmts[-1]
    if isinstance(last, (ast.Return, ast.Raise, ast.Continue, ast.Break)):
        return True
    if isinstance(last, ast.If) and last.orelse:
        return _terminates(last.body) and _terminates(last.orelse)
    return False


def _raises(stmts):
    if not stmts:
        return False
    last = stmts[-1]
    if isinstance(last, ast.Raise):
        return True
    if isinstance(last, ast.If) and last.orelse:
        return _raises(last.body) and _raises(last.orelse)
    return False


def conditions_at(node, stop=None):
    """Conditions known to hold when control reaches `node`, derived from the
    syntax tree only: tests of enclosing if/while bodies (with polarity),
    and for every enclosing block, earlier siblings of the form
    `if c: <always leaves>` (¬c), `if c: ... else: <always leaves>` (c) and
    `assert c` (c).  Returns list of (test_ast, polarity, kind) with kind in
    {'enclosing','early-exit','assert'}.  Does not cross function boundaries.
    Conditions on names that are re-assigned in between are the caller's
    responsibility (the repo's guard idioms test parameters / settings)."""
    out = []
    child = node
    par = getattr(child, "_parent", None)
    while par is not None and par is not stop:
        if isinstance(par, (ast.FunctionDef, ast.AsyncFunctionDef, ast.Lambda, ast.ClassDef)):
            if isinstance(par, ast.ClassDef):
                break
            body = par.body if not isinstance(par, ast.Lambda) else []
            _siblings(body, child, out)
            break
        if isinstance(par, (ast.If, ast.While)):
            if _in(child, par.body):
                out.append((par.test, True, "enclosing"))
                _siblings(par.body, child, out)
            elif _in(child, par.orelse):
                if isinstance(par, ast.If):
                    out.append((par.test, False, "enclosing"))
                _siblings(par.orelse, child, out)
        elif isinstance(par, (ast.For, ast.AsyncFor, ast.With, ast.AsyncWith)):
            if _in(child, par.body):
                _siblings(par.body, child, out)
            elif hasattr(par, "orelse") and _in(child, par.orelse):
                _siblings(par.orelse, child, out)
        elif isinstance(par, ast.Try):
            for blk in (par.body, par.orelse, par.finalbody):
                if _in(child, blk):
                    _siblings(blk, child, out)
        elif isinstance(par, ast.ExceptHandler):
            if _in(child, par.body):
                _siblings(par.body, child, out)
        elif isinstance(par, ast.IfExp):
            if child is par.body:
                out.append((par.test, True, "enclosing"))
            elif child is par.orelse:
                out.append((par.test, False, "enclosing"))
        elif isinstance(par, ast.BoolOp) and isinstance(par.op, ast.And):
            idx = par.values.index(child) if child in par.values else -1
            for v in par.values[: max(idx, 0)]:
                out.append((v, True, "enclosing"))
        child = par
        par = getattr(child, "_parent", None)
    return out


def _in(child, block):
    return any(child is s for s in block)


def _siblings(block, child, out):
    for s in block:
        if s is child:
            break
        if isinstance(s, ast.If):
            if _terminates(s.body) and not s.orelse:
                out.append((s.test, False, "early-exit"))
            elif s.orelse and _terminates(s.orelse) and not _terminates(s.body):
                out.append((s.test, True, "early-exit"))
            elif s.orelse and _terminates(s.body) and not _terminates(s.orelse):
                out.append((s.test, False, "early-exit"))
        elif isinstance(s, ast.Assert):
            out.append((s.test, True, "assert"))
