"""C16: MOLGP2 (the trainer for DFTKernel2 / libxc baselines) cannot process orbital
occupation derivative ("eigenvalue") training data at all.

MOLGP2._compute_mol_covs with derivative data fails for every input:
  * NPOL mode:  `dkdX0T[:, s, cond[s], :] = 0.0` indexes the FEATURE axis (N0) of
    dkdX0T (Nctrl, nspin, N0, Nsamp) with the per-sample low-density mask
    -> IndexError   (the SEP branch and MOLGP use dkdX0T[:, s][:, :, cond[s]])
  * SEP mode:   `drho_data[orb][:, i0:i1]`: drho_data[orb] is the tuple (spin, array)
    produced by strk_to_tuplek (it is unpacked as such eight lines above)
    -> TypeError
  * and, hidden behind these, the baseline derivative is accumulated as
    `np.dot(da * drho_tmp, wt)`: all spins instead of da[s], weighted twice, and not a
    scalar.
So with DFTKernel2 kernels no reaction list containing (system, orbital) entries can be
trained, although store_mol_covs / add_reactions document them.

Expected: store_mol_covs works, and the stored derivative covariances / baselines are the
directional derivatives of the stored energy covariances / baselines (checked by central
finite differences of the feature vector and density along the orbital perturbation);
then fit() solves the documented linear system including the eigenvalue reaction.
"""
import contextlib
import io
import os
import sys
import tempfile

HERE = os.path.dirname(os.path.abspath(__file__))
sys.path.insert(0, os.path.join(HERE, "..", "common"))
os.environ.setdefault("OMP_NUM_THREADS", "1")
import cider_env

cider_env.install(need_c=True)  # libxc baselines are needed

import numpy as np
from pyscf.lib import chkfile

from ciderpress.dft.settings import FeatureSettings, SemilocalSettings
from ciderpress.dft.transform_data import FeatureList, UMap
from ciderpress.models.dft_kernel import DFTKernel2
from ciderpress.models.kernels import DiffRBF
from ciderpress.models.train import MOLGP2

rng = np.random.default_rng(1)


def make_X(n, nspin):
    X = np.empty((nspin, 3, n))
    X[:, 0] = rng.uniform(0.05, 2.0, (nspin, n))
    X[:, 1] = rng.uniform(0.0, 3.0, (nspin, n))
    X[:, 2] = rng.uniform(0.0, 3.0, (nspin, n))
    return X


def run(mode, nspin, spin):
    settings = FeatureSettings(sl_settings=SemilocalSettings("npa"))
    flist = FeatureList([UMap(1, 0.3), UMap(2, 0.5)])
    kern = DFTKernel2(DiffRBF(length_scale=np.array([0.4, 0.6])), flist, mode,
                      "LDA_X", "GGA_C_PBE", component="x")
    gp = MOLGP2([kern], settings, default_noise=0.01)
    gp.set_control_points([make_X(30, nspin)], reduce=False)
    tmp = tempfile.mkdtemp()
    ddir = {"REF": os.path.join(tmp, "REF"), "SL": os.path.join(tmp, "SL"),
            "NLDF": None, "NLOF": None, "SDMX": None, "HYB": None}
    os.makedirs(ddir["REF"])
    os.makedirs(ddir["SL"])
    n = 40
    X, wt = make_X(n, nspin), rng.uniform(0.1, 1.0, n)
    rho = rng.normal(size=(nspin, 5, n)) * 0.3
    rho[:, 0] = np.abs(rho[:, 0]) + 0.2
    rho[:, 4] = np.abs(rho[:, 4]) + 0.5
    D, dr = rng.normal(size=(3, n)), rng.normal(size=(5, n))  # d desc / d f, d rho / d f
    val = -rng.uniform(0.1, 1, n)

    def write(mid, X, rho, deriv):
        ref = {"wt": wt, "val": val, "e_tot_orig": -1.0, "exc_orig": -0.3,
               "nspin": nspin, "rho_data": rho}
        sl = {"desc": X}
        if deriv:
            ref["dval"] = {"O": {"0": -0.4}}
            ref["drho_data"] = {"O": {"0": dr.copy() if nspin == 1 else [spin, dr.copy()]}}
            sl["ddesc"] = {"O": {"0": D if nspin == 1 else [spin, D]}}
        chkfile.save(os.path.join(ddir["REF"], mid + ".hdf5"), "train_data", ref)
        chkfile.save(os.path.join(ddir["SL"], mid + ".hdf5"), "train_data", sl)

    eps = 1e-5
    Xp, Xm, rp, rm = X.copy(), X.copy(), rho.copy(), rho.copy()
    Xp[spin] += eps * D
    Xm[spin] -= eps * D
    rp[spin] += eps * dr
    rm[spin] -= eps * dr
    write("A", X, rho, True)
    write("P", Xp, rp, False)
    write("M", Xm, rm, False)
    with contextlib.redirect_stdout(io.StringIO()):
        gp.store_mol_covs(ddir, ["P"])
        gp.store_mol_covs(ddir, ["M"])
        gp.store_mol_covs(ddir, ["A"])  # system with orbital derivative data
    fd = (kern.cov_dict["P"] - kern.cov_dict["M"]) / (2 * eps)
    an = kern.dcov_dict["A"][("O", 0)]
    fdb = (kern.base_dict["P"] - kern.base_dict["M"]) / (2 * eps)
    anb = kern.dbase_dict["A"][("O", 0)]
    err = np.abs(fd - an).max() / np.abs(fd).max()
    errb = abs(fdb - anb) / abs(fdb)
    # and the GP with an eigenvalue reaction
    gp.add_reactions([(0, {"structs": ["A"], "counts": [1]}),
                      (0, {"structs": [("A", ("O", 0))], "counts": [1]})])
    gp.fit()
    y, s = np.array(gp.rxn_ref_list), np.array(gp.rxn_noise_list)
    Kmm, Kmn = kern.get_kctrl(), np.stack(kern.rxn_cov_list).T
    e = gp.numerical_epsilon
    Kimn = np.linalg.solve(Kmm + e * np.eye(len(Kmm)), Kmn)
    alpha = Kimn @ np.linalg.solve(Kmn.T @ Kimn + np.diag(s**2) + e * np.eye(2), y)
    aerr = np.abs(alpha - kern.alpha).max() / np.abs(alpha).max()
    print("%-4s nspin=%d spin=%d: dcov vs FD rel.err %.1e | dbaseline FD %.8f analytic %.8f | "
          "alpha rel.err %.1e" % (mode, nspin, spin, err, fdb, anb, aerr))
    return err < 1e-6 and errb < 1e-6 and aerr < 1e-4  # K_mm is ill-conditioned


ok = True
for mode in ["SEP", "NPOL"]:
    for nspin, spin in [(1, 0), (2, 0), (2, 1)]:
        try:
            ok = run(mode, nspin, spin) and ok
        except Exception as e:
            import traceback

            tb = traceback.extract_tb(e.__traceback__)[-1]
            print("%-4s nspin=%d spin=%d: store_mol_covs raised %s: %s\n        at train.py:%d  %s"
                  % (mode, nspin, spin, type(e).__name__, e, tb.lineno, tb.line))
            ok = False
print("expected: no exception; dcov, dbaseline rel. errors ~1e-9; alpha ~1e-6 (conditioning of K_mm)")
sys.exit(0 if ok else 1)
