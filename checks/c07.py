#!/usr/bin/env python3
"""C07 -- spin-polarised vs unpolarised agreement.  The spin relation E[n_up, n_dn] = 1/2 sum_s E[2 n_s]
forces every explicit nspin factor to be nspin**d with d the density-amplitude degree of the quantity it
multiplies.  Static rules (DESIGN.md §C07), decided with the E-deg interpreter (sa/deg.py) typed with the
symbols c (amplitude: rho 1, sigma 2, tau 1, grad 1), N (nspin), e (energy density), occ (orbital derivative):

 pair      forward/backward pairing: with vfeat[k] typed e - type(feat[k]) taken from the *analysed forward
           code*, every term added into the potential has N-degree 0 (SemilocalPlan, SemilocalPlan2,
           _fill_occd_*, NLDF eval_rho_full/eval_vxc_full incl. l=1 dots, SDMX get_features/get_vxc of every
           plan class, baseline value/derivative pairs)
 amp       the nspin exponent of each feature row equals its amplitude degree (semilocal rows, NLDF rows,
           SDMX rows, ModelWithNormalizer's rho/sigma/tau, rhocut / nspin, SEP baselines m / nspin)
 expnt     get_cider_exponent{,_gga}: the nspin=2 branch equals the nspin=1 branch evaluated at
           (2 rho, 4 sigma, 2 tau), term by term (literal 2**p typed as a symbol; two runs compared per '+')
 sep2      KernelEvalBase2 baseline path (SEP): each ingredient of a spin channel is doubled as 2**deg and the
           outputs are rescaled by 1/2 * 2**deg
 spin-mirror  get_sigma / get_dsigma (GGA correlation baseline): values stored into spin slot b are the a<->b
           mirror of those stored into slot a (sign flip for odd functions of zeta), the ab slot is invariant
 c-spin-mirror  model_utils.c kernels with paired spin pointers: stores (helpers inlined) invariant under a<->b
 spin-layout  baselines.py: per-spin arrays handed to one libxc call all pass through the same layout normalisation
 reg-twin  absolute additive regularisers reached by get_s2/get_alpha are reached by ds2/dalpha too
 nspin-forward  calls of functions with an `nspin` parameter reached from a plan bind it to the plan's nspin
 cutoff    every comparison of a density with the user's low-density cutoff, on the NLDF exponent chain and in the
           kernel evaluators, is equivalent to `total density < cutoff` (nspin-degree bookkeeping along the chain)
 sites     every arithmetic use of nspin in the anchored files is enumerated; each must lie in a function
           covered by one of the typed analyses above (floor on the count, ceiling on uncovered sites)
 ab-sym    nr_uks*: statements mentioning one spin channel have a sibling with the channels renamed
Not decided: the end-to-end equalities of energies / potentials, the C side (model_utils.c), force_polarize.
"""
import ast
import os
import sys
from fractions import Fraction

sys.path.insert(0, os.path.dirname(os.path.dirname(os.path.abspath(__file__))))
from sa import core, deg, pyfacts as pf  # noqa: E402
from sa.pyfacts import clone as _ast_clone  # noqa: E402
from sa.deg import ANY, D0, Deg, K, Lin, Map, Q, Tup, Unk, fmt, lst, num, rows, sym  # noqa: E402
from sa.selftest import Mutant  # noqa: E402

PROP = "C07"
ST = "ciderpress/dft/settings.py"
FN = "ciderpress/dft/feat_normalizer.py"
PL = "ciderpress/dft/plans.py"
BL = "ciderpress/dft/baselines.py"
XE = "ciderpress/dft/xc_evaluator.py"
XE2 = "ciderpress/dft/xc_evaluator2.py"
LG = "ciderpress/dft/lcao_nldf_generator.py"
NI = "ciderpress/pyscf/numint.py"
SITE_FILES = [PL, ST, BL, XE, XE2, LG]
UNKNOWN_CEILING = 40


def q(**kw):
    return Q(Deg.of(**kw))


NSPIN = q(N=1)
E1 = Deg.of(e=1)


def comp(v, symb):
    if isinstance(v, Q) and not v.is_rows and v.deg is not ANY:
        return v.deg.get(symb)
    return None


# ---- stubs for the C-backed interpolation helpers of the NLDF plan (typed, frozen) ------------------------
STUBS = {
    "self.get_interpolation_arguments": lambda eng, n, a, k, env: Tup([q(), Tup([q(c=-1), q(c=-2), q(c=-1)])]),
    "self.get_interpolation_coefficients": lambda eng, n, a, k, env: Tup([q(), q()]),
    "self.get_transformed_interpolation_terms": lambda eng, n, a, k, env: K(None),
    "self.empty_coefs": lambda eng, n, a, k, env: Q(ANY),
    "self.zero_coefs_full": lambda eng, n, a, k, env: Q(ANY),
}


class PlanHooks(deg.ProgramHooks):
    def branch(self, eng, test, env):
        """tests on the (symbolic) number of spin channels are decided for the polarised case nspin = 2"""
        if isinstance(test, ast.Compare) and len(test.ops) == 1:
            a, b = eng.eval_expr(test.left, env), eng.eval_expr(test.comparators[0], env)
            for x, y, flip in ((a, b, False), (b, a, True)):
                if isinstance(x, Q) and not x.is_rows and x.deg is not ANY and x.num is None \
                        and x.deg == Deg.of(N=1) and eng.num_of(y) is not None:
                    l, r = (2, eng.num_of(y)) if not flip else (eng.num_of(y), 2)
                    op = test.ops[0]
                    table = {ast.Eq: l == r, ast.NotEq: l != r, ast.Lt: l < r, ast.LtE: l <= r, ast.Gt: l > r,
                             ast.GtE: l >= r}
                    return table.get(type(op))
        return None

    def resolve_call(self, eng, node, env):
        if deg._dotted(node.func) in STUBS:
            return None
        return super().resolve_call(eng, node, env)


class TwoHooks(deg.ProgramHooks):
    """literal 2 ** p is the symbol T**p (spin-doubling constant)"""

    def power(self, eng, node, base, exp, env):
        if isinstance(node.left, ast.Constant) and node.left.value in (2, 2.0) and isinstance(exp, Q) \
                and exp.num is not None:
            return Q(Deg({"T": exp.num}))
        return None


class Ctx:
    def __init__(self, chk):
        self.chk = chk
        self.s = deg.Session(chk.tree, [ST, FN, PL, BL, XE, XE2], calls=STUBS, hooks_cls=PlanHooks)
        self.reported = set()
        self.extra_visited = set()
        self.nc = 0

    def visited(self):
        return set(self.s.eng.visited) | self.extra_visited

    def flush(self, res, where, default_rule="pair"):
        chk = self.chk
        for m in res.mismatches:
            rule = default_rule
            if isinstance(m.left, Deg) and isinstance(m.right, Deg):
                diff = {k for k in set(m.left.d) | set(m.right.d) if m.left.get(k) != m.right.get(k)}
                rule = "pair" if "N" in diff else "amp"
            chk.violation(rule, m.rel, m.func, m.stmt, m.line,
                          "terms of different degree are combined (%s) while analysing %s: %s vs %s in `%s`%s" % (
                              m.kind, where, m.left, m.right, m.text,
                              "; the nspin exponents of forward and backward code do not pair" if rule == "pair" else ""))
        for u in res.unknowns:
            self.nc += 1
            chk.count("not-comparable sites")
            if len(chk.notes) < 30:
                chk.note(default_rule, "%s:%s" % (u[0], u[1]), "not comparable: %s (%s)" % (u[2], u[3]))

    def want(self, rule, res, where, v, symb, expect, what, rel, func, line, why):
        chk = self.chk
        inst = "%s :: %s [%s]" % (where, what, symb)
        g = comp(v, symb)
        if g is None:
            if res is not None and res.mismatches:
                return
            if isinstance(v, Q) and not v.is_rows and v.deg is ANY:
                chk.note(rule, where, "%s is never written (polymorphic)" % what)
            else:
                chk.note(rule, where, "%s not comparable: %s" % (what, fmt(v)))
            self.nc += 1
            chk.count("not-comparable sites")
            return
        expect = expect if isinstance(expect, Lin) else Lin.const(expect)
        if g == expect:
            chk.ok(rule, inst + " = %s" % g)
        else:
            chk.violation(rule, rel, func, what + " of " + where, line,
                          "%s of %s has %s-degree %s, expected %s (%s)" % (what, where, symb, g, expect, why),
                          instance=inst)


def mode_list(s):
    """modes accepted by SemilocalSettings.__init__: operands of its `mode in <list>` tests, resolved through the
    engine (a literal list or a module-level named list alike)"""
    mod = s.prog.module(ST)
    init = mod.func("SemilocalSettings.__init__")
    modes = []
    s.eng.frames.append(deg.Frame(None, mod))
    try:
        for n in ast.walk(init):
            if isinstance(n, ast.Compare) and len(n.ops) == 1 and isinstance(n.ops[0], (ast.In, ast.NotIn)):
                v = s.eng.eval_expr(n.comparators[0], deg.Env())
                for x in (v.items if isinstance(v, Tup) else []):
                    if isinstance(x, K) and isinstance(x.value, str) and x.value not in modes:
                        modes.append(x.value)
    finally:
        s.eng.frames.pop()
    if len(modes) < 2:
        raise core.AnalysisError("SemilocalSettings.__init__: mode membership tests not found")
    return modes


def fline(s, rel, name):
    return s.prog.module(rel).func(name).lineno


# ----------------------------------------------------------------------------------------------------------
def rule_semilocal(chk, cx):
    s = cx.s
    rho5 = lambda: rows(1, {0: q(c=1), 1: q(c=1), 2: q(c=1), 3: q(c=1), 4: q(c=1)})  # noqa: E731
    for mode in mode_list(s):
        st = s.new(ST, "SemilocalSettings", K(mode))
        mgga = isinstance(st.attrs.get("level"), K) and st.attrs["level"].value == "MGGA"
        plan = s.new(PL, "SemilocalPlan", st, NSPIN)
        if not isinstance(plan, deg.Obj):
            raise core.AnalysisError("SemilocalPlan: constructor could not be interpreted")
        where = "SemilocalPlan(mode=%s)" % mode
        fw = s.call(plan, "get_feat", [rho5()])
        cx.flush(fw, where + ".get_feat", "amp")
        feat = fw.value
        if not (isinstance(feat, Q) and feat.is_rows):
            if not fw.mismatches:
                raise core.AnalysisError("%s.get_feat: result is not row-typed (%s)" % (where, fmt(feat)))
            continue
        ln = s.hooks.method_of(plan, "get_feat").fdef.lineno
        for k in sorted(feat.rows):
            r = feat.rows[k]
            c = comp(r, "c")
            if c is None:
                cx.nc += 1
                continue
            cx.want("amp", fw, where, r, "N", c, "feat[:, %d]" % k, PL, "SemilocalPlan.get_feat[mode=%s]" % mode, ln,
                    "nspin exponent must equal the amplitude degree of the row")
        vfeat = rows(1, {k: Q(E1 - v.deg) for k, v in feat.rows.items() if comp(v, "c") is not None})
        # SemilocalPlan.get_vxc
        vxc = rows(1, {})
        bw = s.call(plan, "get_vxc", [rho5(), vfeat, vxc])
        cx.flush(bw, where + ".get_vxc", "pair")
        ln = fline(s, PL, "SemilocalPlan.get_vxc")
        want_rows = [0, 1, 2, 3] + ([4] if mgga else [])
        for k in want_rows:
            v = vxc.rows.get(k, Q(ANY))
            cx.want("pair", bw, where + ".get_vxc", v, "N", 0, "vxc[:, %d]" % k, PL, "SemilocalPlan.get_vxc[mode=%s]" % mode, ln,
                    "forward rows carry nspin**x, so the chain rule must multiply vfeat by nspin**x")
            if comp(v, "c") is not None:
                cx.want("amp", bw, where + ".get_vxc", v, "c", -1, "vxc[:, %d]" % k, PL,
                        "SemilocalPlan.get_vxc[mode=%s]" % mode, ln, "derivative with respect to a degree-1 ingredient")
        # SemilocalPlan2.get_vxc
        plan2 = s.new(PL, "SemilocalPlan2", st, NSPIN)
        vrho, vsigma, vtau = Q(ANY), Q(ANY), Q(ANY)
        b2 = s.call(plan2, "get_vxc", [vfeat, q(c=1), vrho, q(c=2), vsigma, q(c=1) if mgga else K(None),
                                       vtau if mgga else K(None)])
        cx.flush(b2, "SemilocalPlan2(mode=%s).get_vxc" % mode, "pair")
        ln = fline(s, PL, "SemilocalPlan2.get_vxc")
        for nm, v, cdeg in (("vrho", vrho, -1), ("vsigma", vsigma, -2)) + ((("vtau", vtau, -1),) if mgga else ()):
            w2 = "SemilocalPlan2(mode=%s).get_vxc" % mode
            cx.want("pair", b2, w2, v, "N", 0, nm, PL, "SemilocalPlan2.get_vxc", ln,
                    "chain rule through nspin**x-scaled rows")
            if comp(v, "c") is not None:
                cx.want("amp", b2, w2, v, "c", cdeg, nm, PL, "SemilocalPlan2.get_vxc", ln, "derivative degree")
        # occupation derivatives
        oc = s.call(plan2, "get_occd", [q(c=1), q(c=1, occ=1), q(c=2), q(c=2, occ=1)] + (
            [q(c=1), q(c=1, occ=1)] if mgga else [K(None), K(None)]))
        cx.flush(oc, "get_occd(mode=%s)" % mode, "pair")
        vals = deg.items_of(oc.value)
        ln = s.hooks.method_of(plan2, "get_occd").fdef.lineno
        if vals is None or len(vals) != 2 or not all(isinstance(v, Q) and v.is_rows for v in vals):
            if not oc.mismatches:
                raise core.AnalysisError("get_occd(mode=%s): unexpected result %s" % (mode, fmt(oc.value)))
            continue
        f2, od = vals
        for k in sorted(f2.rows):
            fr, orow = f2.rows[k], od.rows.get(k, Q(ANY))
            if comp(fr, "N") is None:
                cx.nc += 1
                continue
            cx.want("pair", oc, "get_occd(mode=%s)" % mode, orow, "N", comp(fr, "N"), "occd[:, %d]" % k, PL,
                    "_BaseSemilocalPlan.get_occd", ln, "occupation derivative carries the same nspin factor as the feature")
            # also the forward rows of this second implementation
            cx.want("amp", oc, "get_occd(mode=%s)" % mode, fr, "N", comp(fr, "c"), "feat[:, %d]" % k, PL,
                    "_BaseSemilocalPlan.get_occd", ln, "nspin exponent must equal the amplitude degree")
    chk.floor("pair", 35, "vxc rows / vrho,vsigma,vtau / occd rows over four modes (+ NLDF, SDMX, baselines)")
    chk.floor("amp", 30, "feature rows over four modes (+ NLDF, SDMX, normaliser inputs)")


def rule_nspin_forward(chk, cx):
    """Every call, reached from a plan object that carries nspin, of a repo function that has an `nspin`
    parameter must bind that parameter to the plan's nspin (directly, positionally or through helpers): a
    callee default `nspin=1` silently evaluates the unpolarised formula on a per-spin density.  Decided by
    interpreting NLDFAuxiliaryPlan.get_function_to_convolve / eval_feat_exp for every rho_mult and level and
    observing the value bound to `nspin` at each such call."""
    s = cx.s
    eng = s.eng
    KS = lambda xs: lst(*[K(x) for x in xs])  # noqa: E731
    sigs = {}
    for rel in (ST, PL):
        for fname, fd in s.prog.module(rel).functions.items():
            ps = [a.arg for a in fd.args.args] + [a.arg for a in fd.args.kwonlyargs]
            if "nspin" in ps:
                sigs[fname] = ps
    if not sigs:
        raise core.AnalysisError("no module-level function with an nspin parameter found")
    seen = []

    def ob(node, name, args, kwargs):
        base = (name or "").split(".")[-1]
        if base in sigs and eng.frames and eng.frames[-1].rel == PL:
            v = kwargs.get("nspin")
            i = sigs[base].index("nspin")
            if v is None and i < len(args):
                v = args[i]
            seen.append((node, base, v, eng.fr.name))
    mults = cx.s.global_value(ST, "ALLOWED_RHO_MULTS")
    mults = [x.value for x in mults.items] if isinstance(mults, Tup) else ["one", "expnt"]
    eng.call_observers.append(ob)
    try:
        for level in ("MGGA", "GGA"):
            th = lst(*[sym("th%d" % i) for i in range(3 if level == "MGGA" else 2)])
            for mult in mults:
                st = s.new(ST, "NLDFSettingsVJ", K(level), th, K(mult), KS(["se"]), lst(th))
                plan = s.new(PL, "NLDFAuxiliaryPlan", st, NSPIN, q(), sym("lambd"), num(4),
                             raise_large_expnt_error=K(False), use_smooth_expnt_cutoff=K(False))
                if not isinstance(plan, deg.Obj):
                    raise core.AnalysisError("NLDFAuxiliaryPlan: constructor could not be interpreted")
                rt = Tup([q(c=1), q(c=2)] + ([q(c=1)] if level == "MGGA" else []))
                s.call(plan, "get_function_to_convolve", [rt])
                s.call(plan, "eval_feat_exp", [rt], {"i": num(0)})
    finally:
        eng.call_observers.remove(ob)
    done = set()
    for node, base, v, fn in seen:
        key = (fn, core.norm_text(pf.src(node))[:120])
        if key in done:
            continue
        done.add(key)
        inst = "%s calls %s with nspin = %s" % (fn, base, fmt(v) if v is not None else "<default>")
        if isinstance(v, Q) and not v.is_rows and v.deg is not ANY and v.deg.get("N") == Lin.const(1):
            chk.ok("nspin-forward", inst)
        else:
            chk.violation("nspin-forward", PL, fn, "call of %s without the plan's nspin" % base, node.lineno,
                          "%s is called from a plan that carries nspin, but its `nspin` parameter is %s: the callee "
                          "evaluates the nspin=1 formula on a per-spin density" % (
                              base, "left at its default" if v is None else "bound to " + fmt(v)), instance=inst)
    if not done:
        raise core.AnalysisError("no call of a function with an nspin parameter was reached from the NLDF plan")
    chk.floor("nspin-forward", 1, "get_cider_exponent / get_cider_exponent_gga from eval_feat_exp")


def rule_nldf(chk, cx):
    s = cx.s
    KS = lambda xs: lst(*[K(x) for x in xs])  # noqa: E731
    pair = lambda a, b: Tup([num(a), num(b)])  # noqa: E731
    for level in ("MGGA", "GGA"):
        th = lst(*[sym("th%d" % i) for i in range(3 if level == "MGGA" else 2)])
        # counts differ from each other: 3 l=0 specs, 2 l=1 specs, 4 dots, 1 version-j feature
        st = s.new(ST, "NLDFSettingsVIJ", K(level), th, K("one"), KS(["se_r2", "se", "se_ap"]), KS(["se_rvec", "se_grad"]),
                   lst(pair(-1, 1), pair(1, 0), pair(-1, -1), pair(0, 0)), KS(["se_ar2"]), lst(th))
        n_l0, num_vj, n_dots = 3, 1, 4
        # the plan's bookkeeping attributes come from its own (abstractly executed) constructor
        plan = s.new(PL, "NLDFAuxiliaryPlan", st, NSPIN, q(), sym("lambd"), num(4), coef_order=K("qg"),
                     raise_large_expnt_error=K(False), use_smooth_expnt_cutoff=K(False))
        if not isinstance(plan, deg.Obj):
            raise core.AnalysisError("NLDFAuxiliaryPlan: constructor could not be interpreted")
        nrow = 5 if level == "MGGA" else 4
        rho_data = rows(0, {i: q(c=1) for i in range(nrow)})
        where = "NLDFAuxiliaryPlan(%s,ij)" % level
        fw = s.call(plan, "eval_rho_full", [q(c=1), rho_data], {"spin": num(0)})
        cx.flush(fw, where + ".eval_rho_full", "amp")
        vals = deg.items_of(fw.value)
        if vals is None or len(vals) != 2 or not (isinstance(vals[0], Q) and vals[0].is_rows):
            if not fw.mismatches:
                raise core.AnalysisError("%s.eval_rho_full: unexpected result %s" % (where, fmt(fw.value)))
            continue
        feat = vals[0]
        ln = fline(s, PL, "NLDFAuxiliaryPlan.eval_rho_full")
        if len(feat.rows) < num_vj + n_l0 + n_dots:
            raise core.AnalysisError("%s.eval_rho_full: only rows %s were written" % (where, sorted(feat.rows)))
        for k in sorted(feat.rows):
            r = feat.rows[k]
            if comp(r, "c") is None:
                cx.nc += 1
                chk.note("amp", where, "feat[%d] not comparable: %s" % (k, fmt(r)))
                continue
            cx.want("amp", fw, where + ".eval_rho_full", r, "N", comp(r, "c"), "feat[%d]" % k, PL,
                    "NLDFAuxiliaryPlan.eval_rho_full", ln,
                    "NLDF rows are linear (l=1 dots quadratic) in the per-spin density")
        vfeat = rows(0, {k: Q(E1 - v.deg) for k, v in feat.rows.items() if comp(v, "c") is not None})
        vrho = rows(0, {i: q(e=1, c=-1) for i in range(nrow)})
        vf_typed = q(e=1, c=-1)
        vf_typed.homog = True      # every row of vf is a derivative w.r.t. a per-spin convolution integral
        bw = s.call(plan, "eval_vxc_full", [vfeat, vrho, q(c=1), rho_data],
                    {"spin": num(0), "vf": vf_typed, "p_i_qg": lst(*[q() for _ in range(num_vj)])})
        cx.flush(bw, where + ".eval_vxc_full", "pair")
        ln = fline(s, PL, "NLDFAuxiliaryPlan.eval_vxc_full")
        cx.want("pair", bw, where + ".eval_vxc_full", bw.value, "N", 0, "vf (derivative w.r.t. the convolutions)", PL,
                "NLDFAuxiliaryPlan.eval_vxc_full", ln, "feat *= nspin must be mirrored by vfeat *= nspin")
        for i in range(nrow):
            cx.want("pair", bw, where + ".eval_vxc_full", vrho.rows.get(i, Q(ANY)), "N", 0, "vrho_data[%d]" % i, PL,
                    "NLDFAuxiliaryPlan.eval_vxc_full", ln, "semilocal part of the NLDF potential")
        # occupation derivative: same nspin factor as the features
        oc = s.call(plan, "eval_occd_full", [q(c=1), rho_data, q(c=1, occ=1),
                                             rows(0, {i: q(c=1, occ=1) for i in range(nrow)})],
                    {"apply_transformation": K(False)})
        cx.flush(oc, where + ".eval_occd_full", "pair")
        ov = oc.value
        if isinstance(ov, Q) and ov.is_rows:
            for k in sorted(feat.rows):
                if comp(feat.rows[k], "N") is None or k not in ov.rows:
                    continue
                klass = "vj rows" if k < num_vj else "l=0 vi rows" if k < num_vj + n_l0 else "l=1 dot rows"
                g, w = comp(ov.rows[k], "N"), comp(feat.rows[k], "N")
                inst = "%s.eval_occd_full occd_feat[%d] (%s)" % (where, k, klass)
                if g is None:
                    cx.nc += 1
                    continue
                if g == w:
                    chk.ok("pair", inst + " nspin^%s as in eval_rho_full" % g)
                elif ("occd", klass) in cx.reported:
                    chk.ok("pair", inst + " (same finding as reported above)", nontrivial=False)
                else:
                    cx.reported.add(("occd", klass))
                    chk.violation("pair", PL, "NLDFAuxiliaryPlan.eval_occd_full", "occd_feat[%s]" % klass,
                                  fline(s, PL, "NLDFAuxiliaryPlan.eval_occd_full"),
                                  "the occupation derivative of the %s is multiplied by nspin^(%s) but eval_rho_full "
                                  "multiplies these feature rows by nspin^(%s): for nspin=2 the derivative is off by "
                                  "2^(%s)" % (klass, g, w, g - w), instance=inst)
        elif not oc.mismatches:
            cx.nc += 1
            chk.note("pair", where, "eval_occd_full not comparable: %s" % fmt(ov))


def rule_fraclapl(chk, cx):
    """FracLaplPlan: like every other plan, channel s must hold the unpolarised feature of nspin * n_s: rows
    linear in the density (matrix) carry nspin, the l=1 dot products nspin**2 (amp), and get_vxc multiplies vfeat
    by the same powers (pair).  The plan's own get_feat / get_vxc are interpreted (polarised case)."""
    s = cx.s
    pair = lambda a, b: Tup([num(a), num(b)])  # noqa: E731
    ns, nk0, nk1, nd1, ndd = 5, 3, 2, 4, 1
    l1_dots = lst(pair(-1, -1), pair(-1, 0), pair(0, 1), pair(1, 1), pair(0, 0), pair(1, 0))
    ld_dots = lst(pair(-1, 0), pair(1, 1), pair(2, 3), pair(0, 3), pair(3, 3), pair(-1, 2), pair(2, 1))
    st = s.new(ST, "FracLaplSettings", lst(*[sym("s%d" % i) for i in range(ns)]), num(nk0), num(nk1), l1_dots,
               num(nd1), ld_dots, num(ndd))
    plan = s.new(PL, "FracLaplPlan", st, NSPIN)
    if not isinstance(st, deg.Obj) or not isinstance(plan, deg.Obj):
        raise core.AnalysisError("FracLaplSettings / FracLaplPlan: constructor could not be interpreted")
    nrho = 5 + nk0 + 3 * nk1 + 3 * nd1 + ndd
    rho_data = rows(1, {i: q(c=1) for i in range(nrho)})
    rho_data.shape = Tup([NSPIN, num(nrho), sym("ngrid")])
    fw = s.call(plan, "get_feat", [rho_data])
    where = "FracLaplPlan.get_feat"
    cx.flush(fw, where, "amp")
    feat = fw.value
    gf = s.hooks.method_of(plan, "get_feat").fdef
    nfeat = nk0 + 6 + 7 + ndd
    if not (isinstance(feat, Q) and feat.is_rows):
        if not fw.mismatches:
            raise core.AnalysisError("%s: result is not row-typed (%s)" % (where, fmt(feat)))
        return
    got = {(k if k >= 0 else nfeat + k): v for k, v in feat.rows.items()}
    if len(got) < nfeat:
        raise core.AnalysisError("%s wrote rows %s, expected %d" % (where, sorted(got), nfeat))
    for k in sorted(got):
        r = got[k]
        if comp(r, "c") is None:
            cx.nc += 1
            continue
        kind = "linear" if k < nk0 or k >= nfeat - ndd else "l=1 dot"
        if comp(r, "N") == comp(r, "c"):
            chk.ok("amp", "%s: feat[:, %d] (%s) carries nspin^%s" % (where, k, kind, comp(r, "N")))
        elif ("fl", kind) in cx.reported:
            chk.ok("amp", "%s: feat[:, %d] (%s) (same finding as reported for this kind)" % (where, k, kind), nontrivial=False)
        else:
            cx.reported.add(("fl", kind))
            cx.want("amp", fw, where, r, "N", comp(r, "c"), "%s rows" % kind, PL, "FracLaplPlan.get_feat",
                    gf.lineno, "channel s holds the feature of nspin*n_s: nspin**degree (first such row: %d)" % k)
    vfeat = rows(1, {k: Q(E1 - v.deg) for k, v in got.items() if comp(v, "c") is not None})
    vfeat.shape = Tup([NSPIN, num(nfeat), sym("ngrid")])
    vxc = q(e=1, c=-1)
    vxc.homog = True
    vxc.shape = Tup([NSPIN, num(nrho), sym("ngrid")])
    bw = s.call(plan, "get_vxc", [vfeat], {"vxc": vxc})
    cx.flush(bw, "FracLaplPlan.get_vxc", "pair")
    gv = s.hooks.method_of(plan, "get_vxc").fdef
    if not bw.mismatches:
        chk.ok("pair", "FracLaplPlan.get_vxc: every term added to vxc has nspin-degree 0 with vfeat typed from get_feat")
    cx.want("pair", bw, "FracLaplPlan.get_vxc", bw.value, "N", 0, "vxc", PL, "FracLaplPlan.get_vxc", gv.lineno,
            "the spin factors of get_feat must be mirrored on vfeat")


def rule_sdmx(chk, cx):
    s = cx.s
    prog = s.prog
    classes = []
    for m, c in prog.all_classes():
        if m.rel != PL:
            continue
        if "__init__" in pf.methods(c) and prog.find_method(m, c, "get_features") and prog.find_method(m, c, "get_vxc"):
            classes.append(c.name)
    if len(classes) < 3:
        raise core.AnalysisError("fewer than three SDMX-like plan classes define get_features/get_vxc (%s)" % classes)
    pows = lambda: lst(num(2), num(0), num(1))  # noqa: E731   (values never equal their index)
    kinds = lambda: lst(num(3), num(1), num(2), num(1))  # noqa: E731
    cfg = {
        "SADMPlan": lambda: s.new(ST, "SADMSettings", K("smooth")),
        "SDMXPlan": lambda: s.new(ST, "SDMXG1Settings", pows(), num(2), num(1)),
        "SDMXFullPlan": lambda: s.new(ST, "SDMXFullSettings", Map({Fraction(2): Tup([pows(), kinds()]),
                                                                    Fraction(1): Tup([pows(), kinds()])})),
        "SDMXIntPlan": lambda: s.new(ST, "SDMXFullSettings", Map({Fraction(1): Tup([pows(), kinds()])})),
    }
    for cname in classes:
        if cname not in cfg:
            if "__init__" not in pf.methods(s.prog.module(PL).cls(cname)):
                continue            # abstract base: analysed through its concrete subclasses
            raise core.AnalysisError("SDMX-like plan class %s has no settings configuration in the checker" % cname)
        settings = cfg[cname]()
        plan = s.new(PL, cname, settings, NSPIN, q(), sym("lambd"), sym("nalpha"))
        if not isinstance(plan, deg.Obj):
            raise core.AnalysisError("%s: constructor could not be interpreted" % cname)
        n1 = 0 if cname == "SADMPlan" else 1
        n0 = 1
        where = "%s" % cname
        l0tmp, l1tmp = Q(ANY), Q(ANY)
        fw = s.call(plan, "get_features", [q(c=1)], {"out": K(None), "l0tmp": l0tmp, "l1tmp": l1tmp})
        gf = s.hooks.method_of(plan, "get_features")
        gv = s.hooks.method_of(plan, "get_vxc")
        cx.flush(fw, where + ".get_features", "amp")
        out = fw.value
        ln = gf.fdef.lineno
        if not (isinstance(out, Q) and out.is_rows and out.axis == 0):
            if not fw.mismatches:
                raise core.AnalysisError("%s.get_features: result is not row-typed (%s)" % (cname, fmt(out)))
            continue
        if not out.rows:
            raise core.AnalysisError("%s.get_features wrote no rows" % cname)
        for k in sorted(out.rows):
            r = out.rows[k]
            if comp(r, "c") is None:
                cx.nc += 1
                continue
            cx.want("amp", fw, where + ".get_features", r, "N", comp(r, "c"), "out[%d]" % k, PL,
                    cname + ".get_features", ln, "SDMX rows are quadratic in the per-spin density matrix")
        vx = rows(0, {k: Q(E1 - v.deg) for k, v in out.rows.items() if comp(v, "c") is not None})
        bw = s.call(plan, "get_vxc", [vx, q(c=1), q(c=1)], {"out": K(None)})
        cx.flush(bw, where + ".get_vxc", "pair")
        res = bw.value
        ln = gv.fdef.lineno
        rr = res.rows if isinstance(res, Q) and res.is_rows else None
        if rr is None:
            if not bw.mismatches:
                raise core.AnalysisError("%s.get_vxc: result is not row-typed (%s)" % (cname, fmt(res)))
            continue
        need = sorted(rr) if rr else [0]
        if 0 not in need:
            need = [0] + need
        for k in need:
            cx.want("pair", bw, where + ".get_vxc", rr.get(k, Q(ANY)), "N", 0, "out[%d]" % k, PL, cname + ".get_vxc", ln,
                    "the factor multiplying vxc_ig must be the one applied in get_features")
    chk.count("SDMX-like plan classes", len(classes))


def rule_baselines(chk, cx):
    s = cx.s
    # registered spin-averaged exchange baselines: value and derivative carry the same nspin exponent, and it
    # is -1 (SEP: m / nspin).  The functions are taken from the BASELINE_CODES registry, not by private name.
    X = rows(1, {0: q(c=1), 1: q(), 2: q(), 3: q()}, default=q())
    X.shape = Tup([NSPIN, q(), q()])
    reg = s.global_value(BL, "BASELINE_CODES")
    if not isinstance(reg, Map):
        raise core.AnalysisError("BASELINE_CODES is no longer a literal dict")
    n_done = 0
    for code in ("LDA_X", "GGA_X_PBE"):
        fn = reg.d.get(code)
        if not isinstance(fn, deg.Fn):
            raise core.AnalysisError("BASELINE_CODES[%r] is not a module-level function" % code)
        res = s.eng.run_function(fn.fdef, [X], mod=fn.mod)
        where = "baseline %s (%s)" % (code, fn.fdef.name)
        cx.flush(res, where, "pair")
        vals = deg.items_of(res.value)
        ln = fn.fdef.lineno
        if vals is None or len(vals) != 2:
            if not res.mismatches:
                raise core.AnalysisError("%s: unexpected result %s" % (where, fmt(res.value)))
            continue
        n_done += 1
        e, d = vals
        cx.want("amp", res, where, e, "N", -1, "e", BL, fn.fdef.name, ln, "spin average: 1/nspin * sum_s e[nspin n_s]")
        d0 = d.rows.get(0) if isinstance(d, Q) and d.is_rows else d
        cx.want("pair", res, where, d0 if d0 is not None else Q(ANY), "N", comp(e, "N") if comp(e, "N") is not None else -1,
                "dedx[0]", BL, fn.fdef.name, ln, "derivative carries the same 1/nspin as the value")
    # the density baseline ("RHO"): the value reads feature 0 of every spin channel, so the derivative must be
    # stored along the feature axis (row 0 of every spin), with the 1/nspin of the spin average
    fn = reg.d.get("RHO")
    if isinstance(fn, deg.Fn):
        Xr = rows(1, {0: q(c=1, N=1), 1: q(), 2: q()}, default=q())
        Xr.shape = Tup([NSPIN, num(3), sym("ngrid")])
        res = s.eng.run_function(fn.fdef, [Xr], mod=fn.mod)
        where = "baseline RHO (%s)" % fn.fdef.name
        cx.flush(res, where, "pair")
        vals = deg.items_of(res.value)
        if vals is None or len(vals) != 2:
            chk.violation("pair", BL, fn.fdef.name, "return value of the RHO baseline", fn.fdef.lineno,
                          "the registered baseline does not return (e, dedx) (got %s)" % fmt(res.value))
        else:
            e, d = vals
            if not (isinstance(d, Q) and d.is_rows):
                cx.nc += 1
                chk.note("pair", where, "dedx not comparable: %s" % fmt(d))
            elif d.axis != 1 or set(d.rows) != {0}:
                chk.violation("pair", BL, fn.fdef.name, "slots of dedx written by the RHO baseline", fn.fdef.lineno,
                              "the value reads X0T[:, 0] (feature 0 of every spin channel) but the derivative is stored "
                              "in %s of dedx: it must address the same (spin, feature) slots, dedx[:, 0]" % (
                                  "rows %s along axis %d" % (sorted(d.rows), d.axis)))
            else:
                cx.want("pair", res, where, d.rows[0], "N", -1, "dedx[:, 0]", BL, fn.fdef.name, fn.fdef.lineno,
                        "derivative of the spin average of feature 0")
    # SEP multiplicative baseline of a mapped kernel, reached through the public path
    # MappedDFTKernel(fevals, feature_list, mode, multiplicative_baseline).multiplicative_baseline(X0T);
    # whatever private method evaluates the registered base function is followed by the interpreter
    base = reg.d.get("LDA_X")
    obj = s.new(XE, "MappedDFTKernel", lst(), Unk("feature_list"), K("SEP"), base)
    if not isinstance(obj, deg.Obj):
        raise core.AnalysisError("MappedDFTKernel: constructor could not be interpreted")
    X3 = rows(1, {0: q(c=1)}, default=q())
    X3.shape = Tup([NSPIN, q(), q()])
    res = s.call(obj, "multiplicative_baseline", [X3])
    where = "MappedDFTKernel(mode=SEP).multiplicative_baseline"
    cx.flush(res, where, "pair")
    vals = deg.items_of(res.value)
    mfd = s.hooks.method_of(obj, "multiplicative_baseline").fdef
    ln = mfd.lineno
    m = dm = None
    if vals is not None and len(vals) == 2:
        m, dm = vals
    nm = comp(m, "N") if m is not None else None
    dm0 = (dm.rows.get(0) if isinstance(dm, Q) and dm.is_rows else dm) if dm is not None else None
    if nm is None or dm0 is None or comp(dm0, "N") is None:
        cx.nc += 1
        chk.note("pair", where, "not comparable: %s" % fmt(res.value))
    else:
        cx.want("amp", res, where, m, "N", -1, "m", XE, "KernelEvalBase.multiplicative_baseline", ln,
                "SEP: each channel contributes base(2 n_s)/nspin")
        cx.want("pair", res, where, dm0, "N", nm, "dm", XE, "KernelEvalBase.multiplicative_baseline", ln,
                "value and derivative of the SEP baseline carry the same nspin factor")


def rule_normalizer_inputs(chk, cx):
    """ModelWithNormalizer.__call__: rho, sigma, tau handed to the normalisers are the total-density
    ingredients: nspin**d with d the amplitude degree."""
    s = cx.s
    fdef = s.prog.module(XE).func("ModelWithNormalizer.__call__")
    rho_data = rows(1, {i: q(c=1) for i in range(5)})
    X0T = q()
    X0T.shape = Tup([NSPIN, q(), q()])
    obj = s.obj(XE, "ModelWithNormalizer", nfeat=num(1), model=Unk("model"), normalizer=Unk("normalizer"))
    calls = []

    def ob(node, name, args, kwargs):
        if (name or "").split(".")[-1].startswith("apply_norm"):
            calls.append((node, args))
    s.eng.call_observers = [ob]
    try:
        res = s.call(obj, "__call__", [X0T, rho_data])
    finally:
        s.eng.call_observers = []
    found = 0
    done = set()
    for node, args in calls:
        for i, v in enumerate(args):
            c, nn = comp(v, "c"), comp(v, "N")
            if c is None or nn is None or c == Lin() or v.num is not None or "e" in v.deg.d:
                continue
            key = (pf.src(node.args[i]) if i < len(node.args) else str(i), str(c))
            if key in done:
                continue
            done.add(key)
            found += 1
            cx.want("amp", None, "ModelWithNormalizer.__call__", v, "N", c, "normaliser ingredient `%s`" % key[0], XE,
                    "ModelWithNormalizer.__call__", node.lineno, "total-density ingredient = nspin**d * per-spin")
    if found < 2:
        raise core.AnalysisError("ModelWithNormalizer.__call__: no density ingredients reach the normalisers' "
                                 "apply_norm_* calls (%d)" % found)


def rule_rhocut(chk, cx):
    """Low-density cutoffs along the spin paths.  The user's cutoff R is a threshold on the TOTAL density
    n = nspin * rho_s.  R is typed with its own symbol (`cut`), densities with amplitude c and the nspin
    symbol N (per-spin rho_s: N^0; the feature nspin*rho_s: N^1; a sum over the spin axis multiplies by N), and
    every comparison `D < X` met while abstractly running the public entry points is observed: with D a
    density (c^1 N^k) and X = R * N^j it decides  n-equivalent = D * N^-j, which must be the total density,
    i.e. k - j == 1 -- on every path, whichever function of the call chain applies the 1/nspin.
      * NLDFAuxiliaryPlan(rhocut=R).eval_feat_exp -> get_cider_exponent{,_gga}
      * MappedDFTKernel(mode).__call__(X0T, rhocut=R), MappedDFTKernel2(mode).__call__(X0T, rho_tuple, ., rhocut=R)
    """
    s0 = deg.Session(chk.tree, [ST, FN, PL, XE, XE2], poly_names=(), calls=STUBS, hooks_cls=PlanHooks)
    KS = lambda xs: lst(*[K(x) for x in xs])  # noqa: E731
    seen = []

    def ob(node, vals):
        if len(vals) != 2:
            return
        for a, b in ((vals[0], vals[1]), (vals[1], vals[0])):
            if isinstance(a, Q) and isinstance(b, Q) and not a.is_rows and not b.is_rows \
                    and a.deg is not ANY and b.deg is not ANY and b.deg.get("cut") == Lin.const(1) \
                    and a.deg.get("c") == Lin.const(1) and not a.deg.get("cut").t:
                seen.append((node, a.deg, b.deg, s0.eng.fr.rel, s0.eng.fr.name))
    s0.eng.compare_observers = [ob]
    R = lambda: q(cut=1)  # noqa: E731
    reported = set()

    def judge(entry, minimum):
        got = {}
        for node, d, x, rel, fn in seen:
            got[(rel, fn, core.norm_text(pf.src(node)))] = (node, d, x)
        del seen[:]
        if len(got) < minimum:
            raise core.AnalysisError("%s: no comparison of a density with the cutoff was reached" % entry)
        for (rel, fn, txt), (node, d, x) in sorted(got.items()):
            k, j = d.get("N"), x.get("N")
            inst = "%s: `%s` in %s" % (entry, txt, fn)
            if (k - j) == Lin.const(1):
                chk.ok("cutoff", inst + " compares nspin^(%s) * rho_s with R * nspin^(%s)" % (k, j))
            elif (rel, fn, txt) in reported:
                chk.ok("cutoff", inst + " (same construct as reported above)", nontrivial=False)
            else:
                reported.add((rel, fn, txt))
                chk.violation("cutoff", rel, entry.split("(")[0] + "." + entry.rsplit(".", 1)[-1].split("(")[0], txt,
                              node.lineno,
                              "in %s, reached from %s: the compared density is nspin^(%s) * (per-spin density) and the cutoff is "
                              "R * nspin^(%s), i.e. the user's total-density cutoff R is applied to nspin^(%s) * n "
                              "instead of n: closed-shell points with n within that factor of R are treated "
                              "differently by the nspin=1 and nspin=2 paths" % (fn, entry, k, j, k - j - Lin.const(1)),
                              instance=inst)
    # 1. NLDF exponent chain
    for level in ("MGGA", "GGA"):
        th = lst(*[sym("th%d" % i) for i in range(3 if level == "MGGA" else 2)])
        st = s0.new(ST, "NLDFSettingsVJ", K(level), th, K("one"), KS(["se"]), lst(th))
        plan = s0.new(PL, "NLDFAuxiliaryPlan", st, NSPIN, q(), sym("lambd"), num(4), rhocut=R(),
                      raise_large_expnt_error=K(True), use_smooth_expnt_cutoff=K(False))
        if not isinstance(plan, deg.Obj):
            raise core.AnalysisError("NLDFAuxiliaryPlan: constructor could not be interpreted")
        rt = Tup([q(c=1), q(c=2)] + ([q(c=1)] if level == "MGGA" else []))
        s0.call(plan, "eval_feat_exp", [rt], {"i": num(-1)})
        judge("NLDFAuxiliaryPlan(%s, rhocut=R).eval_feat_exp" % level, 1)
    # 2. evaluators
    for mode in ("SEP", "NPOL", "POL"):
        X = rows(1, {0: q(c=1, N=1)}, default=q())
        X.shape = Tup([NSPIN, q(), q()])
        k1 = s0.new(XE, "MappedDFTKernel", lst(), Unk("feature_list"), K(mode), Unk("baseline"))
        if not isinstance(k1, deg.Obj):
            raise core.AnalysisError("MappedDFTKernel: constructor could not be interpreted")
        s0.call(k1, "__call__", [X], {"rhocut": R()})
        judge("MappedDFTKernel(mode=%s).__call__(rhocut=R)" % mode, 1)
        rho = q(c=1)
        rho.shape = Tup([NSPIN, q()])
        X2 = rows(1, {0: q(c=1, N=1)}, default=q())
        X2.shape = Tup([NSPIN, q(), q()])
        k2 = s0.new(XE2, "MappedDFTKernel2", lst(), Unk("feature_list"), K(mode), Unk("baseline"))
        if not isinstance(k2, deg.Obj):
            raise core.AnalysisError("MappedDFTKernel2: constructor could not be interpreted")
        s0.call(k2, "__call__", [X2, Tup([rho, q(c=2), q(c=1)]), Unk("vrho_tuple")], {"rhocut": R()})
        judge("MappedDFTKernel2(mode=%s).__call__(rhocut=R)" % mode, 1)
    s0.eng.compare_observers = []
    cx.extra_visited |= set(s0.eng.visited)
    chk.floor("cutoff", 5, "density/cutoff comparisons on the NLDF exponent chain and in the two kernel evaluators")


TR = "ciderpress/models/train.py"


def rule_train_cutoff(chk, cx):
    """Training twin of `cutoff`: the low-density screens of the covariance builders in models/train.py compare a
    density with a literal threshold.  With the features typed by role (the array returned by the feature
    normaliser: feature 0 = nspin * n_s, N^1; the tuple returned by get_rho_tuple_with_grad_cross: raw per-spin
    density, N^0, computed by interpreting that function; `.sum(0)` over the spin axis multiplies by N), every
    screened quantity must be nspin-equivalent to the total density (N^1), for SEP and NPOL/POL alike."""
    s0 = deg.Session(chk.tree, [TR, PL, ST, FN], poly_names=(), calls=STUBS, hooks_cls=PlanHooks)
    eng = s0.eng
    mod = s0.prog.module(TR)
    n_fun = n_cmp = 0
    for cname, cls in mod.classes.items():
        for mname, fdef in pf.methods(cls).items():
            env = deg.Env()
            roles = 0
            eng.frames.append(deg.Frame(fdef, mod))
            try:
                for st in ast.walk(fdef):
                    if isinstance(st, ast.Assign) and len(st.targets) == 1 and isinstance(st.targets[0], ast.Name) \
                            and isinstance(st.value, ast.Call):
                        cn = (pf.call_name(st.value) or "").split(".")[-1]
                        if "normalized_feature" in cn and "deriv" not in cn:
                            X = rows(1, {0: q(c=1, N=1)}, default=q())
                            X.shape = Tup([NSPIN, sym("nfeat"), sym("n")])
                            env[st.targets[0].id] = X
                            roles += 1
                        elif cn == "get_rho_tuple_with_grad_cross":
                            rd = rows(1, {i: q(c=1) for i in range(5)})
                            rd.shape = Tup([NSPIN, num(5), sym("n")])
                            fn = s0.hooks.func(PL, cn)
                            r = eng.call_function(fn, [rd], {"is_mgga": K(True)}, st.value)
                            env[st.targets[0].id] = r
                            roles += 1
                if not roles:
                    continue
                found = 0
                for n in ast.walk(fdef):
                    if not (isinstance(n, ast.Compare) and len(n.ops) == 1 and isinstance(n.ops[0], (ast.Lt, ast.LtE, ast.Gt, ast.GtE))):
                        continue
                    sides = [n.left, n.comparators[0]]

                    def thr(x):
                        """numeric value of a literal threshold: a literal, a module-level or class-level constant"""
                        v = None
                        if isinstance(x, ast.Constant):
                            v = x.value
                        elif isinstance(x, ast.Name) and x.id in mod.assigns:
                            v = mod.assigns[x.id]
                        elif isinstance(x, ast.Attribute) and isinstance(x.value, ast.Name) \
                                and x.value.id in ("self", "cls", cname):
                            r_ = s0.prog.find_class_attr(mod, cls, x.attr)
                            v = r_[2] if r_ else None
                        if isinstance(v, ast.AST):
                            try:
                                v = pf.literal(v)
                            except Exception:
                                v = None
                        return v if isinstance(v, float) and 0 < v <= 1e-3 else None
                    lit = [x for x in sides if thr(x) is not None]
                    if len(lit) != 1:
                        continue
                    other = sides[1] if sides[0] is lit[0] else sides[0]
                    v = eng.eval_expr(other, env)
                    if not (isinstance(v, Q) and not v.is_rows and v.deg is not ANY and v.deg.get("c") == Lin.const(1)):
                        continue
                    found += 1
                    n_cmp += 1
                    k = v.deg.get("N")
                    txt = core.norm_text(pf.src(n))
                    inst = "%s.%s: `%s` screens nspin^(%s) * rho_s" % (cname, mname, txt, k)
                    if k == Lin.const(1):
                        chk.ok("cutoff", inst)
                    else:
                        chk.violation("cutoff", TR, "%s.%s" % (cname, mname), txt, n.lineno,
                                      "the screened quantity is nspin^(%s) * (per-spin density) compared with the literal "
                                      "threshold %s, i.e. the threshold acts on nspin^(%s) * n instead of the total density "
                                      "n: a closed-shell system stored with nspin=1 and with two equal channels is screened "
                                      "at different densities" % (k, thr(lit[0]), k - Lin.const(1)), instance=inst)
                n_fun += 1 if found else 0
            finally:
                eng.frames.pop()
    if n_fun < 2 or n_cmp < 3:
        raise core.AnalysisError("density screens of the covariance builders in %s not found (%d functions, %d "
                                 "comparisons)" % (TR, n_fun, n_cmp))


# ----------------------------------------------------------------------------------------------------------
def rule_exponent(chk, cx):
    sT = deg.Session(chk.tree, [ST], hooks_cls=TwoHooks)
    eng = sT.eng
    eng.add_policy = "left"
    for fname, argsA, want in (("get_cider_exponent", [q(T=1), q(T=2), q(T=1)], (0, 1, 2, 1)),
                               ("get_cider_exponent_gga", [q(T=1), q(T=2)], (0, 1, 2))):
        fdef = sT.prog.module(ST).func(fname)
        kw = dict(a0=sym("a0"), grad_mul=sym("grad_mul"))
        if "tau_mul" in [a.arg for a in fdef.args.args]:
            kw["tau_mul"] = sym("tau_mul")
        runs = []
        for ns, args in ((1, argsA), (2, [q() for _ in argsA])):
            obs = {}

            def ob(node, a, b, kind, obs=obs):
                obs.setdefault(id(node), (node, []))[1].append((a.deg, b.deg))
            eng.observers = [ob]
            k2 = dict(kw)
            k2["nspin"] = num(ns)
            r = sT.call(ST, fname, args, k2)
            runs.append((r, obs))
            for u in r.unknowns:
                cx.nc += 1
                chk.note("expnt", fname, "not comparable: %s (%s)" % (u[2], u[3]))
        eng.observers = []
        (rA, oA), (rB, oB) = runs
        nsite = 0
        for key, (node, la) in oA.items():
            if key not in oB:
                continue
            lb = oB[key][1]
            for (al, ar), (bl, br) in zip(la, lb):
                if ANY in (al, ar, bl, br) or any(x is ANY for x in (al, ar, bl, br)):
                    continue
                dl = bl.get("T") - al.get("T")
                dr = br.get("T") - ar.get("T")
                nsite += 1
                st = node
                while not isinstance(st, ast.stmt):
                    st = pf.parent(st)
                if dl == dr:
                    chk.ok("expnt", "%s: `%s` both sides shift by 2^(%s)" % (fname, pf.src(node)[:70], dl))
                else:
                    chk.violation("expnt", ST, fname, pf.src(st), node.lineno,
                                  "in `%s` the left term of the nspin=2 branch equals the nspin=1 branch at (2rho, "
                                  "4sigma, 2tau) times 2^(%s) but the right term times 2^(%s): the two spin paths "
                                  "evaluate different exponents" % (pf.src(node)[:90], dl, dr))
        va, vb = deg.items_of(rA.value), deg.items_of(rB.value)
        if va is None or vb is None or len(va) != len(want) or len(vb) != len(want):
            raise core.AnalysisError("%s: return value is not a %d-tuple" % (fname, len(want)))
        names = ("exponent", "d/drho", "d/dsigma", "d/dtau")
        for nm, a, b, w in zip(names, va, vb, want):
            ta, tb = comp(a, "T"), comp(b, "T")
            if ta is None or tb is None:
                cx.nc += 1
                chk.note("expnt", fname, "%s not comparable (%s, %s)" % (nm, fmt(a), fmt(b)))
                continue
            d = tb - ta
            inst = "%s %s: nspin=2 / nspin=1(2rho,4sigma,2tau) = 2^(%s)" % (fname, nm, d)
            if d == Lin.const(w):
                chk.ok("expnt", inst)
            else:
                chk.violation("expnt", ST, fname, "return %s of %s" % (nm, fname), fdef.lineno,
                              "%s: the nspin=2 branch is 2^(%s) times the nspin=1 branch evaluated at (2rho, 4sigma, "
                              "2tau); the spin relation requires 2^(%d)" % (nm, d, w), instance=inst)
        if nsite < 2:
            raise core.AnalysisError("%s: fewer than two additive sites compared between the spin branches" % fname)
    chk.floor("expnt", 6, "7 returned components + additive sites of the two exponent functions")


# ----------------------------------------------------------------------------------------------------------
def is_nspin(n):
    return (isinstance(n, ast.Name) and n.id == "nspin") or (isinstance(n, ast.Attribute) and n.attr == "nspin")


def rule_sites(chk, cx):
    """every arithmetic use of nspin: enclosing maximal arithmetic expression + function"""
    tree = chk.tree
    sites, uncovered = [], []
    for rel in SITE_FILES:
        mod = tree.py(rel)
        for n in ast.walk(mod):
            if not is_nspin(n) or not isinstance(getattr(n, "ctx", None), ast.Load):
                continue
            p, child, arith = pf.parent(n), n, None
            while isinstance(p, (ast.BinOp, ast.UnaryOp)):
                if isinstance(p, ast.BinOp) and isinstance(p.op, (ast.Mult, ast.Div, ast.Pow)):
                    arith = p
                elif isinstance(p, ast.BinOp) and arith is None:
                    break          # additive use (2 * nspin - 1 in a shape): * binds tighter, handled above
                child, p = p, pf.parent(p)
            if arith is None and isinstance(p, ast.AugAssign) and p.value is child and isinstance(
                    p.op, (ast.Mult, ast.Div)):
                arith = p
            if arith is None:
                continue
            # shapes / asserts / ctypes are not arithmetic on physical quantities
            q_ = arith
            skip = False
            while q_ is not None and not isinstance(q_, ast.stmt):
                if isinstance(q_, ast.Call) and (pf.call_name(q_) or "").split(".")[-1] in (
                        "empty", "zeros", "reshape", "c_int", "range", "ones"):
                    skip = True
                if isinstance(q_, (ast.Compare, ast.Subscript)) and arith is not q_:
                    if isinstance(q_, ast.Compare) or (isinstance(q_, ast.Subscript) and arith is not q_.value and not _within(arith, q_.value)):
                        skip = True
                q_ = pf.parent(q_)
            if isinstance(q_, ast.Assert):
                skip = True
            if skip:
                continue
            fn = pf.enclosing_func(n)
            qn = pf.qualname(fn) if fn else "<module>"
            stmt = q_
            key = (rel, qn, pf.src(stmt)[:100])
            if key in [s_[0] for s_ in sites]:
                continue
            sites.append((key, stmt.lineno))
            if (rel, qn) in cx.visited():
                chk.ok("sites", "%s:%s `%s` (typed analysis)" % key)
            else:
                uncovered.append(key)
                chk.ok("sites", "%s:%s `%s` (NOT covered by a typed analysis)" % key, nontrivial=False)
                chk.note("sites", "%s:%s" % (rel, qn), "nspin arithmetic outside the typed analyses: `%s`" % key[2])
    chk.count("nspin arithmetic sites", len(sites))
    chk.count("nspin arithmetic sites not covered", len(uncovered))
    chk.floor("sites", 25, "statements with nspin as a multiplicative operand in plans/settings/baselines/evaluators")
    if len(uncovered) > 6:
        raise core.AnalysisError("%d nspin arithmetic sites lie outside the typed analyses (at most 6 tolerated): %s" % (
            len(uncovered), uncovered[:8]))


def _within(node, root):
    return any(x is node for x in ast.walk(root))


# ----------------------------------------------------------------------------------------------------------
SPIN_NAME = __import__("re").compile(r"^(?:\\w+_(a|b)|\\w*(?:rho|dm|wv|den|vmat|exc|nelec)(a|b)(?:_full)?)$".replace("\\\\", "\\"))


def _spin_names(st):
    return {x.id for x in ast.walk(st) if isinstance(x, ast.Name) and SPIN_NAME.match(x.id)}


def _flip(name):
    m = SPIN_NAME.match(name)
    i = m.start(1) if m.group(1) else m.start(2)
    return name[:i] + ("b" if name[i] == "a" else "a") + name[i + 1:]


def _spin_subs(st):
    """subscripts whose first index is the literal 0 or 1 (spin slot of an output array)"""
    out = []
    for x in ast.walk(st):
        if isinstance(x, ast.Subscript):
            first = x.slice.elts[0] if isinstance(x.slice, ast.Tuple) and x.slice.elts else x.slice
            if isinstance(first, ast.Constant) and first.value in (0, 1) and not isinstance(first.value, bool) \
                    and isinstance(x.value, ast.Name) and not SPIN_NAME.match(x.value.id):
                out.append(first)
    return out


def _mirror(st):
    import copy
    st2 = _ast_clone(st)
    for n in ast.walk(st2):
        if isinstance(n, ast.Name) and SPIN_NAME.match(n.id):
            n.id = _flip(n.id)
    for c in _spin_subs(st2):
        c.value = 1 - c.value
    return core.norm_text(ast.unparse(st2))


def rule_ab(chk, cx):
    """nr_uks*: a statement that names one spin channel (x_a / x_b) AND a spin slot [0, ...] / [1, ...] of an
    output array must have the mirrored sibling (a<->b, 0<->1) in the same function"""
    tree = chk.tree
    mod = tree.py(NI)
    funcs = [f for f in ast.walk(mod) if isinstance(f, ast.FunctionDef) and f.name.startswith("nr_uks")]
    if len(funcs) < 2:
        raise core.AnalysisError("nr_uks* functions not found in %s" % NI)
    n_pairs = 0
    for f in funcs:
        qn = pf.qualname(f)
        simple = [st for st in ast.walk(f) if isinstance(st, (ast.Assign, ast.AugAssign, ast.Expr))]
        texts = {core.norm_text(pf.src(st)) for st in simple}
        for st in simple:
            names = _spin_names(st)
            if not names or not _spin_subs(st):
                continue
            if {_flip(x) for x in names} & names:
                continue        # mentions both channels in one statement
            t = core.norm_text(pf.src(st))
            mir = _mirror(st)
            n_pairs += 1
            if mir in texts:
                chk.ok("ab-sym", "%s: `%s`" % (qn, t[:80]))
            else:
                chk.violation("ab-sym", NI, qn, t, st.lineno,
                              "statement on one spin channel has no sibling with the channels exchanged (expected "
                              "`%s`): the two spin labels are not treated by the same statements" % mir[:140])
    chk.count("a/b sibling statements", n_pairs)
    chk.floor("ab-sym", 4, "spin-slot accumulation statements in nr_uks / nr_uks_nldf")


class SepHooks(deg.ProgramHooks):
    """literal powers of two carry the symbol T (and keep their numeric value for index arithmetic)"""
    POW2 = {2: 1, 4: 2, 8: 3, 0.5: -1, 0.25: -2, 0.125: -3}

    def constant(self, eng, node):
        v = node.value
        if isinstance(v, (int, float)) and not isinstance(v, bool) and v in self.POW2:
            return Q(Deg.of(T=self.POW2[v]), Lin.const(v))
        return None

    def resolve_call(self, eng, node, env):
        if deg._dotted(node.func) in self.calls and deg._dotted(node.func) not in ("super", "hasattr"):
            return None
        return super().resolve_call(eng, node, env)


def rule_sep2(chk, cx):
    """SEP libxc baseline of the second-generation kernels, through the public path
    MappedDFTKernel2(..., mode="SEP", multiplicative_baseline).multiplicative_baseline(rho_tuple) with two spin
    channels: the per-channel evaluation must receive, for channel s, row s of rho and tau and row 2*s of
    sigma (rows aa, ab, bb), scaled by 2**deg (1, 2, 1); its outputs must land in the same rows rescaled by
    1/2 * 2**deg.  Executed abstractly (rows carry distinct symbols, literal powers of two the symbol T), so
    hand-written lines, comprehensions, zips over literal tuples and helper methods are all read alike."""
    in_deg = {0: 1, 1: 2, 2: 1}
    out_deg = {0: -1, 1: 0, 2: 1, 3: 0}
    names = {0: ["n_a", "n_b"], 1: ["g_aa", "g_ab", "g_bb"], 2: ["t_a", "t_b"]}
    calls = []

    def stub(eng, node, args, kwargs, env):
        idx = len(calls)
        calls.append((node, args[1] if len(args) > 1 else None))
        n_in = len(args[1].items) if len(args) > 1 and isinstance(args[1], Tup) else 3
        return Tup([Q(Deg.of(**{"o%d_%d" % (k, idx): 1})) for k in range(n_in + 1)])
    s2 = deg.Session(chk.tree, [XE2, XE], calls={"get_libxc_baseline": stub}, hooks_cls=SepHooks)
    s2.eng.add_policy = "left"
    prog = s2.prog
    cands = [c for m, c in prog.all_classes() if m.rel == XE2 and "__init__" in pf.methods(c)
             and prog.find_method(m, c, "multiplicative_baseline") and len(pf.methods(c)["__init__"].args.args) >= 5]
    if not cands:
        raise core.AnalysisError("no kernel class with a multiplicative_baseline in %s" % XE2)
    cname = cands[0].name
    n_checked = 0
    for ning in (3, 2):
        del calls[:]
        obj = s2.new(XE2, cname, lst(), Unk("feature_list"), K("SEP"), K("GGA_X_PBE"))
        if not isinstance(obj, deg.Obj):
            raise core.AnalysisError("%s: constructor could not be interpreted" % cname)
        arrs = []
        for k in range(ning):
            a = rows(0, {i: Q(Deg.of(**{nm: 1})) for i, nm in enumerate(names[k])})
            a.shape = Tup([num(2), sym("ngrid")])
            a.n = len(names[k])
            arrs.append(a)
        res = s2.call(obj, "multiplicative_baseline", [Tup(arrs)])
        fd = s2.hooks.method_of(obj, "multiplicative_baseline").fdef
        qn = "%s.multiplicative_baseline" % cname
        where = "%s(mode=SEP, %d ingredients)" % (qn, ning)
        if len(calls) != 2:
            raise core.AnalysisError("%s: expected one baseline evaluation per spin channel, observed %d" % (
                where, len(calls)))
        for sp, (node, tup) in enumerate(calls):
            if not isinstance(tup, Tup) or len(tup.items) != ning:
                raise core.AnalysisError("%s: the per-channel ingredient tuple could not be read (%s)" % (where, fmt(tup)))
            st = node
            while not isinstance(st, ast.stmt):
                st = pf.parent(st)
            for k, v in enumerate(tup.items):
                want_row = names[k][2 * sp if k == 1 else sp]
                inst = "%s: channel %d ingredient %d" % (where, sp, k)
                if isinstance(v, Q) and v.is_rows and len(v.rows) == 1:
                    v = list(v.rows.values())[0]          # a one-row slice r[s:s+1]
                if not (isinstance(v, Q) and not v.is_rows and v.deg is not ANY):
                    cx.nc += 1
                    chk.note("sep2", where, "ingredient %d of channel %d not comparable: %s" % (k, sp, fmt(v)))
                    continue
                n_checked += 1
                got_rows = sorted(x for x in v.deg.d if x != "T")
                t = v.deg.get("T")
                if got_rows != [want_row]:
                    chk.violation("sep2", XE2, pf.qualname(pf.enclosing_func(node)), "ingredient %d of spin channel" % k,
                                  node.lineno,
                                  "for spin channel %d the baseline receives row %s of ingredient %d; the channel's own "
                                  "row is %s (rho/tau: row s, sigma with rows aa, ab, bb: row 2*s)" % (
                                      sp, got_rows, k, want_row), instance=inst)
                elif t != Lin.const(in_deg[k]):
                    chk.violation("sep2", XE2, pf.qualname(pf.enclosing_func(node)), "scale of ingredient %d" % k,
                                  node.lineno,
                                  "ingredient %d (amplitude degree %d) of one spin channel is multiplied by 2^(%s); "
                                  "E = 1/2 sum_s E[2 n_s] needs 2^%d" % (k, in_deg[k], t, in_deg[k]), instance=inst)
                else:
                    chk.ok("sep2", inst + " = 2^%d * %s" % (in_deg[k], want_row))
        outs = deg.items_of(res.value)
        if outs is None or len(outs) != ning + 1:
            cx.nc += 1
            chk.note("sep2", where, "outputs not comparable: %s" % fmt(res.value))
            continue
        for k, o in enumerate(outs):
            if not (isinstance(o, Q) and o.is_rows and o.axis == 0):
                cx.nc += 1
                chk.note("sep2", where, "output %d not comparable: %s" % (k, fmt(o)))
                continue
            for sp in range(2):
                r = 2 * sp if k == 2 else sp
                v = o.rows.get(r)
                inst = "%s: output %d of channel %d" % (where, k, sp)
                sym_ = "o%d_%d" % (k, sp)
                if not (isinstance(v, Q) and not v.is_rows and v.deg is not ANY):
                    chk.violation("sep2", XE2, qn, "output %d row of spin channel" % k, fd.lineno,
                                  "output %d of spin channel %d is not stored in row %d of the result (rows written: "
                                  "%s)" % (k, sp, r, sorted(o.rows)), instance=inst)
                    continue
                n_checked += 1
                if v.deg.get(sym_) != Lin.const(1):
                    chk.violation("sep2", XE2, qn, "output %d row of spin channel" % k, fd.lineno,
                                  "row %d of output %d holds %s, not the result of spin channel %d" % (r, k, v.deg, sp),
                                  instance=inst)
                elif v.deg.get("T") != Lin.const(out_deg[k]):
                    chk.violation("sep2", XE2, qn, "scale of output %d" % k, fd.lineno,
                                  "output %d of the doubled-density evaluation is multiplied by 2^(%s); the spin relation "
                                  "needs 2^(%d) (1/2 from the average times 2**deg of the chain rule)" % (
                                      k, v.deg.get("T"), out_deg[k]), instance=inst)
                else:
                    chk.ok("sep2", inst + " = 2^(%d) * result, row %d" % (out_deg[k], r))
    for m_ in s2.eng.mismatches:
        chk.violation("sep2", m_.rel, m_.func, m_.stmt, m_.line, "degree mismatch %s vs %s in `%s`" % (m_.left, m_.right, m_.text))
    cx.extra_visited |= set(s2.eng.visited)
    chk.floor("sep2", 10, "ingredients and outputs of two spin channels for GGA and MGGA tuples")


MU_C = "mod_cider/model_utils.c"
MU_C_REL = "ciderpress/lib/mod_cider/model_utils.c"


def rule_c_spin_mirror(chk, cx):
    """C spin kernels (clang AST): in every kernel that addresses the two spin channels through paired
    pointers (x_a = x, x_b = x + offset), the set of stores -- with same-file helpers inlined, locals replaced
    by their initialisers and commutative operands sorted -- must be invariant under the exchange a <-> b of
    every pair.  Kernels bound to a Python evaluator (`libcider.<name>` in xc_evaluator.py) are violations,
    exported but unbound ones are notes."""
    from sa import cfacts, cparity
    tree = chk.tree
    tu = cfacts.TU(tree, MU_C)
    bound = set()
    for n in ast.walk(tree.py(XE)):
        if isinstance(n, ast.Attribute) and n.attr in tu.funcs:
            bound.add(n.attr)
    n_k = 0
    for fn in sorted(tu.funcs):
        r = cparity.analyse(tu, fn)
        if not r["pairs"]:
            continue
        n_k += 1
        pairs = ", ".join("%s<->%s" % (a, b) for a, b, _ in r["pairs"])
        bad = {(ln, txt) for ln, txt, _ in r["unmatched"]}
        for ln, txt, c, img in r["effects"]:
            inst = "%s: `%s` has its a<->b image among the kernel's stores" % (fn, txt[:90])
            if (ln, txt) not in bad:
                chk.ok("c-spin-mirror", inst)
            elif fn in bound:
                chk.violation("c-spin-mirror", MU_C_REL, fn, txt, ln,
                              "exchanging the spin channels (%s) turns this store into `%s`, which no statement of "
                              "the kernel performs: the derivative blocks of the two channels are not images of each "
                              "other, so swapping the channels does not swap the potentials" % (pairs, img[:300]),
                              instance=inst)
            else:
                chk.ok("c-spin-mirror", inst + " [not bound to an evaluator, noted]", nontrivial=False)
                chk.note("c-spin-mirror", "%s:%s" % (MU_C_REL, fn),
                         "line %d `%s` has no a<->b image (the function is exported but no evaluator binds it)" % (
                             ln, txt[:80]))
    if not n_k:
        raise core.AnalysisError("no C kernel with paired spin-channel pointers found in %s" % MU_C)
    if not any(f in bound for f in tu.funcs if cparity.analyse(tu, f)["pairs"]):
        raise core.AnalysisError("no spin kernel of %s is bound by xc_evaluator.py" % MU_C)
    chk.floor("c-spin-mirror", 3, "stores of the bound spin kernel(s)")


LAYOUT_F = ("asfortranarray",)
LAYOUT_C = ("ascontiguousarray",)


def rule_spin_layout(chk, cx):
    """baselines.py: the multi-dimensional (spin, grid) arrays whose buffers are handed to ONE foreign call must
    all have gone through the same layout normalisation: an input normalised with np.asfortranarray next to a
    sibling input passed as received lets libxc read the sibling's spin channels interleaved.  For every call on a
    ctypes library object the last binding of each `X.ctypes.data_as(...)` argument is classified:
    F (asfortranarray / order='F' allocation or copy), C (ascontiguousarray), 1-D scratch (np.zeros(n) / zeros
    of a scalar size: layout-free), or `as received` (parameter never re-bound)."""
    mod = cx.s.prog.module(BL)
    n_calls = 0
    for fname, fdef in mod.functions.items():
        params = {a.arg for a in fdef.args.args}
        body = [st for st in ast.walk(fdef) if isinstance(st, ast.stmt)]
        for call in [n for n in ast.walk(fdef) if isinstance(n, ast.Call)]:
            ptrs = []
            for a_ in call.args:
                if isinstance(a_, ast.Call) and isinstance(a_.func, ast.Attribute) and a_.func.attr == "data_as" \
                        and isinstance(a_.func.value, ast.Attribute) and a_.func.value.attr == "ctypes" \
                        and isinstance(a_.func.value.value, ast.Name):
                    ptrs.append(a_.func.value.value.id)
            if len(ptrs) < 2:
                continue
            n_calls += 1
            tags = {}
            for name in ptrs:
                last = None
                for st in body:
                    if st.lineno < call.lineno and isinstance(st, ast.Assign) and any(
                            isinstance(t, ast.Name) and t.id == name for t in st.targets):
                        if last is None or st.lineno > last.lineno:
                            last = st
                if last is None:
                    tags[name] = "as received" if name in params else "?"
                    continue
                v = last.value
                cn = (pf.call_name(v) or "").split(".")[-1] if isinstance(v, ast.Call) else ""
                order = None
                if isinstance(v, ast.Call):
                    for kw in v.keywords:
                        if kw.arg == "order" and isinstance(kw.value, ast.Constant):
                            order = kw.value.value
                if cn in LAYOUT_F or order == "F":
                    tags[name] = "F"
                elif cn in LAYOUT_C or order == "C":
                    tags[name] = "C"
                elif cn in ("zeros", "empty", "ones") and v.args and not isinstance(v.args[0], (ast.Tuple, ast.List)):
                    tags[name] = "1-D"
                else:
                    tags[name] = "?"
            norm = {t for t in tags.values() if t in ("F", "C")}
            inst = "%s: foreign call `%s`, buffer layouts %s" % (fname, pf.src(call.func), tags)
            raw = sorted(n_ for n_, t in tags.items() if t == "as received")
            if len(norm) > 1:
                chk.violation("spin-layout", BL, fname, pf.src(call.func) + " buffer layouts", call.lineno,
                              "the arrays handed to one foreign call are normalised to different memory layouts: %s" % tags,
                              instance=inst)
            elif norm and raw:
                chk.violation("spin-layout", BL, fname, pf.src(call.func) + " buffer layouts", call.lineno,
                              "%s is handed to the foreign call as received while its sibling arrays are normalised to "
                              "%s-order (%s): a caller-supplied (nspin, n) array in the other layout is read with its "
                              "spin channels interleaved" % (", ".join(raw), norm.copy().pop(),
                                                             {k: v for k, v in tags.items() if v in ("F", "C")}),
                              instance=inst)
            else:
                chk.ok("spin-layout", inst)
    if n_calls < 2:
        raise core.AnalysisError("fewer than two foreign calls with array buffers found in %s" % BL)
    chk.floor("spin-layout", 2, "libxc baseline wrappers (lda / gga / mgga)")


def rule_reg_twin(chk, cx):
    """Regularisers of the semilocal feature functions and of their derivative twins.  In the plan method that
    fills a feature row from `f(args)` and its occupation/chain-rule derivative from `df(args)` (same argument
    list, value stored into the feature array, derivative unpacked), every tiny additive constant that the value
    function adds to a density-like term (reached by interpreting it, helpers included) must also be reached,
    on a term of the same amplitude degree and with the same constant, by the derivative function: otherwise the
    derivative is not the derivative of the value and, because an absolute constant next to rho_s = n/nspin is
    not homogeneous under the spin scaling, the polarised and unpolarised paths regularise differently."""
    s = cx.s
    eng = s.eng
    plmod = s.prog.module(PL)
    stmod = s.prog.module(ST)
    pairs = {}
    for cname, cls in plmod.classes.items():
        for m in pf.methods(cls).values():
            groups = {}
            for n in pf.walk_no_nested(m):
                if isinstance(n, ast.Assign) and isinstance(n.value, ast.Call) and isinstance(n.value.func, ast.Name) \
                        and n.value.func.id in stmod.functions:
                    key = tuple(pf.src(a) for a in n.value.args)
                    kind = "deriv" if isinstance(n.targets[0], (ast.Tuple, ast.List)) else (
                        "value" if isinstance(n.targets[0], ast.Subscript) else None)
                    if kind:
                        groups.setdefault(key, {}).setdefault(kind, set()).add(n.value.func.id)
            for key, g in groups.items():
                if len(g.get("value", ())) == 1 and len(g.get("deriv", ())) == 1:
                    pairs[(list(g["value"])[0], list(g["deriv"])[0])] = len(key)
    if not pairs:
        raise core.AnalysisError("no value/derivative call pair with identical arguments found in the semilocal plans")

    def regs(fname, nargs):
        got = []

        def ob(node, a, b, kind):
            for x, y in ((a, b), (b, a)):
                if isinstance(x, Q) and x.deg is ANY and x.num is not None and x.num.is_const and x.num.value != 0 \
                        and isinstance(y, Q) and not y.is_rows and y.deg is not ANY and y.deg.get("c").t:
                    got.append((str(y.deg.get("c")), str(x.num.value), pf.src(node)[:60]))
        eng.observers.append(ob)
        try:
            args = [q(c=1), q(c=2), q(c=1)][:nargs]
            s.call(ST, fname, args)
        finally:
            eng.observers.remove(ob)
        return got
    for (fv, fd), nargs in sorted(pairs.items()):
        rv, rd = regs(fv, nargs), regs(fd, nargs)
        have = [(a, b) for a, b, _ in rd]
        inst = "%s / %s" % (fv, fd)
        missing = []
        for a, b, txt in rv:
            if (a, b) in have:
                have.remove((a, b))
            else:
                missing.append((a, b, txt))
        if missing:
            a, b, txt = missing[0]
            chk.violation("reg-twin", ST, fv, "regulariser of %s not shared by %s" % (fv, fd),
                          stmod.func(fv).lineno,
                          "%s adds the absolute constant %s to a term of amplitude degree %s (`%s`) that its derivative "
                          "twin %s does not regularise: the derivative is taken of a different function, and the "
                          "constant is not homogeneous under rho_s = n/nspin" % (fv, b, a, txt, fd), instance=inst)
        else:
            chk.ok("reg-twin", inst + ": %d regulariser(s) of the value are mirrored in the derivative" % len(rv))
    chk.floor("reg-twin", 1, "(get_s2, ds2), (get_alpha, dalpha)")


SPIN_RESOLVED = {
    # function -> kinds of its positional parameters ("spin": leading axis = 2 channels; "sig3": aa, ab, bb)
    "get_sigma": {0: "spin"},
    "get_dsigma": {0: "spin", 1: "spin", 2: "spin", 3: "sig3"},
}


def rule_spin_mirror(chk, cx):
    """spin-resolved baseline helpers: after inlining locals, the value stored into spin slot 1 (bb) must be
    the a<->b mirror image of the value stored into slot 0 (aa) -- odd functions of zeta flip sign -- the ab
    slot must receive an invariant value, and whole-array stores a covariant one (sa/parity.py)"""
    from sa import parity
    mod = cx.s.prog.module(BL)
    n_ok = 0
    for fname, kinds in SPIN_RESOLVED.items():
        fdef = mod.func(fname)
        if len(fdef.args.args) <= max(kinds):
            raise core.AnalysisError("%s: signature changed (%d parameters)" % (fname, len(fdef.args.args)))
        rep = parity.analyse(fdef, kinds, mod)
        seen = set()
        got = 0
        for status, msg, node in rep.pairs():
            key = (status, core.norm_text(pf.src(node)))
            if key in seen:
                continue
            seen.add(key)
            got += 1
            if status == "ok":
                n_ok += 1
                chk.ok("spin-mirror", "%s: %s" % (fname, msg))
            elif status == "bad":
                chk.violation("spin-mirror", BL, fname, pf.src(node), node.lineno,
                              "%s; exchanging the two spin channels would not exchange the two potentials" % msg)
            else:
                chk.count("spin-mirror statements not classified")
        if not got:
            raise core.AnalysisError("%s: no spin-slot stores found" % fname)
    chk.floor("spin-mirror", 3, "sigma[0]/sigma[2]/sigma[1] in get_sigma, vX0T[0,0]/vX0T[1,0] and two whole-array stores "
                                "in get_dsigma")


# ----------------------------------------------------------------------------------------------------------
def _analyse_own(chk):
    chk.rule("pair", "backward code multiplies vfeat by the nspin power the forward code applied to the feature row")
    chk.rule("amp", "nspin exponent of a quantity equals its density-amplitude degree")
    chk.rule("expnt", "exponent functions: nspin=2 branch == nspin=1 branch at the spin-doubled density, term by term")
    chk.rule("sep2", "SEP libxc baseline: ingredients doubled as 2**deg, outputs rescaled by 2**(deg-1)")
    chk.rule("spin-mirror", "baseline helpers: the slot-b statements are the a<->b mirror of the slot-a statements")
    chk.rule("c-spin-mirror", "C spin kernels: the set of stores is invariant under the a<->b exchange of the paired pointers")
    chk.rule("spin-layout", "arrays handed to one foreign baseline call share one layout normalisation")
    chk.rule("reg-twin", "absolute regularisers of a semilocal feature function are mirrored in its derivative twin")
    chk.rule("nspin-forward", "repo functions with an nspin parameter called from a plan receive the plan's nspin")
    chk.rule("cutoff", "a density compared with the user's total-density cutoff is nspin-equivalent to the total density")
    chk.rule("sites", "every arithmetic use of nspin is enumerated and lies in a typed analysis")
    chk.rule("ab-sym", "nr_uks*: statements on one spin channel have an a<->b sibling")
    cx = Ctx(chk)
    chk.guard(rule_semilocal, cx)
    chk.guard(rule_nldf, cx)
    chk.guard(rule_nspin_forward, cx)
    chk.guard(rule_sdmx, cx)
    chk.guard(rule_fraclapl, cx)
    chk.guard(rule_baselines, cx)
    chk.guard(rule_normalizer_inputs, cx)
    chk.guard(rule_rhocut, cx)
    chk.guard(rule_train_cutoff, cx)
    chk.guard(rule_exponent, cx)
    chk.guard(rule_sep2, cx)
    chk.guard(rule_spin_mirror, cx)
    chk.guard(rule_c_spin_mirror, cx)
    chk.guard(rule_spin_layout, cx)
    chk.guard(rule_reg_twin, cx)
    chk.guard(rule_sites, cx)
    chk.guard(rule_ab, cx)
    chk.count("equal-degree obligations decided inside formulas", cx.s.eng.checks)
    chk.extra["frozen_reference"] = {
        "amplitude degrees": {"rho": 1, "sigma": 2, "tau": 1, "grad rho": 1, "NLDF convolution f": 1,
                              "density-matrix projection p_vag": 1, "interpolation coefficients p, dp": 0},
        "spin-doubling degrees of exponent outputs": {"a": 0, "da/drho": 1, "da/dsigma": 2, "da/dtau": 1},
    }
    if cx.nc > UNKNOWN_CEILING:
        raise core.AnalysisError("%d not-comparable sites (ceiling %d)" % (cx.nc, UNKNOWN_CEILING))
    chk.assumptions += [
        "the C-backed interpolation helpers return per-spin quantities without nspin factors (stubbed: p, dp "
        "dimensionless; da/d(rho,sigma,tau) amplitude degrees -1,-2,-1)",
        "feature rows are typed from the analysed forward code; vfeat[k] is d e / d feat[k]",
        "features are evaluated per spin channel on the per-spin density (plan.nspin channels)",
    ]
    chk.not_decided += ["equality of energies/potentials between nr_rks and nr_uks (numerical)",
                        "nspin handling inside C (model_utils.c) and in the NPOL mean / force_polarize paths",
                        "numeric prefactors other than powers of nspin / 2"]


def analyse(chk):
    _analyse_own(chk)
    chk.guard(lambda c_: core.include_findings(c_, 'C09', files=['ciderpress/pyscf/numint.py'], rules=['reinit'],
                                               why='a generator built for one spin mode and reused for the other carries the wrong nspin factors'))
    chk.guard(lambda c_: core.include_findings(c_, 'C11', files=['ciderpress/lib/mod_cider/model_utils.c'], rules=['grad-pairing'],
                                               why='the spin-channel gradients of the C kernels must differentiate the factor with respect to their own channel'))
    chk.guard(lambda c_: core.include_findings(c_, 'C09', files=['ciderpress/dft/plans.py', 'ciderpress/dft/lcao_nldf_generator.py', 'ciderpress/dft/lcao_interpolation.py'], rules=['cache-alias'],
                                               why='a per-spin cache that aliases a reusable buffer lets one spin channel overwrite the other (spin symmetry)'))
    chk.guard(lambda c_: core.include_findings(c_, 'C10', files=['ciderpress/lib/mod_cider/model_utils.c'], rules=None,
                                               why='a data race in the spin kernels breaks the spin relations'))


def mutants(tree):
    return [
        Mutant("nst row 1 scaled by nspin instead of nspin^2", PL, "feat[:, 1] *= self.nspin * self.nspin\n        feat[:, 2] *= self.nspin",
               "feat[:, 1] *= self.nspin\n        feat[:, 2] *= self.nspin", expect="amp"),
        Mutant("sm23 exponent -2/3 -> -1/3 in SemilocalPlan._fill_vxc_npa_", PL, "sm23 = self.nspin ** (-2.0 / 3)",
               "sm23 = self.nspin ** (-1.0 / 3)", count=1, expect="pair"),
        Mutant("sm23 exponent in SemilocalPlan2", PL, "sm23 = self.nspin ** (-2.0 / 3)",
               "sm23 = self.nspin ** (-1.0 / 3)", count=3, expect="pair"),
        Mutant("remove vfeat *= nspin in eval_vxc_full", PL, "        vfeat[:] *= self.nspin\n        if vf is None:",
               "        if vf is None:", expect="pair"),
        Mutant("remove vfeat[i] *= nspin for l=1 dots", PL, "            vfeat[i] *= self.nspin\n            if j == -1:",
               "            if j == -1:", expect="pair"),
        Mutant("eval_vxc_full no longer scales vfeat by nspin (copying form)", PL, "        vfeat = vfeat * self.nspin\n",
               "        vfeat = vfeat * 1.0\n", expect="pair"),
        Mutant("l=1 dots: vfeat_i loses nspin (copying form)", PL, "vfeat_i = vfeat[i] * self.nspin", "vfeat_i = vfeat[i] * 1.0",
               expect="pair"),
        Mutant("remove feat[i] *= nspin for l=1 dots (forward only)", PL, "            feat[i] *= self.nspin\n            i += 1",
               "            i += 1", expect="amp"),
        Mutant("SDMX fac differs in get_vxc", PL, "fac = -0.25 * self.nspin * self.nspin\n        tmp = fac * vxc_ig[:n0, None] * l0tmp",
               "fac = -0.25 * self.nspin\n        tmp = fac * vxc_ig[:n0, None] * l0tmp", expect="pair"),
        Mutant("SADMPlan get_vxc nspin^2 -> nspin", PL, "tmp = -0.25 * vxc_ig[:n0, None] * l0tmp * self.nspin * self.nspin",
               "tmp = -0.25 * vxc_ig[:n0, None] * l0tmp * self.nspin", expect="pair"),
        Mutant("SDMXIntPlan features nspin^2 -> nspin", PL, "fac = -0.25 * self.nspin * self.nspin\n        l0tmp[:] = p_vag[0]",
               "fac = -0.25 * self.nspin\n        l0tmp[:] = p_vag[0]", expect="amp"),
        Mutant("exponent branch constant: nspin=2 uses 2^(1/3)", ST, "        B = np.pi * (a0 - tau_fac)",
               "        B = np.pi / 2 ** (1.0 / 3) * (a0 - tau_fac)", expect="expnt"),
        Mutant("gga exponent: nspin=1 branch loses 2^(2/3)", ST, "        B = np.pi / 2 ** (2.0 / 3) * a0\n", "        B = np.pi * a0 / 2\n",
               expect="expnt"),
        Mutant("rhocut not divided by nspin", PL, "self.rhocut = rhocut / nspin", "self.rhocut = rhocut * nspin", expect="cutoff"),
        Mutant("rhocut divided by nspin a second time in get_cider_exponent", ST, "    cond = rho < rhocut\n",
               "    rhocut = rhocut / nspin\n    cond = rho < rhocut\n", expect="cutoff"),
        Mutant("SEP cutoff of MappedDFTKernel compares half the feature", XE, "cond = X0T[:, 0] < rhocut",
               "cond = X0T[:, 0] < rhocut * X0T.shape[0]", expect="cutoff"),
        Mutant("occd s2/alpha rows nspin^(-2/3) -> ^(-1/3)", PL, "occd[:, 1:3] /= self.nspin ** (2.0 / 3)",
               "occd[:, 1:3] /= self.nspin ** (1.0 / 3)", expect="pair"),
        Mutant("SemilocalPlan2 vsigma nspin^2 -> nspin", PL, "vsigma[:] += self.nspin * self.nspin * vfeat[:, 1]",
               "vsigma[:] += self.nspin * vfeat[:, 1]", expect="pair"),
        Mutant("baseline derivative not divided by nspin", BL, "    e[:] /= nspin\n    dedx[:] /= nspin\n", "    e[:] /= nspin\n",
               expect="pair"),
        Mutant("SEP baseline derivative not divided by nspin", XE, "dms.append(dm / nspin)", "dms.append(dm)", expect="pair"),
        Mutant("normaliser sigma scaled by nspin instead of nspin^2", XE, "            nspin * nspin * np.einsum(",
               "            nspin * np.einsum(", expect="amp"),
        Mutant("SEP baseline doubles sigma by 2 instead of 4", XE2, "tuple_s.append(4 * rho_tuple[1]", "tuple_s.append(2 * rho_tuple[1]",
               expect="sep2"),
        Mutant("SEP baseline reads sigma row s instead of 2*s", XE2, "4 * rho_tuple[1][2 * s : 2 * s + 1]",
               "4 * rho_tuple[1][s : s + 1]", expect="sep2"),
        Mutant("SEP baseline stores vsigma in row s instead of 2*s", XE2, "sep_res[2][2 * s] = 2 * res[2]",
               "sep_res[2][s] = 2 * res[2]", expect="sep2"),
        Mutant("SEP baseline energy not halved", XE2, "sep_res[0][s] = 0.5 * res[0]", "sep_res[0][s] = res[0]", expect="sep2"),
        Mutant("SEP baseline vsigma not rescaled", XE2, "sep_res[2][2 * s] = 2 * res[2]", "sep_res[2][2 * s] = res[2]",
               expect="sep2"),
        Mutant("dzeta/drho_b uses rho[1]", BL, "vX0T[1, 0] -= vzfac * 2 * rho[0] / (rho[0] + rho[1]) ** 2",
               "vX0T[1, 0] -= vzfac * 2 * rho[1] / (rho[0] + rho[1]) ** 2", expect="spin-mirror"),
        Mutant("dzeta/drho_b loses its sign", BL, "vX0T[1, 0] -= vzfac * 2 * rho[0] / (rho[0] + rho[1]) ** 2",
               "vX0T[1, 0] += vzfac * 2 * rho[0] / (rho[0] + rho[1]) ** 2", expect="spin-mirror"),
        Mutant("sigma_bb filled from channel a", BL, "        sigma[2] = sigma_s[1]\n", "        sigma[2] = sigma_s[0]\n",
               expect="spin-mirror"),
        Mutant("cross gradient weighted by channel a only", BL, "sigma[1] = (sigma_s[0] + sigma_s[1]) * zfac",
               "sigma[1] = 2 * sigma_s[0] * zfac", expect="spin-mirror"),
        Mutant("C spin kernel: channel-b derivative of aabb taken around xctrl_a", MU_C_REL,
               "_add_deriv(outd_b + iloc, xin_b + iloc, xctrl_b + cloc, exps, aabb,", "_add_deriv(outd_b + iloc, xin_b + iloc, xctrl_a + cloc, exps, aabb,",
               expect="c-spin-mirror"),
        Mutant("C spin kernel: cross term of channel a weighted by aabb", MU_C_REL,
               "_add_deriv(outd_a + iloc, xin_a + iloc, xctrl_b + cloc, exps, abba,", "_add_deriv(outd_a + iloc, xin_a + iloc, xctrl_b + cloc, exps, aabb,",
               expect="c-spin-mirror"),
        Mutant("revert a1025cb: RHO baseline derivative stored along the spin axis", BL, "dedx[:, 0] += 1.0 / nspin",
               "dedx[0, :] += 1.0 / nspin", expect="pair"),
        Mutant("revert f11be14: tau handed to libxc as received", BL, "    tau = np.asfortranarray(tau)\n", "", expect="spin-layout"),
        Mutant("revert e2f0ec8: get_alpha regularises tauw, dalpha does not", ST, "    tauw = sigma / (8 * rho)\n    # TODO this numerical",
               "    tauw = get_single_orbital_tau(rho, np.sqrt(sigma))\n    # TODO this numerical", expect="reg-twin"),
        Mutant("revert 787ace0 (forward): FracLapl dot rows not scaled by nspin^2", PL,
               "            feat[:, nk0 : nfeat - ndd] *= nspin * nspin\n", "", expect="amp"),
        Mutant("revert 787ace0 (backward): FracLapl vfeat dot rows scaled by nspin", PL,
               "            vfeat[:, nk0 : nfeat - ndd] *= nspin * nspin\n", "            vfeat[:, nk0 : nfeat - ndd] *= nspin\n",
               expect="pair"),
        Mutant("eval_feat_exp forgets nspin for the GGA exponent", PL, "                rhocut=self.rhocut,\n                nspin=self.nspin,\n            )\n            res = a, (dadn, dadsigma)",
               "                rhocut=self.rhocut,\n            )\n            res = a, (dadn, dadsigma)", expect="nspin-forward"),
        Mutant("C spin kernel: iteration skipped on aa+bb only", MU_C_REL,
               "double bb = _evaluate_se(xin_b + iloc, xctrl_b + cloc, exps, nfeat);\n            double aabb",
               "double bb = _evaluate_se(xin_b + iloc, xctrl_b + cloc, exps, nfeat);\n            if (aa + bb > 36) continue;\n            double aabb",
               expect="c-spin-mirror"),
        Mutant("revert dcbc797 (MOLGP): NPOL screen on the spin sum of the density feature", TR,
               "cond = X0T[:, 0].mean(0) < 1e-6", "cond = X0T[:, 0].sum(0) < 1e-6", expect="cutoff"),
        Mutant("revert dcbc797 (MOLGP2): SEP screen on the raw per-spin density", TR,
               "cond = rho_tuple[0].shape[0] * rho_tuple[0] < 1e-6", "cond = rho_tuple[0] < 1e-6", expect="cutoff"),
        Mutant("nelec of channel b accumulates den_a", NI, "nelec[1, i] += den_b.sum()", "nelec[1, i] += den_a.sum()",
               expect="ab-sym"),
        Mutant("NLDF eval_rho_full nspin factor removed (forward only)", PL, "        feat[:] *= self.nspin\n        # dfeat",
               "        # dfeat", expect="amp"),
    ]


if __name__ == "__main__":
    sys.exit(core.main(PROP, analyse, mutants, __doc__))
