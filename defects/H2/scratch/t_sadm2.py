from sdmx_ref import *
from ciderpress.dft.settings import *
from ciderpress.pyscf import sdmx as sdmx_fast, sdmx_slow
from pyscf.dft import gen_grid
import ctypes
np.random.seed(1)
mol = gto.M(atom="H 0 0 0; F 0 0 0.9", basis="def2-svp", spin=0, verbose=0)
ks = dft.RKS(mol); ks.xc='PBE'; ks.grids.level=1; ks.kernel()
dm = ks.make_rdm1()
coords = np.random.normal(size=(6,3))*0.8 + np.array([0,0,0.85])
# lebedev
from pyscf.dft.gen_grid import libdft
n=302
grid = np.empty((n,4)); libdft.MakeAngularGrid(grid.ctypes.data_as(ctypes.c_void_p), ctypes.c_int(n))
ang = grid[:,:3]; wang = grid[:,3]  # sum = 1
ao0 = eval_gto_fn(mol, 'GTOval_sph', coords)
c = ao0.dot(dm)
t = np.linspace(np.log(1e-4), np.log(40), 800); u = np.exp(t)
ref = np.zeros(len(coords))
for ig, r in enumerate(coords):
    pts = r[None,None,:] + u[:,None,None]*ang[None,:,:]
    ao = eval_gto_fn(mol, 'GTOval_sph', pts.reshape(-1,3)).reshape(len(u), n, -1)
    n1 = ao.dot(c[ig])  # (u, ang)
    sph = n1.dot(wang)
    ref[ig] = -np.pi*np.trapezoid(u*sph**2*u, t)
print('ref ', ref)
for modname, mod in [('fast', sdmx_fast), ('slow', sdmx_slow)]:
    for lambd in [1.8, 1.5]:
        s = SADMSettings('exact')
        gen = mod.EXXSphGenerator.from_settings_and_mol(s, 1, mol, lambd=lambd)
        f = gen.get_features(dm, mol, coords)
        print(modname, lambd, f[0])
