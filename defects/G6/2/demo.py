"""
C18: NLDFAuxiliaryPlan.new() / NLDFSplinePlan.new() does not reproduce the plan.

new() is the plan's copy-with-overrides constructor (used to derive e.g. the
nspin=2 or larger-nalpha plan from an existing one).  It forwards only part of
the constructor arguments: spline_size, raise_large_expnt_error and
use_smooth_expnt_cutoff are dropped, so the copy
  (a) has a different spline table (spline_size falls back to nalpha), i.e.
      silently different interpolation coefficients for the same exponent, and
  (b) gets the large-exponent behaviour of the defaults instead of the one the
      original plan was built with (the smooth cutoff is silently switched off /
      the guard silently switched back on).
"""
import os
import sys
import warnings

os.environ.setdefault("OMP_NUM_THREADS", "1")
sys.path.insert(0, os.path.dirname(os.path.abspath(__file__)))
import cbuild  # noqa: E402

lib = cbuild.build(["mod_cider/cider_coefs.c"])
cbuild.patch_loader(lib)

import numpy as np  # noqa: E402

from ciderpress.dft.plans import NLDFGaussianPlan, NLDFSplinePlan  # noqa: E402
from ciderpress.dft.settings import NLDFSettingsVJ  # noqa: E402

warnings.simplefilter("ignore")
st = NLDFSettingsVJ(
    "MGGA", [1.0, 0.0, 0.03125], "one", ["se", "se_ar2"], [[2.0, 0.0, 0.04]] * 2
)
ok = True

# (a) spline_size ---------------------------------------------------------
plan = NLDFSplinePlan(st, 1, 0.01, 1.8, 12, spline_size=48)
copy = plan.new()
print("spline_size: original", plan._spline_size, " new()", copy._spline_size)
rho = np.array([[0.3, 0.02, 1.5]])
sigma = np.array([[0.1, 0.001, 2.0]])
tau = np.array([[0.2, 0.004, 3.0]])
rho_data = np.zeros((5, 3))
rho_data[0], rho_data[1], rho_data[4] = rho[0], np.sqrt(sigma[0]), tau[0]
rt = plan.get_rho_tuple(rho_data)
p0 = plan.get_interpolation_coefficients(plan.get_interpolation_arguments(rt, i=0)[0], i=0)[0]
p1 = copy.get_interpolation_coefficients(copy.get_interpolation_arguments(rt, i=0)[0], i=0)[0]
err = np.abs(p0 - p1).max()
print("max |p(original) - p(new())| for the same density:", err)
if copy._spline_size != plan._spline_size or err > 1e-12:
    print("FAIL: expected new() to reproduce the plan (spline_size=48), observed",
          copy._spline_size, "and coefficients differing by", err)
    ok = False

# (b) large-exponent handling -----------------------------------------------
big = np.zeros((5, 1))
big[0] = 1e4  # exponent ~ 1e4**(2/3) * 2 >> alpha_max = 0.01 * 1.8**11
for cls in (NLDFGaussianPlan, NLDFSplinePlan):
    for kw in (dict(use_smooth_expnt_cutoff=True), dict(raise_large_expnt_error=False)):
        plan = cls(st, 1, 0.01, 1.8, 12, **kw)
        copy = plan.new()
        res = []
        for pl in (plan, copy):
            try:
                a = pl.eval_feat_exp(pl.get_rho_tuple(big), i=0)[0]
                res.append("a=%.4g" % a[0])
            except RuntimeError as e:
                res.append("RuntimeError(%s)" % str(e)[:30])
        same = (
            plan._raise_large_expnt_error == copy._raise_large_expnt_error
            and plan._use_smooth_expnt_cutoff == copy._use_smooth_expnt_cutoff
        )
        print(cls.__name__, kw, "original ->", res[0], "| new() ->", res[1])
        if not same or res[0] != res[1]:
            print("FAIL: new() changed the large-exponent handling of the plan")
            ok = False

print("OK" if ok else "DEFECT CONFIRMED")
sys.exit(0 if ok else 1)
