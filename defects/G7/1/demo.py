"""
C09: the slow SDMX generator must give the same numbers with lowmem=True
(one interpolation exponent at a time) as with lowmem=False (all exponents
in one buffer).  With l=0-only SDMX settings (every SDMXSettings, and any
SDMXFullSettings without l=1 terms) the lowmem branch crashes instead.
"""
import os, sys, traceback
sys.path.insert(0, os.path.dirname(os.path.abspath(__file__)))
import cider_env  # noqa: builds/loads the real C libraries
import numpy as np
from pyscf import gto, dft
from ciderpress.dft.settings import SDMXSettings, SDMXFullSettings
from ciderpress.pyscf import sdmx_slow

mol = gto.M(atom="O 0 0 0; H 0 -0.757 0.587; H 0 0.757 0.587", basis="6-31g", verbose=0)
ks = dft.RKS(mol); ks.xc = "PBE"; ks.grids.level = 0; ks.kernel()
dm = ks.make_rdm1()
coords = ks.grids.coords[:500]
fail = 0
for label, settings in [
    ("SDMXSettings([0,1,2])", SDMXSettings([0, 1, 2])),
    ("SDMXFullSettings l0 only", SDMXFullSettings({1.0: ([0, 1], [2, 1, 0, 0])})),
    ("SDMXFullSettings with l1", SDMXFullSettings({1.0: ([0, 1], [2, 1, 1, 1])})),
]:
    out = {}
    for lowmem in (False, True):
        gen = sdmx_slow.EXXSphGenerator.from_settings_and_mol(settings, 1, mol, lowmem=lowmem)
        try:
            feat = gen.get_features(dm, mol, coords)
            vgrid = np.cos(np.arange(feat.size)).reshape(feat.shape)
            vmat = np.zeros_like(dm)
            gen.get_vxc_(vmat, vgrid)
            out[lowmem] = (feat, vmat)
        except Exception as e:
            traceback.print_exc(limit=3)
            out[lowmem] = e
    print(label)
    if isinstance(out[True], Exception):
        print("  expected: lowmem=True returns the features of lowmem=False")
        print("  observed: lowmem=True raised %r" % (out[True],))
        fail += 1
    else:
        d1 = np.abs(out[True][0] - out[False][0]).max()
        d2 = np.abs(out[True][1] - out[False][1]).max()
        print("  max |feat(lowmem) - feat|  = %.2e, max |vmat(lowmem) - vmat| = %.2e" % (d1, d2))
        if d1 > 1e-10 or d2 > 1e-10:
            fail += 1
sys.exit(1 if fail else 0)
