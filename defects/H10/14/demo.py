"""C18 demo (low severity): FeatureSettings documents sl_settings as
"SemilocalSettings or EmptySettings" (default None -> EmptySettings), but every
combination of feature families WITHOUT semilocal features cannot even be constructed:
the default normaliser list is built from self.sl_settings.mode, which EmptySettings
does not have."""
import itertools
import sys

from ciderpress.dft.settings import (
    EmptySettings,
    FeatureSettings,
    FracLaplSettings,
    NLDFSettingsVJ,
    SDMXGSettings,
    SemilocalSettings,
)

nl = NLDFSettingsVJ("MGGA", [1.0, 0.0, 0.03], "one", ["se"], [[2.0, 0.0, 0.04]])
fl = FracLaplSettings([0.5], 1, 1, [(0, 0)], 1, [(0, -1)], 1)
sd = SDMXGSettings([0, 1], 1)
fails = 0
for sl, a, b, c in itertools.product(
    [SemilocalSettings("nst"), None, EmptySettings()], [None, nl], [None, fl], [None, sd]
):
    tag = "sl=%-17s nldf=%-14s nlof=%-16s sdmx=%s" % (
        type(sl).__name__, type(a).__name__, type(b).__name__, type(c).__name__)
    try:
        fs = FeatureSettings(sl_settings=sl, nldf_settings=a, nlof_settings=b, sdmx_settings=c)
        n = fs.nfeat
        ok = (fs.get_feat_loc()[-1] == n == len(fs.get_feat_usps()) == len(fs.ueg_vector())
              == len(fs.get_reasonable_normalizer()))
        print("ok  " if ok else "FAIL", tag, "nfeat=%d" % n)
        fails += 0 if ok else 1
    except AttributeError as e:
        print("FAIL", tag, "->", repr(e))
        fails += 1
print("failures:", fails)
sys.exit(1 if fails else 0)
