import sys, os, traceback
sys.path.insert(0, os.path.dirname(__file__))
from t_c19 import *
mol = gto.M(atom="O 0 0 0; H 0 0.76 0.59; H 0 -0.76 0.59", basis="sto-3g", verbose=0)
print(gen_grid.MakeAngularGrid(1))
g = CiderGrids(mol, lmax=4); g.atom_grid=(10,1); g.prune=None
try:
    g.build()
    ind = g.grids_indexer
    print(ind.ylm[:3], ind.dirs[:3])
except Exception: traceback.print_exc()
