#!/usr/bin/env python3
"""C10 -- results are independent of the OpenMP thread count and schedule.

Static rules (DESIGN.md §C10; engine sa/omp.py, on clang-14's JSON AST of every C file in
sa.cfacts.C_FILES).  This is a DEFINITE-RACE DETECTOR: each rule is a necessary condition of
schedule-independence.  It is not a race-freedom proof -- injectivity of index arithmetic derived
from the worksharing induction variable is assumed, read/write conflicts are not examined.

 region         every `omp parallel` region is parsed, its pragma text recovered and every store in
                it classified (one instance per region)
 shared-store   every store / callee output argument / BLAS output argument that reaches memory
                shared by the team is (a) partitioned: its address depends, through assignments and
                loop initialisers, on the induction variable of an enclosing worksharing loop or on
                omp_get_thread_num(); or (b) inside critical/atomic/single/master; or (c) a
                reduction variable; or (d) a named exception.  Anything else is executed by several
                threads on the same location.
 ws-uniform     worksharing loops, single and barrier are reached by all threads of the team: not
                nested in one another / in critical, not under control flow that depends on the
                thread id
 tid-scratch    a heap block of this function that threads split by thread id is sized by the thread
                count
 barrier-order  two accesses to the same flat shared object (array of numbers, scalar variable) made under
                different partitions -- thread id vs worksharing loop, two different worksharing loops that
                are not both schedule(static), single/master vs everybody -- at least one being a store, are
                separated by a barrier on every path (explicit, or implied at the END of for/sections/single
                without nowait; none at the entry of for/single, none for master/critical)
 block-clip     `B = (N + T - 1) / T; ip = B * t`: the block bound is clipped against N on every value path
 block-cover    T blocks of size B cover N: ceil idiom, or (floor-derived B) one block takes the remainder
 team-split     a block split indexed by omp_get_thread_num() is not sized by omp_get_max_threads()
 fill-extent    compute arm vs zero/skip arm of one work item write the same rows of the item's block
 partial-aggregate a thread-private value only accumulated in a worksharing loop is not used as the team result
 fp-table       calls through function pointers are resolved (targets read off the Python ctypes
                call sites and C assignments), so that callee write summaries apply
 callback-global C functions handed to a parallel driver as callbacks write no global / static

fft_wrapper/cider_fft.c is analysed twice: as configured in the working tree (FFTW backend) and with the
generated config header switched to the MKL backend (declaration-only mkl.h written to a scratch
directory), because its hand-threaded 3-D FFT loops exist only in that build configuration.
"""
import os
import re
import sys

sys.path.insert(0, os.path.dirname(os.path.dirname(os.path.abspath(__file__))))
from sa import core, cfacts, omp  # noqa: E402
from sa.selftest import Mutant  # noqa: E402

PROP = "C10"
LIBP = cfacts.LIB + "/"
ANCHORS = ["mod_cider/cider_coefs.c", "mod_cider/cider_grids.c", "mod_cider/convolutions.c",
           "mod_cider/conv_interpolation.c", "mod_cider/fast_sdmx.c", "mod_cider/model_utils.c",
           "mod_cider/frac_lapl.c", "numint_cider/nr_numint.c", "fft_wrapper/cider_fft.c"]
NO_REGION_EXPECTED = {"mod_cider/frac_lapl.c"}   # callbacks only; run inside PySCF's parallel driver
PY_CALLBACK_SITES = ["ciderpress/pyscf/sdmx.py", "ciderpress/pyscf/sdmx_slow.py",
                     "ciderpress/pyscf/frac_lapl.py"]

# Frozen on the pinned tree (read off the Python call sites); the reader must still find every row.
FROZEN_FP = {
    ("SDMXeval_loop", 0): {"SDMXeval_sph_iter"},
    ("SDMXeval_loop", 1): {"SDMXshell_eval_grid_cart", "SDMXshell_eval_grid_cart_deriv1"},
    ("SDMXeval_loop", 2): {"SDMXcontract_smooth0", "SDMXcontract_rsq0", "SDMXcontract_smooth1",
                           "SDMXcontract_rsq1"},
    ("SDMXeval_rad_loop", 0): {"SDMXrad_eval_grid", "SDMXrad_eval_grid_deriv1"},
    ("SDMXeval_rad_loop", 1): {"SDMXcontract_smooth0", "SDMXcontract_rsq0", "SDMXcontract_smooth1",
                               "SDMXcontract_rsq1"},
    ("GTOeval_sph_drv", 1): {"GTOcontract_flapl0", "GTOcontract_flapl1"},
}

# The one excused shape (sa.omp.Region._flag_normalisation, matched structurally, not by name): a shared scalar
# flag v stored with the literal that agrees with the branch of `if (v)` / `switch (v)` being executed.
# Today's two instances, with the reason recorded for them:
EXCEPTIONS = {
    ("multiply_atc_integrals", "fwd"):
        "by-value parameter normalised to 0/1 under `if (fwd)`: every thread stores the constant "
        "selected by the branch it has just taken, and only reads it back after its own store",
    ("multiply_atc_integrals_vk", "fwd"):
        "by-value parameter normalised to 0/1 under `if (fwd)`: every thread stores the constant "
        "selected by the branch it has just taken, and only reads it back after its own store",
}


def _short(s, n=110):
    s = re.sub(r"\s+", " ", s).strip()
    return s if len(s) <= n else s[: n - 3] + "..."


def build(chk):
    tree = chk.tree
    for a in ANCHORS:
        if not tree.exists(LIBP + a):
            raise core.AnalysisError("anchored file %s vanished" % a)
        if a not in cfacts.C_FILES:
            raise core.AnalysisError("anchored file %s is not parsed (sa.cfacts.C_FILES)" % a)
    # parse in parallel only when the digest-keyed cache is cold: forking a worker pool per run is the
    # dominant cost of the mutation self-test otherwise (one mutated file = one clang run)
    cold = 0
    for rel in cfacts.C_FILES:
        full = LIBP + rel
        if full in tree.overlay:
            continue
        cp = os.path.join(cfacts.CACHE, "%s.%s.json" % (rel.replace("/", "_"), cfacts._digest(tree, rel, tree.read(full))))
        if not os.path.exists(cp):
            cold += 1
    tus = cfacts.load_all(tree, cfacts.C_FILES, jobs=16 if cold > 1 else 1)
    chk.count("C translation units", len(tus))
    defined = set()
    for tu in tus.values():
        defined |= set(tu.funcs)
    chk.count("C functions", len(defined))
    pys = sorted(set(PY_CALLBACK_SITES) | {
        p for p in tree.glob("ciderpress/**/*.py") if "/tests/" not in p and "/gpaw/" not in p})
    table, nsites = omp.read_py_callbacks(tree, pys)
    chk.count("python files scanned for callbacks", len(pys))
    # rows of the frozen table that the call-site reader no longer finds (the Python side was restructured in
    # a way it does not read) fall back to the frozen targets that still exist: the C analysis goes on
    read_rows = {(drv, pos) for (lib, drv, pos) in table}
    for (drv, pos), want in FROZEN_FP.items():
        if (drv, pos) not in read_rows:
            lib = "libcider" if drv in defined else "libcgto"
            keep = {("libcider", n) for n in want if n in defined}
            if keep:
                table[(lib, drv, pos)] = keep
                chk.note("fp-table", "%s arg %d" % (drv, pos),
                         "no Python call site read for this row; using the frozen targets %s" % sorted(n for _, n in keep))
    seeds = {}
    for (lib, drv, pos), targets in table.items():
        if drv in defined:
            seeds[(drv, pos)] = {n for _, n in targets}
    prog = omp.Program(tus, seeds)
    # Second look, only when needed: a callee that no .c file defines (a `static inline` helper living in a
    # repository header is part of the TU) or an indirect call without target (constant table of function
    # pointers at file scope).  sa.cfacts keeps neither; sa.omp.load_extra_decls reads them.
    need = set()
    for name, f in prog.funcs.items():
        for c in f.calls:
            names, indirect = prog.call_targets(f, c)
            if indirect and not names:
                need.add(f.tu.rel)
            for nm in names:
                if nm in prog.unknown_externals:
                    need.add(f.tu.rel)
    if need:
        gtables = {}
        added = 0
        for rel in sorted(need):
            if rel not in cfacts.C_FILES:
                continue
            htus, gt = omp.load_extra_decls(tree, rel)
            for k, v in gt.items():
                gtables.setdefault(k, set()).update(v)
            for hrel, htu in htus.items():
                if hrel in tus:
                    for fn_, d_ in htu.funcs.items():
                        tus[hrel].funcs.setdefault(fn_, d_)
                else:
                    tus[hrel] = htu
                added += len(htu.funcs)
        if added or gtables:
            chk.count("functions defined in repository headers", added)
            chk.count("constant function-pointer tables", len(gtables))
            defined = set()
            for tu in tus.values():
                defined |= set(tu.funcs)
            prog = omp.Program(tus, seeds, gtables)
    return tus, prog, table, defined


def rule_fp(chk, prog, table, defined):
    read = {}
    for (lib, drv, pos), targets in table.items():
        read.setdefault((drv, pos), set()).update(n for _, n in targets)
    for key, want in sorted(FROZEN_FP.items()):
        got = read.get(key)
        if not got:
            chk.note("fp-table", "%s arg %d" % key, "row vanished and none of its frozen targets %s is defined "
                                                    "any more" % sorted(want))
            continue
        if not want <= got:
            chk.note("fp-table", "%s arg %d" % key, "frozen targets %s no longer passed (now %s)" % (
                sorted(want - got), sorted(got)))
    for (drv, pos), got in sorted(read.items()):
        inst = "python -> %s arg %d = {%s}" % (drv, pos, ", ".join(sorted(got)))
        if drv in defined:
            missing = sorted(n for n in got if n not in defined)
            if missing:
                raise core.AnalysisError("callback(s) %s passed to %s are not defined in any analysed "
                                         "translation unit" % (missing, drv))
        chk.ok("fp-table", inst, detail="new row (not in the frozen table)" if (drv, pos) not in FROZEN_FP else None)
    n = 0
    for name in sorted(prog.funcs):
        f = prog.funcs[name]
        seen = set()
        for c in f.calls:
            names, indirect = prog.call_targets(f, c)
            if not indirect:
                continue
            ctext = f.tu.text_of(cfacts.kids(c)[0])
            if (name, ctext) in seen:
                continue
            seen.add((name, ctext))
            n += 1
            if names:
                chk.ok("fp-table", "%s: %s -> {%s}" % (name, ctext, ", ".join(names)))
            else:
                # only fatal if reached from a parallel region (raised there)
                chk.note("fp-table", "%s:%s" % (f.tu.rel, name), "indirect call %s has no known target" % ctext)
    chk.count("indirect C call sites", n)


def rule_callbacks(chk, prog, table, defined):
    seen = set()
    for (lib, drv, pos), targets in sorted(table.items()):
        for tlib, name in sorted(targets):
            if name in seen:
                continue
            if name not in defined:
                if tlib == "libcider":
                    raise core.AnalysisError("callback %s (passed to %s) is not defined in any analysed "
                                             "translation unit" % (name, drv))
                chk.note("callback-global", name, "external callback from %s (not analysed)" % tlib)
                continue
            seen.add(name)
            f = prog.funcs[name]
            s = prog.summary[name]
            inst = "%s:%s (callback of %s)" % (f.tu.rel, name, drv)
            if s.gwrites:
                chk.violation("callback-global", LIBP + f.tu.rel, name,
                              "writes global " + ", ".join(sorted(s.gwrites)), f.tu.line_of(f.decl),
                              "%s is handed to the parallel driver %s as a callback and is executed "
                              "concurrently by the threads of its team, but it (or a callee) stores to "
                              "the global/static variable(s) %s: expected stores only through its pointer "
                              "parameters" % (name, drv, ", ".join(sorted(s.gwrites))), instance=inst)
            elif s.unresolved:
                raise core.AnalysisError("callback %s: %s" % (name, sorted(s.unresolved)[0]))
            else:
                chk.ok("callback-global", inst, detail="writes only through parameter(s) %s" % sorted(s.writes))


def collect_regions(chk, prog, tag="", skip_lines=None):
    """-> (regions, per_file counts).  skip_lines: {rel: set(line)} regions already analysed in the
    default configuration (used by configuration variants)."""
    per_file = {}
    regions = []
    for name in sorted(prog.funcs):
        f = prog.funcs[name]
        for k, node in enumerate(f.regions):
            if skip_lines is not None and f.tu.line_of(node) in skip_lines.get(f.tu.rel, ()):
                continue
            try:
                regions.append(omp.Region(prog, f, node, k + 1, EXCEPTIONS))
            except core.AnalysisError as e:
                chk.errors.append("region %s:%s#%d%s: %s" % (f.tu.rel, name, k + 1, tag, e))
            per_file[f.tu.rel] = per_file.get(f.tu.rel, 0) + 1
        if f.has_omp_outside_region:
            chk.errors.append("%s:%s has OpenMP constructs outside any parallel region (orphaned "
                              "constructs are not modelled)" % (f.tu.rel, name))
    return regions, per_file


def rule_regions(chk, prog, tus):
    regions, per_file = collect_regions(chk, prog)
    for a in ANCHORS:
        if a not in NO_REGION_EXPECTED and not per_file.get(a):
            raise core.AnalysisError("anchored file %s has no parallel region any more" % a)
    chk.extra["regions_per_file"] = dict(sorted(per_file.items()))
    used_exc = report_regions(chk, regions)
    chk.count("parallel regions", len(regions))
    chk.count("worksharing loops", sum(len(r.ws_loops) for r in regions))
    chk.count("stores and output arguments classified", sum(len(r.items) for r in regions))
    cls = {}
    for r in regions:
        for it in r.items:
            cls[it.cls] = cls.get(it.cls, 0) + 1
    chk.extra["classification_totals"] = dict(sorted(cls.items()))
    return {rel: {r.line for r in regions if r.tu.rel == rel} for rel in per_file}


def report_regions(chk, regions, tag=""):
    used_exc = set()
    for r in regions:
        rel = LIBP + r.tu.rel
        rid = "%s:%s#%d%s" % (r.tu.rel, r.func.name, r.ordinal, tag)
        counts = {}
        groups = {}
        for it in r.items:
            counts[it.cls] = counts.get(it.cls, 0) + 1
            if it.cls in ("private",):
                continue
            what = _short(it.text, 90)
            if it.kind == "call":
                what = "arg %d (%s) of call %s" % (it.argi, _short(r.tu.text_of(it.expr), 40), it.callee)
            elif it.kind == "global":
                what = "global %s written by callee %s" % (it.base, it.callee)
            inst = "%s: %s" % (rid, what)
            if it.cls == "violation":
                groups.setdefault((it.kind, it.base, r._describe(it.objs)), []).append(it)
            elif it.cls == "unresolved":
                chk.note("shared-store", "%s:%d" % (rel, it.line), "not classified (%s): %s" % (it.why, what))
            else:
                if it.cls == "exception":
                    used_exc.add((r.func.name, it.base))
                    chk.note("shared-store", "%s:%d" % (rel, it.line),
                             "benign flag normalisation %s:%s -- %s" % (r.func.name, it.base, it.why))
                chk.ok("shared-store", inst, detail="%s: %s" % (it.cls, it.why))
        # an output argument passed in a *shared pointer variable* that the region itself overwrites is the
        # same defect as the store to that variable: report it once
        shared_var_bases = {b: k for k in groups for b in [k[1]] if k[0] == "store" and k[2] == "variable " + k[1]}
        for k in [k for k in groups if k[0] == "call" and k[1] in shared_var_bases]:
            groups[shared_var_bases[k[1]]] += groups.pop(k)
        for (kind, base, desc), its in sorted(groups.items(), key=lambda kv: kv[1][0].line):
            its = sorted(its, key=lambda i: i.line)
            stmts = "; ".join("`%s` (line %d)" % (_short(i.text, 70), i.line) for i in its[:8])
            first = its[0]
            if kind == "global":
                construct = "callee %s writes global %s" % (first.callee, base)
                expl = "the callee stores to a global variable from every thread"
            elif kind == "call":
                construct = "output argument of %s -> %s" % (first.callee, desc)
                expl = ("the callee %s writes through this argument, and %s" % (
                    first.callee, first.why or "the address it writes does not depend on any thread-partitioned argument"))
            else:
                construct = "unpartitioned store to %s" % desc
                expl = first.why or "the address does not depend on a worksharing induction variable or on the thread id"
            chk.violation(
                "shared-store", rel, r.func.name, construct, first.line,
                "parallel region at line %d%s (%s): %s (through `%s`) target shared memory (%s); %s, the statement is not inside "
                "critical/atomic/single/master and the target is neither private nor a reduction variable => "
                "several threads write the same location (definite write-write race; expected: a worksharing "
                "loop whose induction variable selects the element, a per-thread buffer, or a reduction)" % (
                    r.line, (" " + tag + ", compiled only in that build configuration") if tag else "",
                    r.pragma.text, stmts, base, desc, expl),
                instance="%s: %s" % (rid, construct))
        chk.ok("region", rid, detail="%s; stores/out-args: %s; %d worksharing loop(s)" % (
            r.pragma.text, ", ".join("%d %s" % (v, k) for k, v in sorted(counts.items())), len(r.ws_loops)))
        # worksharing constructs reached uniformly
        for k, (node, kind, ptext, depth) in enumerate(r.uniform_ok):
            if any(node is n for n, _ in r.nesting):
                continue
            chk.ok("ws-uniform", "%s: construct %d %s" % (rid, k + 1, ptext),
                   nontrivial=depth > 0 or kind != "parallel for",
                   detail="%d enclosing control statement(s), none thread-dependent" % depth)
        for node, kind, why in r.nonuniform:
            chk.violation("ws-uniform", rel, r.func.name, "omp %s under thread-dependent control flow" % kind,
                          r.tu.line_of(node),
                          "`#pragma omp %s` at line %d must be encountered by every thread of the team, but the %s"
                          % (kind, r.tu.line_of(node), why), instance="%s: omp %s (thread-dependent)" % (rid, kind))
        for node, why in r.nesting:
            chk.violation("ws-uniform", rel, r.func.name, "illegal nesting: " + why, r.tu.line_of(node),
                          "construct at line %d: %s -- not every thread of the team can encounter it"
                          % (r.tu.line_of(node), why), instance="%s: nesting %s" % (rid, why))
        for kind, obj, wbase, rtext in r.barrier_deps:
            chk.ok("barrier-order", "%s: %s of %s (%s) ordered after/before the store through %s" % (
                rid, "read" if kind == "read" else "second store", obj, _short(rtext, 50), wbase),
                   detail="different partitions, separated by a barrier on every path")
        bgroups = {}
        for c in r.barrier_conflicts:
            bgroups.setdefault(c["object"], []).append(c)
        for obj, cs in sorted(bgroups.items()):
            cs = sorted(cs, key=lambda c: (c["wline"], c["rline"]))
            c0 = cs[0]
            pairs = "; ".join(
                "`%s` (line %d, %s) vs %s `%s` (line %d, %s)" % (
                    _short(c["wtext"], 60), c["wline"],
                    ("partitioned by " + c["wpart"]) if not c["wpart"].startswith("no partition") else c["wpart"],
                    "read" if c["kind"] == "read" else "store", _short(c["rtext"], 50), c["rline"],
                    ("partitioned by " + c["rpart"]) if not c["rpart"].startswith("no partition") else c["rpart"])
                for c in cs[:4])
            chk.violation(
                "barrier-order", rel, r.func.name, "no barrier between differently partitioned accesses to " + obj,
                c0["rline"],
                "parallel region at line %d%s: %s is written and then %s by (potentially) a different thread "
                "without a barrier in between: %s. Expected an `omp barrier`, or the implied barrier at the end of "
                "an `omp for`/`sections`/`single` without `nowait`, on every path between the two (note: `omp for` "
                "and `omp single` have no barrier at their entry; `master`/`critical` have none at all)" % (
                    r.line, (" " + tag) if tag else "", obj,
                    "read" if c0["kind"] == "read" else "written again", pairs),
                instance="%s: barrier-order %s" % (rid, obj))
        for ok, desc, node, etext in r.block_clips:
            if ok:
                chk.ok("block-clip", desc, detail="every value path is clipped against the total")
            elif " passed to " in desc:
                chk.violation("block-clip", rel, r.func.name, "possibly negative block length passed to an unsigned "
                              "parameter", r.tu.line_of(node),
                              "%s: `%s`. With a ceil split the clipped length N - ip is negative for the surplus threads "
                              "when the problem is small relative to the team; as a signed loop bound that means no "
                              "work, as an unsigned argument the callee sweeps far beyond the thread's block. Expected "
                              "`if (len > 0)` around the call, or a signed parameter" % (desc, etext), instance=desc)
            else:
                chk.violation("block-clip", rel, r.func.name, "block bound of a ceil split by the thread count not "
                              "clipped against the total", r.tu.line_of(node),
                              "%s: the value `%s` has a path on which the block keeps its full length without any "
                              "comparison against the total, but with a ceil split the block of a thread other than "
                              "the last already sticks out whenever (T-1)*ceil(N/T) > N (e.g. N=5, T=4; N=130, T=16): "
                              "expected MIN(ip + B, N) - ip, MIN(B, N - ip) or an `if` clipping against N" % (
                                  desc, etext), instance=desc)
        for ok, desc, node, why in r.partials:
            if ok:
                chk.ok("partial-aggregate", "%s: %s" % (rid, desc.split(": ", 1)[1]),
                       detail="no use as a team-wide result found")
            else:
                chk.violation("partial-aggregate", rel, r.func.name,
                              "thread-private partial aggregate used as the team-wide result", r.tu.line_of(node),
                              "%s holds, after the loop, only the aggregate over the iterations this thread was given "
                              "(it is private and there is no reduction clause), but %s. Expected a reduction(...) "
                              "clause, a combination by every thread under critical/atomic, or a per-thread slot that "
                              "is combined after a barrier" % (desc, why),
                              instance="%s: %s" % (rid, desc.split(": ", 1)[1]))
        for ok, desc, node, why in r.block_covers:
            if ok:
                chk.ok("block-cover", desc, detail=why)
            else:
                chk.violation("block-cover", rel, r.func.name, "blocks of a floor-derived size do not cover the total",
                              r.tu.line_of(node),
                              "%s: the block size equals the floor quotient N/T for some sizes (e.g. when it is "
                              "already a multiple of the padding), the blocks then cover only T*floor(N/T) points and "
                              "no block takes the remainder N - ip: the last N %% T points are never processed, and the "
                              "result depends on the team size. Expected B = (N + T - 1) / T, or a remainder branch "
                              "for the last block" % desc, instance=desc)
        for ok, desc, node, tname in r.team_splits:
            if ok:
                chk.ok("team-split", desc, detail="block index is the thread id; thread count is not omp_get_max_threads()")
            else:
                chk.violation("team-split", rel, r.func.name, "work split by thread id over omp_get_max_threads() blocks",
                              r.tu.line_of(node),
                              "%s: the block index is omp_get_thread_num() but the number of blocks `%s` comes from "
                              "omp_get_max_threads(), which is only an upper bound of the team actually delivered "
                              "(OMP_THREAD_LIMIT, OMP_DYNAMIC, nested regions): the blocks of the missing threads are "
                              "never processed. Expected omp_get_num_threads() taken inside the region" % (desc, tname),
                              instance=desc)
        for ok, desc, node in r.tid_scratch:
            if ok:
                chk.ok("tid-scratch", desc)
            else:
                chk.violation("tid-scratch", rel, r.func.name, "thread-id indexed buffer not sized by thread count",
                              r.tu.line_of(node),
                              "%s: the allocation size does not depend on omp_get_num_threads()/"
                              "omp_get_max_threads(), so the slices of different threads overlap or overrun" % desc,
                              instance=desc)
    return used_exc


MKL_TAG = "[FFT_BACKEND=MKL]"
MKL_AUX = {
    "cider_fft_config.h": "#ifndef _CIDER_FFT_CONFIG_H\n#define _CIDER_FFT_CONFIG_H\n#define FFT_MKL_BACKEND 1\n"
                          "#define FFT_FFTW_BACKEND 2\n#define HAVE_MPI 0\n#define FFT_BACKEND 1\n#endif\n",
    "mkl_dfti.h": "#include <mkl.h>\n",
    "mkl_types.h": "#include <mkl.h>\n",
    # declaration-only stand-in for Intel MKL's DFTI interface; used for parsing only
    "mkl.h": """#ifndef _VERIF_MKL_STUB_H
#define _VERIF_MKL_STUB_H
#include <stddef.h>
typedef long long MKL_LONG;
struct DFTI_DESCRIPTOR;
typedef struct DFTI_DESCRIPTOR *DFTI_DESCRIPTOR_HANDLE;
enum DFTI_CONFIG_PARAM { DFTI_FORWARD_DOMAIN = 0, DFTI_DIMENSION = 1, DFTI_LENGTHS = 2, DFTI_PRECISION = 3,
  DFTI_FORWARD_SCALE = 4, DFTI_BACKWARD_SCALE = 5, DFTI_NUMBER_OF_TRANSFORMS = 7, DFTI_COMPLEX_STORAGE = 8,
  DFTI_REAL_STORAGE = 9, DFTI_CONJUGATE_EVEN_STORAGE = 10, DFTI_PLACEMENT = 11, DFTI_INPUT_STRIDES = 12,
  DFTI_OUTPUT_STRIDES = 13, DFTI_INPUT_DISTANCE = 14, DFTI_OUTPUT_DISTANCE = 15, DFTI_WORKSPACE = 17,
  DFTI_ORDERING = 18, DFTI_TRANSPOSE = 19, DFTI_DESCRIPTOR_NAME = 20, DFTI_PACKED_FORMAT = 21,
  DFTI_COMMIT_STATUS = 22, DFTI_VERSION = 23, DFTI_NUMBER_OF_USER_THREADS = 26, DFTI_THREAD_LIMIT = 27,
  DFTI_DESTROY_INPUT = 28 };
enum DFTI_CONFIG_VALUE { DFTI_COMMITTED = 30, DFTI_UNCOMMITTED = 31, DFTI_COMPLEX = 32, DFTI_REAL = 33,
  DFTI_SINGLE = 35, DFTI_DOUBLE = 36, DFTI_COMPLEX_COMPLEX = 39, DFTI_COMPLEX_REAL = 40, DFTI_REAL_COMPLEX = 41,
  DFTI_REAL_REAL = 42, DFTI_INPLACE = 43, DFTI_NOT_INPLACE = 44, DFTI_ORDERED = 48, DFTI_BACKWARD_SCRAMBLED = 49,
  DFTI_ALLOW = 51, DFTI_AVOID = 52, DFTI_NONE = 53, DFTI_CCS_FORMAT = 54, DFTI_PACK_FORMAT = 55,
  DFTI_PERM_FORMAT = 56, DFTI_CCE_FORMAT = 57 };
MKL_LONG DftiCreateDescriptor(DFTI_DESCRIPTOR_HANDLE *, enum DFTI_CONFIG_VALUE, enum DFTI_CONFIG_VALUE, MKL_LONG, ...);
MKL_LONG DftiSetValue(DFTI_DESCRIPTOR_HANDLE, enum DFTI_CONFIG_PARAM, ...);
MKL_LONG DftiGetValue(DFTI_DESCRIPTOR_HANDLE, enum DFTI_CONFIG_PARAM, ...);
MKL_LONG DftiCommitDescriptor(DFTI_DESCRIPTOR_HANDLE);
MKL_LONG DftiComputeForward(DFTI_DESCRIPTOR_HANDLE, void *, ...);
MKL_LONG DftiComputeBackward(DFTI_DESCRIPTOR_HANDLE, void *, ...);
MKL_LONG DftiFreeDescriptor(DFTI_DESCRIPTOR_HANDLE *);
char *DftiErrorMessage(MKL_LONG);
MKL_LONG DftiErrorClass(MKL_LONG, MKL_LONG);
int mkl_get_max_threads(void);
void mkl_set_num_threads(int);
void *mkl_malloc(size_t, int);
void mkl_free(void *);
#endif
""",
}


def rule_mkl_variant(chk, base_lines):
    """fft_wrapper/cider_fft.c compiles its hand-threaded 3-D FFT only when CMake selects the MKL backend
    (BUILD_WITH_MKL); the generated cider_fft_config.h in the working tree selects FFTW, so the default
    parse never sees those regions.  Parse the same file once more with the other generated header."""
    rel = "fft_wrapper/cider_fft.c"
    text = chk.tree.read(LIBP + rel)
    if "FFT_MKL_BACKEND" not in text:
        chk.note("region", rel, "no MKL-only code any more; configuration variant skipped")
        return
    vtu = omp.load_variant(chk.tree, rel, ["cider_fft.h"], MKL_AUX, "mkl")
    vprog = omp.Program({rel: vtu}, {})
    regions, per_file = collect_regions(chk, vprog, MKL_TAG, skip_lines=base_lines)
    report_regions(chk, regions, MKL_TAG)
    chk.count("parallel regions only in the MKL configuration", len(regions))
    cls = {}
    for r in regions:
        for it in r.items:
            cls[it.cls] = cls.get(it.cls, 0) + 1
    chk.extra["classification_totals_mkl_variant"] = dict(sorted(cls.items()))
    chk.extra["configuration_variants"] = {
        rel: "parsed a second time with FFT_BACKEND=FFT_MKL_BACKEND (generated config header and a "
             "declaration-only mkl.h written to a scratch directory); %d additional region(s)" % len(regions)}


def rule_fill_extent(chk, prog, tus):
    """compute branch vs zero/skip branch of one work item must write the same rows of the item's block"""
    for r in omp.fill_extents(prog, set(tus)):
        f = r["func"]
        if r["ok"]:
            chk.ok("fill-extent", r["inst"], nontrivial=not r["unknown"], detail=r["detail"])
            if r["unknown"]:
                chk.note("fill-extent", "%s:%s" % (f.tu.rel, f.name), r["detail"])
        else:
            chk.violation("fill-extent", LIBP + f.tu.rel, f.name,
                          "alternative branches write different extents of the block behind *%s" % r["pname"],
                          f.tu.line_of(r["node"]),
                          "%s: %s. The rows beyond the ones the work item owns belong to the next item, which another "
                          "iteration of the work-shared loop that calls this function (another thread) writes: a data "
                          "race, plus a deterministic overwrite / out-of-bounds write at the end of the block. Expected "
                          "both arms to write the same rows (same row count per call, no overlapping calls)" % (
                              r["inst"], r["detail"]), instance=r["inst"])


def analyse(chk):
    chk.rule("region", "every parallel region parsed and every store in it classified")
    chk.rule("shared-store", "stores to team-shared memory are partitioned by the worksharing variable / thread "
                             "id, protected, a reduction, or a named exception")
    chk.rule("ws-uniform", "worksharing loops, single and barrier are reached by all threads of the team")
    chk.rule("tid-scratch", "buffers split by thread id are sized by the thread count")
    chk.rule("fill-extent", "the compute arm and the zero/skip arm of a work item write the same rows of its block "
                            "(rows x stride footprints of the callees, compared symbolically)")
    chk.rule("partial-aggregate", "a thread-private value accumulated in a worksharing loop is not used as the "
                                  "team-wide result (applied by one thread only, or used under another distribution)")
    chk.rule("block-cover", "T blocks of the chosen size cover the total (ceil idiom, or a remainder branch)")
    chk.rule("team-split", "a split indexed by the thread id uses the delivered team size, not omp_get_max_threads()")
    chk.rule("block-clip", "blocks of a ceil split by the thread count are clipped against the total on every path")
    chk.rule("barrier-order", "accesses to one shared object under different partitions (thread id / worksharing "
                              "loop / single) are separated by a barrier on every path")
    chk.rule("fp-table", "function-pointer calls resolved through the table read off the Python call sites")
    chk.rule("callback-global", "callbacks run by parallel drivers write no global or static variable")
    tus, prog, table, defined = build(chk)
    chk.guard(rule_fp, prog, table, defined)
    chk.guard(rule_callbacks, prog, table, defined)
    base_lines = chk.guard(rule_regions, prog, tus)
    if base_lines is not None:
        chk.guard(rule_mkl_variant, base_lines)
    chk.guard(rule_fill_extent, prog, tus)
    chk.floor("region", 50, "108 parallel regions on the pinned tree; floor = half, a floor only guards against a vacuous pass")
    chk.floor("shared-store", 170, "350 stores/output arguments reaching shared memory on the pinned tree")
    chk.floor("ws-uniform", 55, "119 worksharing/single/barrier constructs on the pinned tree")
    chk.floor("fill-extent", 1, "SDMXeval_rad_iter and SDMXeval_sph_iter on the pinned tree")
    chk.floor("block-cover", 3, "7 block splits by a thread count on the pinned tree")
    chk.floor("block-clip", 3, "7 ceil-split block bounds on the pinned tree")
    chk.floor("barrier-order", 2, "4 dependences between differently partitioned accesses that can both execute (pinned tree)")
    chk.floor("fp-table", 6, "7 Python rows + 6 indirect C call sites on the pinned tree")
    chk.floor("callback-global", 8, "16 libcider callbacks on the pinned tree")
    chk.extra["named_exceptions"] = {"%s:%s" % k: v for k, v in EXCEPTIONS.items()}
    chk.extra["extern_output_argument_table"] = {k: v for k, v in sorted(omp.EXTERN_WRITES.items()) if v}
    chk.extra["frozen_function_pointer_table"] = {"%s arg %d" % k: sorted(v) for k, v in FROZEN_FP.items()}
    chk.assumptions += [
        "DEFINITE-RACE DETECTOR, not a race-freedom proof: every rule is a necessary condition of "
        "schedule-independence; a silent run does not prove the absence of races",
        "index arithmetic derived from the worksharing induction variable / thread id is assumed injective "
        "(needs run-time table contents: ao_loc, rad_loc, atm_g, ...)",
        "label propagation inside a region is flow-insensitive: a private variable counts as partitioned in a "
        "worksharing loop if any assignment to it in that loop depends on the loop's induction variable",
        "data dependence only (assignments, loop initialisers, callee address-dependency summaries); control "
        "dependence (loop bounds, if conditions) is not counted as partitioning",
        "points-to analysis is field-insensitive and collapses everything reachable from a pointer parameter "
        "into one object",
        "BLAS/LAPACK/libc/FFTW/libxc output arguments come from a frozen table; an external function with "
        "pointer arguments that is not in the table and is called in a region is an analysis error",
        "callbacks passed to PySCF's own driver (GTOeval_sph_drv) are assumed to run concurrently",
        "barrier-order: only flat objects (arrays of numbers reached through a single-level pointer parameter, "
        "heap blocks, scalar variables) and accesses written in the region's own text or through callee write "
        "summaries; two accesses under different partitions of one object are assumed to overlap unless one is a "
        "fixed element; serial loops run at least once; a barrier on any branch of an `if` counts as ordering what "
        "follows; two different worksharing loops are the same partition only if both are schedule(static)",
        "block-clip: only the idiom B = (N + T - 1) / T with T derived from omp_get_num_threads()/"
        "omp_get_max_threads(); a value path counts as clipped as soon as one of its guards mentions N",
    ]
    chk.not_decided += [
        "floating-point reassociation inside BLAS and inside omp reductions",
        "injectivity of index maps (two iterations writing the same element through run-time tables)",
        "read/write conflicts through callee *reads*, through struct fields / pointer tables (collapsed objects), "
        "or between iterations of the same worksharing loop (stencils)",
        "partition arithmetic other than the ceil-split idiom (block-clip) and the tid-scratch sizing rule",
        "nested parallelism, tasks, target/teams (analysis error if they appear); conflicts between two "
        "different `section`s; atomics on the wrong granularity",
    ]


# ----------------------------------------------------------------------------
# mutants
# ----------------------------------------------------------------------------
def _in_func(rel, func, old, new, count=1):
    """replace inside the text of one C function (from its name to the next line starting with `}`)"""
    def fn(text):
        m = re.search(r"^[A-Za-z_][^\n;]*\b%s\s*\(" % re.escape(func), text, re.M)
        if not m:
            return None
        end = text.find("\n}\n", m.start())
        if end < 0:
            return None
        seg = text[m.start():end]
        idx = -1
        for _ in range(count):
            idx = seg.find(old, idx + 1)
            if idx < 0:
                return None
        seg = seg[:idx] + new + seg[idx + len(old):]
        return text[:m.start()] + seg + text[end:]
    return fn


def _chain(*fns):
    def fn(text):
        for f in fns:
            text = f(text)
            if text is None:
                return None
        return text
    return fn


def mutants(tree):
    CO = LIBP + "mod_cider/cider_coefs.c"
    CV = LIBP + "mod_cider/convolutions.c"
    CI = LIBP + "mod_cider/conv_interpolation.c"
    CG = LIBP + "mod_cider/cider_grids.c"
    FS = LIBP + "mod_cider/fast_sdmx.c"
    PB = LIBP + "mod_cider/pbc_tools.c"
    FL = LIBP + "mod_cider/frac_lapl.c"
    MU = LIBP + "mod_cider/model_utils.c"
    NR = LIBP + "numint_cider/nr_numint.c"
    m = []
    m.append(Mutant("delete `#pragma omp for` around a dgemm (multiply_atc_integrals)", CV, expect="shared-store",
                    fn=_in_func(CV, "multiply_atc_integrals", "#pragma omp for schedule(dynamic, 4)\n", "")))
    m.append(Mutant("delete `#pragma omp for` nested in a serial loop (cider_coefs_vk1_qg)", CO,
                    expect="shared-store", fn=_in_func(CO, "cider_coefs_vk1_qg", "#pragma omp for\n", "")))
    m.append(Mutant("`parallel for` -> `parallel` (model_utils.c, first region)", MU, expect="shared-store",
                    old="#pragma omp parallel for\n", new="#pragma omp parallel\n"))
    m.append(Mutant("hoist per-thread accumulator out of the region (add_lp1_term_grad)", CI, expect="shared-store",
                    fn=_in_func(CI, "add_lp1_term_grad",
                                "#pragma omp parallel\n    {\n        int g;\n        double *f0_q;\n        double *f1_q;\n"
                                "        double fac;\n        int ib;\n"
                                "        double *tmp = (double *)malloc(natm * 3 * sizeof(double));\n",
                                "    double *tmp = (double *)malloc(natm * 3 * sizeof(double));\n"
                                "#pragma omp parallel\n    {\n        int g;\n        double *f0_q;\n        double *f1_q;\n"
                                "        double fac;\n        int ib;\n")))
    m.append(Mutant("scratch buffer passed to a callee allocated outside the region (SDMXeval_rad_loop)", FS,
                    expect="shared-store",
                    fn=_chain(
                        _in_func(FS, "SDMXeval_rad_loop",
                                 "    const size_t Ngrids = ngrids;\n#pragma omp parallel\n",
                                 "    const size_t Ngrids = ngrids;\n    double *sbuf = malloc(sizeof(double) * BLKSIZE * "
                                 "(NPRIMAX * 2 + NCTR_CART * 16 + 1));\n#pragma omp parallel\n"),
                        _in_func(FS, "SDMXeval_rad_loop",
                                 "        double *buf =\n            malloc(sizeof(double) * BLKSIZE * "
                                 "(NPRIMAX * 2 + ncart + 1));\n",
                                 "        double *buf = sbuf;\n"))))
    m.append(Mutant("`total +=`-style accumulation into a shared scalar (contract_grad_terms_old)", CI,
                    expect="shared-store",
                    fn=_in_func(CI, "contract_grad_terms_old", "                tmp[ia] += f_g[g];\n",
                                "                tmp[ia] += f_g[g];\n                ib += 1;\n")))
    m.append(Mutant("remove `reduction(+ : total)` (contract_grad_terms_parallel)", CI, expect="shared-store",
                    old="#pragma omp for reduction(+ : total)", new="#pragma omp for"))
    m.append(Mutant("index shared array by the inner, non-partitioned variable (cider_coefs_vk1_gq)", CO,
                    expect="shared-store",
                    fn=_in_func(CO, "cider_coefs_vk1_gq", "p_ga[g * nalpha + a] = exp(", "p_ga[a] = exp(")))
    m.append(Mutant("remove `private(...)` of variables declared outside the region (pbc_tools.c)", PB,
                    expect="shared-store", regex=True,
                    old=r"(#pragma omp parallel for collapse\(3\)) private\([^)]*\)", new=r"\1"))
    m.append(Mutant("thread-id slices of a buffer not sized by the thread count", CI, expect="tid-scratch",
                    old="calloc(nthreads * natm, sizeof(double))", new="calloc(natm, sizeof(double))"))
    m.append(Mutant("allocation moved out of `omp single` (every thread allocates and stores the shared pointer)",
                    CI, expect="shared-store",
                    old="#pragma omp single\n        { tmp_priv = (double *)calloc(nthreads * natm, sizeof(double)); }",
                    new="        { tmp_priv = (double *)calloc(nthreads * natm, sizeof(double)); }"))
    m.append(Mutant("`omp critical` removed around the merge of per-thread partial sums", CI, expect="shared-store",
                    old="#pragma omp critical\n", new=""))
    m.append(Mutant("worksharing loop under thread-dependent control flow", CI, expect="ws-uniform",
                    old="#pragma omp barrier\n#pragma omp for reduction(+ : total)\n        for (ib = 0; ib < natm; ib++) {",
                    new="#pragma omp barrier\n        if (ithread < 2)\n#pragma omp for reduction(+ : total)\n"
                        "        for (ib = 0; ib < natm; ib++) {"))
    m.append(Mutant("serial loop around an `omp for` starts at the thread id (cider_coefs_vk1_qg)", CO,
                    expect="ws-uniform",
                    fn=_in_func(CO, "cider_coefs_vk1_qg", "for (a = 0; a < nalpha; a++) {",
                                "for (a = omp_get_thread_num(); a < nalpha; a++) {")))
    m.append(Mutant("needed barrier removed between per-thread rows and the loop summing all rows", CI,
                    expect="barrier-order",
                    old="#pragma omp barrier\n#pragma omp for reduction(+ : total)", new="#pragma omp for reduction(+ : total)"))
    m.append(Mutant("`omp single` -> `omp master` and its barrier dropped before the dependent read of tmp_priv", CI,
                    expect="barrier-order",
                    old="#pragma omp single\n        { tmp_priv = (double *)calloc(nthreads * natm, sizeof(double)); }\n"
                        "#pragma omp barrier\n",
                    new="#pragma omp master\n        { tmp_priv = (double *)calloc(nthreads * natm, sizeof(double)); }\n"))
    m.append(Mutant("`nowait` on the zeroing loop whose array the next worksharing loop accumulates into", CI,
                    expect="barrier-order",
                    fn=_in_func(CI, "compute_num_spline_contribs", "#pragma omp for\n", "#pragma omp for nowait\n")))
    m.append(Mutant("`schedule(static) nowait` on the natm*nrad zeroing loop, `schedule(static)` on the natm loop "
                    "after it: different trip counts, so not the same distribution", CI,
                    expect="barrier-order",
                    fn=_chain(_in_func(CI, "compute_num_spline_contribs", "#pragma omp for\n",
                                       "#pragma omp for schedule(static)\n", count=2),
                              _in_func(CI, "compute_num_spline_contribs", "#pragma omp for\n",
                                       "#pragma omp for schedule(static) nowait\n"))))
    m.append(Mutant("block length clipped only for the last thread (SDMXcontract_ao_to_bas_bwd)", FS,
                    expect="block-clip",
                    fn=_in_func(FS, "SDMXcontract_ao_to_bas_bwd", "bgrids = MIN(ip + blksize, ngrids) - ip;",
                                "bgrids = (thread == nthread - 1) ? ngrids - ip : blksize;")))
    m.append(Mutant("block end not clipped (contract_grad_terms_parallel)", CI, expect="block-clip",
                    old="const int ig1 = MIN(ig0 + ngrids_local, ngrids);", new="const int ig1 = ig0 + ngrids_local;"))
    m.append(Mutant("thread-id split sized by omp_get_max_threads() (contract_grad_terms_parallel)", CI,
                    expect="team-split",
                    old="const int nthreads = omp_get_num_threads();", new="const int nthreads = omp_get_max_threads();"))
    m.append(Mutant("block size padded from the floor quotient (SDMXcontract_ao_to_bas_bwd)", FS, expect="block-cover",
                    fn=_in_func(FS, "SDMXcontract_ao_to_bas_bwd", "const int blksize = (ngrids + nthread - 1) / nthread;",
                                "const int blksize = ((ngrids / nthread) + 7) & ~7;")))
    m.append(Mutant("collapse(2) added to a parallel for whose inner loop accumulates into out[i] (evaluate_se_kernel)",
                    MU, expect="shared-store", old="#pragma omp parallel for\n", new="#pragma omp parallel for collapse(2)\n"))
    m.append(Mutant("store under collapse(2) loses its dependence on the second collapsed variable (parallel_mul_add_d)",
                    PB, expect="shared-store", old="c[i * dim2 + j] += a[i * dim2 + j] * b[j];",
                    new="c[i * dim2] += a[i * dim2 + j] * b[j];"))
    m.append(Mutant("`omp for` added to the per-thread sizing loop of the scratch buffer (solve_atc_coefs_arr)", CV,
                    expect="partial-aggregate",
                    fn=_in_func(CV, "solve_atc_coefs_arr", "        for (ia = 0; ia < atco->natm; ia++) {\n"
                                "            atcc = atco->atc_convs[ia];\n            for (int l = 0; l < atcc.lmax + 1; l++) {\n"
                                "                my_size =",
                                "#pragma omp for\n        for (ia = 0; ia < atco->natm; ia++) {\n"
                                "            atcc = atco->atc_convs[ia];\n            for (int l = 0; l < atcc.lmax + 1; l++) {\n"
                                "                my_size =")))
    m.append(Mutant("per-thread partial sums applied by the master thread only (add_lp1_term_grad)", CI,
                    expect="partial-aggregate",
                    fn=_in_func(CI, "add_lp1_term_grad", "#pragma omp critical\n", "#pragma omp master\n")))
    m.append(Mutant("zero branch clears nc rows from each of nc consecutive start rows (fix 68a956a reverted)", FS,
                    expect="fill-extent",
                    fn=_in_func(FS, "SDMXeval_rad_iter",
                                "                    _dset0(vbas + (i * nalpha * nao + sh) * ngrids, ngrids,\n"
                                "                           bgrids, nc);\n",
                                "                    for (int k = 0; k < rf_loc[bas_id + 1] - rf_loc[bas_id]; k++) {\n"
                                "                        _dset0(vbas + (i * nalpha * nao + sh + k) * ngrids,\n"
                                "                               ngrids, bgrids, nc);\n                    }\n")))
    m.append(Mutant("zero branch clears nc + 1 rows (SDMXeval_rad_iter)", FS, expect="fill-extent",
                    fn=_in_func(FS, "SDMXeval_rad_iter", "                           bgrids, nc);\n",
                                "                           bgrids, nc + 1);\n")))
    m.append(Mutant("zero branch of the sibling clears one row more than nc * deg (SDMXeval_sph_iter)", FS,
                    expect="fill-extent",
                    fn=_in_func(FS, "SDMXeval_sph_iter", "nc * deg);", "nc * deg + 1);")))
    m.append(Mutant("output block selected only by the quotient k / nblk of the worksharing variable (SDMXeval_loop)", FS,
                    expect="shared-store",
                    fn=_in_func(FS, "SDMXeval_loop", "ao_loc, buf, ao + aoff * Ngrids + ip, coord + ip,",
                                "ao_loc, buf, ao + aoff * Ngrids, coord + ip,")))
    m.append(Mutant("possibly negative clipped block length handed to a size_t parameter (SDMXcontract_ao_to_bas)", FS,
                    expect="block-clip",
                    fn=_in_func(FS, "SDMXcontract_ao_to_bas", "                    for (g = 0; g < bgrids; g++) {\n"
                                "                        _vbas[g] = 0;\n                    }\n",
                                "                    _dset0(_vbas, ngrids, bgrids, 1);\n")))
    m.append(Mutant("callback run by the parallel driver stores to a global (GTOcontract_flapl0)", FL,
                    expect="callback-global",
                    fn=_in_func(FL, "GTOcontract_flapl0", "    double *my_spline = SPLINE + l * 4 * SPLINE_SIZE;\n",
                                "    double *my_spline = SPLINE + l * 4 * SPLINE_SIZE;\n    FLAPL_S = fac;\n")))
    m.append(Mutant("callee of a parallel-loop body made to write a by-reference shared counter (SDMXeval_sph_iter)",
                    FS, expect="shared-store",
                    fn=_in_func(FS, "SDMXeval_sph_iter", "    const int ncomp = param[TENSOR];\n",
                                "    const int ncomp = param[TENSOR];\n    param[POS_E1] += 0;\n")))
    m.append(Mutant("delete `#pragma omp for schedule(static)` (nr_numint.c, first region)", NR,
                    expect="shared-store", old="#pragma omp for schedule(static)\n", new=""))
    return m


if __name__ == "__main__":
    sys.exit(core.main(PROP, analyse, mutants, __doc__))
