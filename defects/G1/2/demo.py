"""
C01 (call history): CiderNumInt.nr_rks / nr_uks must return (nelec, exc, vmat)
for a freshly decorated KS object as well, i.e. without a previous
ks.build()/ks.kernel().  ks.get_veff(dm=...) / ks.energy_tot(dm) on a given
density matrix is the standard PySCF way to get a single-point XC energy and
potential; the NLDF integrators (nr_rks_nldf) support it.
Expected: same exc and vmat as after ks.build().  Observed: AttributeError.
"""
import os
import sys
import traceback

sys.path.insert(0, os.path.dirname(os.path.abspath(__file__)))
import cider_build  # noqa

import numpy as np
from pyscf import dft, gto

from ciderpress.dft.baselines import BASELINE_CODES
from ciderpress.dft.settings import FeatureSettings, SemilocalSettings
from ciderpress.dft.transform_data import FeatureList, LMap
from ciderpress.dft.xc_evaluator import GlobalLinearEvaluator, MappedDFTKernel, MappedXC
from ciderpress.pyscf.dft import make_cider_calc

mol = gto.M(atom="H 0 0 0; F 0 0 0.9", basis="def2-svp", verbose=0)
settings = FeatureSettings(sl_settings=SemilocalSettings("npa"))
n = settings.nfeat
model = MappedXC(
    [
        MappedDFTKernel(
            GlobalLinearEvaluator(np.linspace(0.3, 1.0, n)),
            FeatureList([LMap(i) for i in range(n)]),
            "SEP",
            BASELINE_CODES["LDA_X"],
        )
    ],
    settings,
)
dm = dft.RKS(mol).get_init_guess(key="minao")
bad = 0
for name, cls, d in [("RKS", dft.RKS, dm), ("UKS", dft.UKS, np.stack([0.5 * dm, 0.5 * dm]))]:
    ks = make_cider_calc(cls(mol), model)
    ks.grids.level = 1
    ks.small_rho_cutoff = 0
    ks2 = make_cider_calc(cls(mol), model)
    ks2.grids.level = 1
    ks2.small_rho_cutoff = 0
    ks2.build()
    ref = ks2.get_veff(mol, d)
    try:
        veff = ks.get_veff(mol, d)  # no build()/kernel() before
    except Exception:
        traceback.print_exc()
        print(name, "OBSERVED: get_veff on a fresh object raises; EXPECTED exc = %.10f" % ref.exc)
        bad += 1
        continue
    err = abs(veff.exc - ref.exc) + abs(np.asarray(veff) - np.asarray(ref)).max()
    print(name, "fresh exc %.10f  after build %.10f  max diff %.2e" % (veff.exc, ref.exc, err))
    bad += err > 1e-10
sys.exit(1 if bad else 0)
