"""C19 / C18 demo: recursive_sph_harm (sph_harm.c) is only correct for 1 <= lmax <= 24.

 * lmax >= 25: the sign/normalisation table FAC_LIST has 24 entries but is indexed
   with m = 0..lmax-1, so the C code reads past the table; the tabulated harmonics
   Y_{l,+-m} with m >= 25 are garbage and the shells of a CiderGrids built with such
   an lmax are no longer orthonormal under their own Lebedev rule.
 * lmax == 0: the routine unconditionally writes the l=1 entries res[1..3] and
   ylm[lp1], ylm[lp1+1] although nlm == 1 -> heap corruption (glibc abort) as soon as
   CiderGrids(mol, lmax=0).build() is called.
Both lmax values are accepted without any error by CiderGrids / gen_atomic_grids_cider."""
import os
import subprocess
import sys

HERE = os.path.dirname(os.path.abspath(__file__))
sys.path.insert(0, HERE)

CHILD = r"""
import os, sys
sys.path.insert(0, %r)
import cider_env
cider_env.install()
import numpy as np
from pyscf import gto
from pyscf.dft import gen_grid
from ciderpress.pyscf.gen_cider_grid import CiderGrids, LMAX_DICT

lmax = int(sys.argv[1])
nang = int(sys.argv[2])
mol = gto.M(atom="He 0 0 0", basis="sto-3g", verbose=0)
g = CiderGrids(mol, lmax=lmax)
g.atom_grid = (4, nang)
g.prune = None
g.build()
ind = g.grids_indexer
worst = 0.0
for r in range(ind.nrad):
    nw = ind.rad_loc[r + 1] - ind.rad_loc[r]
    y = ind.ylm[ind.ylm_loc[r] : ind.ylm_loc[r] + nw]
    w = 4 * np.pi * gen_grid.MakeAngularGrid(nw)[:, 3]
    ovlp = np.einsum("g,gi,gj->ij", w, y, y)
    lsh = min(LMAX_DICT[nw], lmax)
    ref = np.zeros_like(ovlp)
    nl = (lsh + 1) ** 2
    ref[:nl, :nl] = np.eye(nl)
    err = np.abs(ovlp - ref)
    worst = max(worst, err.max())
    if err.max() > 1e-8:
        i = int(np.argmax(err.max(axis=1)))
        l = int(np.sqrt(i))
        print("shell %%d (%%d pts, supports l<=%%d): <Y_{%%d,%%d}|Y_{%%d,%%d}> = %%.6g, expected 1"
              %% (r, nw, lsh, l, i - l * l - l, l, i - l * l - l, ovlp[i, i]))
        break
print("lmax=%%d nang=%%d max deviation from orthonormality = %%.3e" %% (lmax, nang, worst))
sys.exit(0 if worst < 1e-8 else 3)
""" % HERE


def run(lmax, nang):
    env = dict(os.environ)
    env.setdefault("OMP_NUM_THREADS", "2")
    p = subprocess.run([sys.executable, "-c", CHILD, str(lmax), str(nang)],
                       capture_output=True, text=True, env=env)
    out = (p.stdout + p.stderr).strip().splitlines()
    for line in out[-4:]:
        print("    |", line)
    return p.returncode


fails = 0
for lmax, nang, what in [
    (10, 302, "control"),
    (24, 974, "control (largest supported lmax)"),
    (25, 974, "lmax = 25"),
    (30, 1454, "lmax = 30"),
    (0, 50, "lmax = 0"),
]:
    print("CiderGrids(He, lmax=%d), atom_grid=(4, %d)  [%s]" % (lmax, nang, what))
    rc = run(lmax, nang)
    if rc == 0:
        print("  -> ok")
    elif rc == 3:
        print("  -> FAIL: accepted, but tabulated harmonics are not orthonormal")
        fails += 1
    elif rc < 0 or rc == 134:
        print("  -> FAIL: process killed by signal (rc=%d): memory corrupted by the C routine" % rc)
        fails += 1
    else:
        print("  -> rejected with a Python exception (rc=%d)" % rc)
        if lmax != 0:
            fails += 1

print("failures:", fails)
sys.exit(1 if fails else 0)
