"""Helper: build (if needed) small shared libraries from the project's own C
sources and hand them to the real Python wrappers via a patched
numpy.ctypeslib.load_library.  Anything not built is replaced by a MagicMock."""
import os
import subprocess
import ctypes
from unittest import mock

import numpy as np

HERE = os.path.dirname(os.path.abspath(__file__))
ROOT = os.path.abspath(os.path.join(HERE, "..", ".."))
BUILD = os.path.join(HERE, "_build")
CSRC = os.path.join(ROOT, "ciderpress", "lib")


def _build(name, srcs, extra=()):
    os.makedirs(BUILD, exist_ok=True)
    out = os.path.join(BUILD, name + ".so")
    if not os.path.exists(out):
        cmd = ["gcc", "-O2", "-fopenmp", "-shared", "-fPIC", "-o", out] + srcs + list(extra) + ["-lm"]
        subprocess.check_call(cmd)
    return out


def install(need_mcider=False):
    import pyscf

    deps = os.path.join(os.path.dirname(pyscf.__file__), "lib", "deps")
    libs = {}
    if need_mcider:
      libs["libmcider"] = _build(
        "libmcider",
        [
            os.path.join(CSRC, "mod_cider", f)
            for f in [
                "frac_lapl.c", "cider_coefs.c", "cider_grids.c", "spline.c",
                "sph_harm.c", "conv_interpolation.c", "convolutions.c",
                "fast_sdmx.c", "debug_numint.c", "model_utils.c",
            ]
        ],
        extra=["-I" + os.path.join(CSRC, "mod_cider"), "-lopenblas"],
    )
    try:
        libs["libxc_utils"] = _build(
            "libxc_utils",
            [os.path.join(CSRC, "xc_utils", "libxc_baselines.c")],
            extra=[
                "-I" + os.path.join(deps, "include"),
                "-L" + os.path.join(deps, "lib"),
                "-lxc",
                "-Wl,-rpath," + os.path.join(deps, "lib"),
            ],
        )
    except Exception as e:  # pragma: no cover
        print("could not build libxc_utils:", e)

    orig = np.ctypeslib.load_library

    def fake_load(libname, path):
        if libname in libs:
            return ctypes.CDLL(libs[libname])
        if os.path.abspath(str(path)).startswith(CSRC):
            return mock.MagicMock()
        return orig(libname, path)

    np.ctypeslib.load_library = fake_load
