import cider_build
import numpy as np, sys, itertools
from scipy.spatial import cKDTree
from pyscf import gto, dft
from ciderpress.pyscf.nldf_convolutions import PyscfNLDFGenerator
from ciderpress.pyscf.sdmx import EXXSphGenerator
from ciderpress.pyscf.gen_cider_grid import CiderGrids
from ciderpress.dft.settings import *

vj_specs = ["se", "se_ar2", "se_a2r4", "se_erf_rinv"]
theta_params = [1.0, 0.0, 0.03125]
feat_params = [[2.0, 0.0, 0.04] for i in range(4)]
feat_params[-1].append(2.0)
vi = NLDFSettingsVI("MGGA", theta_params, "one", ["se_ap", "se_lapl"], ["se_grad", "se_rvec"], [(0, 0), (0,1), (-1, 1), (-1,0)])
vj = NLDFSettingsVJ("MGGA", theta_params, "one", vj_specs, feat_params)
vij = NLDFSettingsVIJ("MGGA", theta_params, "one", ["se_ap"], ["se_grad", "se_rvec"], [(0, 0), (1, -1)], vj_specs, feat_params)
vk = NLDFSettingsVK("MGGA", theta_params, "one", [[1.0, 0.0, 0.02], [2.0, 0.0, 0.04]], "exponential")
sdmx_list = [SDMXG1Settings([0,1,2], 2, 2), SDMXFullSettings({1.0: ([0,1,2],[3,2,2,1]), 2.0: ([1,2],[2,1,1,1])})]

base = np.array([[0.0,0.0,0.0],[0.15,0.85,0.45],[-0.75,-0.35,0.95]])
syms = ["O","H","F"]

def run(R, t, perm):
    coords = base @ R.T + t
    atom = [[syms[i], tuple(coords[i])] for i in perm]
    mol = gto.M(atom=atom, basis="def2-svp", verbose=0)
    grids = CiderGrids(mol, lmax=6)
    grids.level = 0
    grids.build()
    ks = dft.RKS(mol); ks.xc = "PBE"; ks.grids = grids; ks.conv_tol=1e-12
    ks.kernel()
    dm = ks.make_rdm1()
    ni = dft.numint.NumInt()
    ao = ni.eval_ao(mol, grids.coords, deriv=1)
    rho = ni.eval_rho(mol, ao, dm, xctype="MGGA", with_lapl=False)
    feats = []
    for st in [vi, vj, vij, vk]:
        for itype in ["onsite_direct", "onsite_spline"]:
            gen = PyscfNLDFGenerator.from_mol_and_settings(mol, grids.grids_indexer, 1, st, interpolator_type=itype)
            gen.interpolator.set_coords(grids.coords)
            feats.append(gen.get_features(rho))
    for st in sdmx_list:
        gen = EXXSphGenerator.from_settings_and_mol(st, 1, mol)
        feats.append(gen.get_features(dm, mol, grids.coords))
    feats = np.concatenate(feats, axis=0)
    # map back coords to base frame
    from pyscf.data.nist import BOHR
    c0 = (grids.coords - t / BOHR) @ R
    return c0, grids.weights, rho, feats, ks.e_tot

I = np.eye(3)
c_ref, w_ref, rho_ref, f_ref, e_ref = run(I, np.zeros(3), [0,1,2])
tree = cKDTree(c_ref)
def compare(label, R, t, perm):
    c, w, rho, f, e = run(R, t, perm)
    m = w > 0
    d, idx = tree.query(c[m])
    assert d.max() < 1e-8, d.max()
    df = np.abs(f[:, m] - f_ref[:, idx])
    scale = np.abs(f_ref).max(axis=1)
    rel = df.max(axis=1) / scale
    print(label, "dE=%.2e" % (e - e_ref), "drho=%.2e" % np.abs(rho[0][m]-rho_ref[0][idx]).max(), "max rel dfeat: %.2e at feature %d" % (rel.max(), rel.argmax()), flush=True)
compare("perm", I, np.zeros(3), [2,0,1])
compare("trans", I, np.array([0.7,-1.3,2.1]), [0,1,2])
# octahedral ops
Rz = np.array([[0,-1,0],[1,0,0],[0,0,1.0]])
Rc3 = np.array([[0,0,1],[1,0,0],[0,1,0.0]])
Mir = np.diag([1,1,-1.0])
Inv = -np.eye(3)
compare("C4z", Rz, np.zeros(3), [0,1,2])
compare("C3", Rc3, np.zeros(3), [0,1,2])
compare("mirror", Mir, np.zeros(3), [0,1,2])
compare("inv", Inv, np.zeros(3), [0,1,2])
compare("all", Inv@Rc3@Rz, np.array([0.3,0.2,-0.9]), [1,2,0])
