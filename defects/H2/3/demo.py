"""
C02 / NLDF spline interpolation (LCAOInterpolator, used by
ciderpress.pyscf.descriptors.get_descriptors, 'train_gen' path): at an evaluation
point that coincides with a nucleus every NLDF feature is NaN, although the
density is largest there and the documented integral is perfectly regular.

Cause: compute_spline_bas_separate (conv_interpolation.c) divides the vector
r - R_A by its length before evaluating the spherical harmonics, with no guard
for |r - R_A| == 0.
"""
import os
import sys

sys.path.insert(0, os.path.dirname(os.path.abspath(__file__)))
import shim  # noqa

import numpy as np
from pyscf import dft, gto
from pyscf.dft.gen_grid import Grids
from pyscf.dft.numint import NumInt

from ciderpress.dft.settings import NLDFSettingsVIJ
from ciderpress.pyscf.analyzers import RHFAnalyzer
from ciderpress.pyscf.descriptors import get_descriptors, get_full_rho

CFC = 0.3 * (3 * np.pi**2) ** (2.0 / 3)


def doc_exponent(rho_data, params):
    n = np.maximum(rho_data[0], 1e-30)
    sigma = np.einsum("xg,xg->g", rho_data[1:4], rho_data[1:4])
    tau0 = CFC * n ** (5.0 / 3)
    conv = 1.2 * (6 * np.pi**2) ** (2.0 / 3) / np.pi
    res = params[0] + params[1] * conv * sigma / (8 * n * tau0)
    res += params[2] * conv * (rho_data[4] / tau0 - 1)
    return np.pi * (n / 2) ** (2.0 / 3) * res


class _G:
    def __init__(self, mol, coords):
        self.mol, self.coords = mol, coords
        self.non0tab, self.cutoff = None, 0
        self.weights = np.ones(len(coords))


def quadrature(mol, dm, s, coords):
    ni = NumInt()
    g = Grids(mol)
    g.level = 4
    g.prune = None
    g.build()
    rin = get_full_rho(ni, mol, dm, g, "MGGA")[0]
    rout = get_full_rho(ni, mol, dm, _G(mol, coords), "MGGA")[0]
    a0 = doc_exponent(rin, s.theta_params)
    f = rin[0] * g.weights
    D = g.coords[None] - coords[:, None]
    R2 = np.einsum("oix,oix->oi", D, D)
    feats = []
    for spec, p in zip(s.feat_specs, s.feat_params):
        ai = doc_exponent(rout, p)
        K = np.exp(-(ai[:, None] + a0[None]) * R2)
        if spec == "se_ar2":
            K = K * ai[:, None] * R2
        feats.append(K.dot(f))
    K0 = np.exp(-a0[None] * R2)
    feats.append((K0 * a0[None]).dot(f))  # se_ap
    gvec = np.einsum("oi,oix,i->xo", K0 * a0[None], D, f)  # se_grad
    feats.append(np.einsum("xo,xo->o", gvec, gvec))
    return np.array(feats)


def main():
    mol = gto.M(atom="H 0 0 0; F 0 0 0.9", basis="def2-svp", verbose=0)
    ks = dft.RKS(mol)
    ks.xc = "PBE"
    ks.grids.level = 1
    ks.kernel()
    dm = ks.make_rdm1()
    coords = np.vstack([mol.atom_coords(), [[0.0, 0.0, 1e-9], [0.3, 0.2, 1.0]]])
    s = NLDFSettingsVIJ(
        "MGGA", [1.0, 0.0, 0.03125], "one", ["se_ap"], ["se_grad"], [(0, 0)],
        ["se", "se_ar2"], [[2.0, 0.0, 0.04]] * 2,
    )
    ana = RHFAnalyzer(mol, dm)
    ana.grids = _G(mol, coords)
    ref = quadrature(mol, dm, s, coords)
    np.set_printoptions(precision=5, linewidth=150)
    bad = False
    print("points: H nucleus, F nucleus, 1e-9 bohr from H, generic point")
    print("density at the points:", get_full_rho(NumInt(), mol, dm, ana.grids, "MGGA")[0, 0])
    for plan in ["gaussian", "spline"]:
        pred = get_descriptors(ana, s, plan_type=plan)[0]
        print("plan_type=%s" % plan)
        for i in range(ref.shape[0]):
            print("   feature %d  quadrature %s\n              get_descriptors %s" % (i, ref[i], pred[i]))
        if np.isnan(pred).any():
            bad = True
        elif (np.abs(pred - ref) / np.abs(ref).max(axis=1)[:, None]).max() > 3e-2:
            bad = True
    if bad:
        print("FAIL: expected finite features equal to the documented integrals at the "
              "nuclear positions; observed NaN")
        sys.exit(1)
    print("OK")


if __name__ == "__main__":
    main()
