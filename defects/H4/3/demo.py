"""C04: a batch of exactly TWO grid points with nspin = 1 gets a wrong feature derivative
(NPOL) or raises (SEP, xc_evaluator.py).

KernelEvalBase.apply_descriptor_grad / KernelEvalBase2.apply_descriptor_grad contain

    if force_polarize and dfdX1.shape[0] == 2 and nspin == 1:
        dfdX1 = dfdX1[:1]

which is meant for POL mode (dfdX1 of shape (2, Nsamp, N1) produced from a duplicated
spin channel).  MappedDFTKernel{,2}.__call__ always pass force_polarize=True, and in
SEP / NPOL mode dfdX1 has shape (nspin*Nsamp, N1), so the test is also true when
Nsamp == 2: the second sample's derivative row is thrown away.  In NPOL mode the
remaining single row is silently broadcast over both samples; in SEP mode
(xc_evaluator.py) the following reshape raises ValueError.
"""
import os
import sys

sys.path.insert(0, os.path.join(os.path.dirname(os.path.abspath(__file__)), "..", "common"))
import hx  # noqa: E402

hx.install()

import numpy as np  # noqa: E402

from ciderpress.dft import baselines as B  # noqa: E402
from ciderpress.dft.transform_data import FeatureList, LMap, UMap  # noqa: E402
from ciderpress.dft.xc_evaluator import (  # noqa: E402
    GlobalLinearEvaluator,
    KernelEvaluator,
    MappedDFTKernel,
    MappedXC,
)
from ciderpress.dft.xc_evaluator2 import MappedDFTKernel2, MappedXC2  # noqa: E402
from ciderpress.models.kernels import DiffConstantKernel, DiffRBF  # noqa: E402

rng = np.random.default_rng(0)
fail = False
fl = FeatureList([UMap(1, 0.3), UMap(2, 0.5), LMap(3)])
kern = DiffConstantKernel(1.7) * DiffRBF(length_scale=np.array([0.5, 0.7, 0.9]))
fevs = [
    KernelEvaluator(kern, rng.uniform(0, 1, size=(6, 3)), rng.normal(size=6)),
    GlobalLinearEvaluator(rng.normal(size=3)),
]
X3 = rng.uniform(0.3, 2.0, size=(1, 4, 3))  # nspin=1, 4 raw features, 3 samples
rho3 = np.asfortranarray(rng.uniform(0.3, 2.0, size=(1, 3)))


def fd(func, X0T, h=1e-6):
    g = np.zeros_like(X0T)
    for i in range(X0T.shape[1]):
        Xp = X0T.copy()
        Xp[0, i] += h
        Xm = X0T.copy()
        Xm[0, i] -= h
        g[0, i] = (func(Xp)[0] - func(Xm)[0]) / (2 * h)
    return g


def check(label, func3, func_n):
    """func_n(nsamp) -> callable evaluating the first nsamp samples."""
    global fail
    ref = func3(X3)[1]  # derivative from the 3-sample batch (grid points are independent)
    for nsamp in [1, 2, 3]:
        f = func_n(nsamp)
        X = X3[:, :, :nsamp].copy()
        try:
            res, dres = f(X)[:2]
        except Exception as e:
            print("  %-28s Nsamp=%d: raised %r" % (label, nsamp, e))
            fail = True
            continue
        g = fd(f, X)
        e1 = np.abs(dres - g).max()
        e2 = np.abs(dres - ref[:, :, :nsamp]).max()
        print("  %-28s Nsamp=%d: max|analytic-FD|=%.2e  max|analytic - same points in 3-batch|=%.2e"
              % (label, nsamp, e1, e2))
        if nsamp == 2 and max(e1, e2) > 1e-6:
            print("      analytic d/dX0T, sample 1:", dres[0, :, 1])
            print("      expected (FD)     sample 1:", g[0, :, 1])
            print("      analytic d/dX0T, sample 0:", dres[0, :, 0], "<- reused for sample 1")
        fail |= max(e1, e2) > 1e-6


for mode in ["NPOL", "SEP"]:
    m1 = MappedXC([MappedDFTKernel(fevs, fl, mode, B.lda_x, B.zero_xc)], None)
    check("MappedXC  %s nspin=1" % mode, m1, lambda n: m1)
    m2 = MappedXC2([MappedDFTKernel2(fevs, fl, mode, "LDA_X", None)], None)
    check(
        "MappedXC2 %s nspin=1" % mode,
        lambda X: m2(X, (rho3,)),
        lambda n: (lambda X: m2(X, (np.asfortranarray(rho3[:, :n]),))),
    )

if fail:
    print("FAIL: two-point batches (nspin=1) give a wrong derivative / raise")
    sys.exit(1)
print("OK")
