"""Helper: build (if needed) and hand the real C libraries to the ciderpress
Python wrappers via a patched numpy.ctypeslib.load_library."""
import ctypes
import os
import subprocess
from unittest import mock

import numpy.ctypeslib

HERE = os.path.dirname(os.path.abspath(__file__))
ROOT = os.path.abspath(os.path.join(HERE, "..", ".."))
DEPS = "/venv/lib/python3.12/site-packages/pyscf/lib/deps"


def _build():
    so1 = os.path.join(HERE, "libmcider.so")
    src1 = os.path.join(ROOT, "ciderpress/lib/mod_cider/model_utils.c")
    if (not os.path.exists(so1)) or os.path.getmtime(so1) < os.path.getmtime(src1):
        subprocess.check_call(
            ["gcc", "-O2", "-fopenmp", "-shared", "-fPIC", "-o", so1, src1, "-lm"]
        )
    so2 = os.path.join(HERE, "libxc_utils.so")
    src2 = os.path.join(ROOT, "ciderpress/lib/xc_utils/libxc_baselines.c")
    if (not os.path.exists(so2)) or os.path.getmtime(so2) < os.path.getmtime(src2):
        subprocess.check_call(
            [
                "gcc", "-O2", "-shared", "-fPIC", "-I" + DEPS + "/include",
                "-o", so2, src2, "-L" + DEPS + "/lib", "-lxc",
                "-Wl,-rpath," + DEPS + "/lib",
            ]
        )
    return so1, so2


def install():
    # keep the tiny demo batches from being slowed down by thread oversubscription
    os.environ.setdefault("OMP_NUM_THREADS", "1")
    so1, so2 = _build()
    libs = {"libmcider": ctypes.CDLL(so1), "libxc_utils": ctypes.CDLL(so2)}

    def fake_load(name, path):
        if name in libs:
            return libs[name]
        return mock.MagicMock()

    numpy.ctypeslib.load_library = fake_load
