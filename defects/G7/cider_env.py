"""Build (once) and hand the real C libraries to ciderpress' Python wrappers."""
import os, subprocess, sys, numpy, numpy.ctypeslib as _ncl

HERE = os.path.dirname(os.path.abspath(__file__))
BUILD = os.path.join(HERE, "build")
import importlib.util
_spec = importlib.util.find_spec("ciderpress")
LIB = os.path.join(os.path.dirname(_spec.origin), "lib")
import pyscf
P = os.path.join(os.path.dirname(pyscf.__file__), "lib")
BLAS = [f for f in os.listdir(P) if f.startswith("libopenblas")][0]


def _build():
    os.makedirs(BUILD, exist_ok=True)
    common = ["gcc", "-O2", "-fopenmp", "-shared", "-fPIC", "-w", "-I" + P + "/deps/include"]
    rp = ["-Wl,-rpath," + P, "-Wl,-rpath," + P + "/deps/lib", "-lm"]
    mc = [os.path.join(LIB, "mod_cider", f + ".c") for f in
          "frac_lapl cider_coefs cider_grids spline sph_harm conv_interpolation convolutions fast_sdmx debug_numint model_utils".split()]
    jobs = {
        "libmcider.so": common + ["-I" + LIB + "/mod_cider"] + mc + ["-L" + P, "-l:" + BLAS, "-L" + P + "/deps/lib", "-l:libcint.so"] + rp,
        "libnumint.so": common + [LIB + "/numint_cider/nr_numint.c", "-L" + P, "-l:" + BLAS] + rp,
        "libxc_utils.so": common + [LIB + "/xc_utils/libxc_baselines.c", "-L" + P + "/deps/lib", "-l:libxc.so"] + rp,
    }
    for name, cmd in jobs.items():
        out = os.path.join(BUILD, name)
        srcs = [c for c in cmd if c.endswith(".c")]
        if (not os.path.exists(out)) or any(os.path.getmtime(s) > os.path.getmtime(out) for s in srcs):
            subprocess.check_call(cmd + ["-o", out])


_build()
_orig = _ncl.load_library


def _load(libname, loader_path):
    cand = os.path.join(BUILD, libname + ".so")
    if os.path.exists(cand):
        return _orig(libname, BUILD)
    if os.path.abspath(str(loader_path)).startswith(os.path.dirname(LIB)):
        from unittest.mock import MagicMock
        return MagicMock()
    return _orig(libname, loader_path)


_ncl.load_library = _load
numpy.ctypeslib.load_library = _load
