"""Integer polynomial normal form + a small evaluator of C functions over clang's JSON AST.

Poly: multivariate polynomial over Z.  C integer division `a / b` and `a % b` are *opaque atoms* keyed
by the normal forms of their operands, unless the division is exact as a polynomial division (then it
is the quotient), so  2*(d/2+1)*n == n*(2*(d/2)+2)  but  != (d+2)*n.

CEval: executes a C function body with concrete small integers for flags and ranks and polynomial
values for sizes.  `for` loops whose bounds evaluate to integers are unrolled; loops with symbolic
bounds are recorded as *copy nests* (loop variables become atoms) so that array index expressions
can be read off as polynomials in the loop variables.  Nothing is compiled or run.
"""
from sa import cfacts
from sa.core import AnalysisError


class Poly:
    __slots__ = ("t", "_h")

    def __init__(self, terms=None):
        # terms: dict  monomial -> int ; monomial = tuple(sorted((atom, exp)))
        d = {}
        for m, c in (terms or {}).items():
            if c:
                d[m] = d.get(m, 0) + c
        self.t = {m: c for m, c in d.items() if c}
        self._h = None

    @staticmethod
    def const(c):
        return Poly({(): int(c)})

    @staticmethod
    def atom(a):
        return Poly({((a, 1),): 1})

    def key(self):
        return tuple(sorted((tuple((repr(a), e) for a, e in m), c) for m, c in self.t.items()))

    def __hash__(self):
        if self._h is None:
            self._h = hash(self.key())
        return self._h

    def __eq__(self, o):
        return isinstance(o, Poly) and self.t == o.t

    def is_const(self):
        return all(m == () for m in self.t)

    def const_value(self):
        return self.t.get((), 0) if self.is_const() else None

    def __add__(self, o):
        o = _p(o)
        d = dict(self.t)
        for m, c in o.t.items():
            d[m] = d.get(m, 0) + c
        return Poly(d)

    def __neg__(self):
        return Poly({m: -c for m, c in self.t.items()})

    def __sub__(self, o):
        return self + (-_p(o))

    def __mul__(self, o):
        o = _p(o)
        d = {}
        for m1, c1 in self.t.items():
            for m2, c2 in o.t.items():
                e = dict(m1)
                for a, k in m2:
                    e[a] = e.get(a, 0) + k
                m = tuple(sorted(e.items(), key=lambda x: repr(x[0])))
                d[m] = d.get(m, 0) + c1 * c2
        return Poly(d)

    __radd__ = __add__
    __rmul__ = __mul__

    def atoms(self):
        return {a for m in self.t for a, _ in m}

    def coeff(self, atom):
        """(coefficient polynomial of atom^1, rest not containing atom); None if atom appears with power > 1"""
        co, rest = {}, {}
        for m, c in self.t.items():
            e = dict(m)
            if atom in e:
                if e[atom] != 1:
                    return None
                del e[atom]
                co[tuple(sorted(e.items(), key=lambda x: repr(x[0])))] = c
            else:
                rest[m] = c
        return Poly(co), Poly(rest)

    def subst(self, atom, val):
        out = Poly()
        for m, c in self.t.items():
            term = Poly.const(c)
            for a, k in m:
                base = val if a == atom else Poly.atom(a)
                for _ in range(k):
                    term = term * base
            out = out + term
        return out

    def __repr__(self):
        if not self.t:
            return "0"
        parts = []
        for m, c in sorted(self.t.items(), key=lambda x: repr(x[0])):
            fs = [(_atom_str(a) + ("^%d" % k if k > 1 else "")) for a, k in m]
            if c != 1 or not fs:
                fs.insert(0, str(c))
            parts.append("*".join(fs))
        return " + ".join(parts).replace("+ -", "- ")


def _p(x):
    return x if isinstance(x, Poly) else Poly.const(x)


def _atom_str(a):
    if isinstance(a, tuple) and a and a[0] in ("div", "mod"):
        return "(%r %s %r)" % (a[1], "/" if a[0] == "div" else "%", a[2])
    if isinstance(a, tuple) and a and a[0] == "cond":
        return "(%s ? %r : %r)" % (a[1], a[2], a[3])
    return str(a)


def _lead(p):
    """leading monomial under a fixed total order"""
    return max(p.t.items(), key=lambda mc: (sum(k for _, k in mc[0]), repr(mc[0])))


def exact_div(a, b):
    """polynomial quotient a / b when b divides a exactly over Z, else None"""
    if not b.t:
        return None
    if b.is_const():
        c = b.const_value()
        if all(v % c == 0 for v in a.t.values()):
            return Poly({m: v // c for m, v in a.t.items()})
        return None
    q = Poly()
    r = a
    lb_m, lb_c = _lead(b)
    steps = 0
    while r.t:
        steps += 1
        if steps > 200:
            return None
        lm, lc = _lead(r)
        e = dict(lm)
        ok = lc % lb_c == 0
        for at, k in lb_m:
            if e.get(at, 0) < k:
                ok = False
                break
            e[at] -= k
        if not ok:
            return None
        mono = Poly({tuple(sorted(((x, k) for x, k in e.items() if k), key=lambda x: repr(x[0]))): lc // lb_c})
        q = q + mono
        r = r - mono * b
    return q


def pdiv(a, b):
    a, b = _p(a), _p(b)
    if a.is_const() and b.is_const() and b.const_value() != 0:
        x, y = a.const_value(), b.const_value()
        q = abs(x) // abs(y)
        return Poly.const(q if (x >= 0) == (y >= 0) else -q)
    q = exact_div(a, b)
    if q is not None:
        return q
    return Poly.atom(("div", a, b))


def pmod(a, b):
    a, b = _p(a), _p(b)
    if a.is_const() and b.is_const() and b.const_value() != 0:
        x, y = a.const_value(), b.const_value()
        return Poly.const(abs(x) % abs(y) * (1 if x >= 0 else -1))
    if exact_div(a, b) is not None:
        return Poly.const(0)
    return Poly.atom(("mod", a, b))


# ----------------------------------------------------------------------------
class Opaque:
    def __init__(self, why=""):
        self.why = why

    def __repr__(self):
        return "<opaque %s>" % self.why


class Struct:
    """fields of the object a pointer parameter / malloc result points to"""

    def __init__(self, name):
        self.name = name
        self.fields = {}
        self.arrays = {}  # field -> {int index: value}


class ArrayParam:
    """an integer array parameter: element k is the atom `<name><k>`"""

    def __init__(self, name):
        self.name = name
        self.elems = {}

    def get(self, k):
        return self.elems.get(k, Poly.atom("%s%d" % (self.name, k)))


class CopyNest:
    def __init__(self, loops, dst, src, dst_type, src_type, lhs_name, rhs_name):
        self.loops = loops  # [(var atom, bound Poly)] outermost first
        self.dst, self.src = dst, src  # index polynomials
        self.dst_type, self.src_type = dst_type, src_type
        self.lhs_name, self.rhs_name = lhs_name, rhs_name

    def count(self):
        n = Poly.const(1)
        for _, b in self.loops:
            n = n * b
        return n

    def extent(self, idx):
        """max index + 1 of an index polynomial that is linear in the loop variables with non-negative
        coefficients: idx(all vars at bound-1) + 1 ; None when not linear"""
        p = idx
        for v, b in self.loops:
            if v in p.atoms():
                r = p.coeff(v)
                if r is None:
                    return None
                co, rest = r
                if v in co.atoms():
                    return None
                p = rest + co * (b - 1)
        return p + 1

    def stride(self, idx, var):
        r = idx.coeff(var)
        return r[0] if r is not None else None


class Return(Exception):
    def __init__(self, v):
        self.v = v


class CEval:
    MAX_UNROLL = 64

    def __init__(self, tu, fname, args, inline=False, _depth=0):
        """args: parameter name -> int | Poly | Struct | ArrayParam | Opaque ; inline: calls of functions defined in
        the same translation unit are executed too (their calls / copies are merged into this evaluation)"""
        self.tu = tu
        self.fname = fname
        self.inline = inline
        self._depth = _depth
        self.env = {}
        self.copies = []
        self.calls = []  # (callee name, [argument values])
        self.loop_stack = []
        self.decl_types = {}
        params = tu.params(fname)
        for p in params:
            nm = p.get("name")
            v = args.get(nm, Opaque("parameter " + str(nm)))
            self.env[p["id"]] = _p(v) if isinstance(v, int) and not isinstance(v, bool) else v
        self.structs = {}
        self.ret = None

    # -- expressions ---------------------------------------------------------
    def ev(self, n):
        k = n.get("kind")
        if k in ("ImplicitCastExpr", "ParenExpr", "CStyleCastExpr", "ConstantExpr"):
            ks = cfacts.kids(n)
            return self.ev(ks[0]) if ks else Opaque("empty cast")
        if k == "IntegerLiteral":
            return Poly.const(int(n.get("value", "0")))
        if k == "DeclRefExpr":
            rd = n.get("referencedDecl") or {}
            if rd.get("id") in self.env:
                return self.env[rd["id"]]
            return Opaque("name " + str(rd.get("name")))
        if k == "MemberExpr":
            base = self.ev(cfacts.kids(n)[0])
            if isinstance(base, Struct):
                nm = n.get("name")
                if nm in base.arrays:
                    return ("arrayfield", base, nm)
                return base.fields.get(nm, Opaque("field %s unset" % nm))
            return Opaque("member of " + repr(base))
        if k == "ArraySubscriptExpr":
            ks = cfacts.kids(n)
            base, idx = self.ev(ks[0]), self.ev(ks[1])
            if isinstance(idx, Poly) and idx.is_const():
                i = idx.const_value()
                if isinstance(base, ArrayParam):
                    return base.get(i)
                if isinstance(base, tuple) and base[0] == "arrayfield":
                    return base[1].arrays[base[2]].get(i, Opaque("element unset"))
            return Opaque("subscript")
        if k == "UnaryOperator":
            op = n.get("opcode")
            v = self.ev(cfacts.kids(n)[0])
            if op == "-" and isinstance(v, Poly):
                return -v
            if op == "+":
                return v
            if op == "!" and isinstance(v, Poly) and v.is_const():
                return Poly.const(0 if v.const_value() else 1)
            if op in ("++", "--"):
                tgt = cfacts.strip(cfacts.kids(n)[0])
                if isinstance(v, Poly):
                    new = v + (1 if op == "++" else -1)
                    self.store(tgt, new)
                    return v if n.get("isPostfix") else new
            return Opaque("unary " + str(op))
        if k == "BinaryOperator":
            op = n.get("opcode")
            ks = cfacts.kids(n)
            if op == "=":
                v = self.ev(ks[1])
                self.store(cfacts.strip(ks[0]), v, rhs_node=ks[1])
                return v
            if op == "&&":
                a = self.ev(ks[0])
                if isinstance(a, Poly) and a.is_const() and not a.const_value():
                    return Poly.const(0)
                b = self.ev(ks[1])
                if isinstance(a, Poly) and a.is_const() and isinstance(b, Poly) and b.is_const():
                    return Poly.const(1 if (a.const_value() and b.const_value()) else 0)
                return Opaque("&&")
            if op == "||":
                a = self.ev(ks[0])
                if isinstance(a, Poly) and a.is_const() and a.const_value():
                    return Poly.const(1)
                b = self.ev(ks[1])
                if isinstance(a, Poly) and a.is_const() and isinstance(b, Poly) and b.is_const():
                    return Poly.const(1 if (a.const_value() or b.const_value()) else 0)
                return Opaque("||")
            a, b = self.ev(ks[0]), self.ev(ks[1])
            if not (isinstance(a, Poly) and isinstance(b, Poly)):
                return Opaque("binary " + str(op))
            if op == "+":
                return a + b
            if op == "-":
                return a - b
            if op == "*":
                return a * b
            if op == "/":
                return pdiv(a, b)
            if op == "%":
                return pmod(a, b)
            if op in ("<", "<=", ">", ">=", "==", "!="):
                d = a - b
                if d.is_const():
                    c = d.const_value()
                    return Poly.const(int({"<": c < 0, "<=": c <= 0, ">": c > 0, ">=": c >= 0,
                                           "==": c == 0, "!=": c != 0}[op]))
                return ("cmp", op, a, b)
            return Opaque("binary " + str(op))
        if k == "ConditionalOperator":
            ks = cfacts.kids(n)
            c = self.ev(ks[0])
            if isinstance(c, Poly) and c.is_const():
                return self.ev(ks[1] if c.const_value() else ks[2])
            a, b = self.ev(ks[1]), self.ev(ks[2])
            if isinstance(a, Poly) and isinstance(b, Poly):
                if a == b:
                    return a
                return Poly.atom(("cond", self.tu.text_of(ks[0]).replace(" ", ""), a, b))
            return Opaque("?:")
        if k == "CompoundAssignOperator":
            ks = cfacts.kids(n)
            cur, v = self.ev(ks[0]), self.ev(ks[1])
            op = (n.get("opcode") or "")[:-1]
            new = Opaque("compound")
            if isinstance(cur, Poly) and isinstance(v, Poly):
                new = {"+": lambda: cur + v, "-": lambda: cur - v, "*": lambda: cur * v,
                       "/": lambda: pdiv(cur, v), "%": lambda: pmod(cur, v)}.get(op, lambda: Opaque(op))()
            self.store(cfacts.strip(ks[0]), new)
            return new
        if k == "CallExpr":
            ks = cfacts.kids(n)
            callee = cfacts.strip(ks[0])
            name = (callee.get("referencedDecl") or {}).get("name")
            argv = [self.ev(a) for a in ks[1:]]
            self.calls.append((name, argv))
            if self.inline and name in self.tu.funcs and self._depth < 3 and name != self.fname:
                pnames = [p.get("name") for p in self.tu.params(name)]
                sub = type(self)(self.tu, name, dict(zip(pnames, argv)), inline=True, _depth=self._depth + 1)
                sub.run()
                self.calls += sub.calls
                self.copies += sub.copies
                return sub.ret if sub.ret is not None else Opaque("void " + str(name))
            if name in ("malloc", "calloc"):
                return ("heap", len(self.structs))
            return Opaque("call " + str(name))
        if k == "UnaryExprOrTypeTraitExpr":
            t = self.tu.text_of(n).replace(" ", "")
            return Poly.atom(t if t.startswith("sizeof(") else "sizeof(%s)" % t)
        return Opaque(str(k))

    def store(self, tgt, v, rhs_node=None):
        k = tgt.get("kind")
        if k == "DeclRefExpr":
            rd = tgt.get("referencedDecl") or {}
            self.env[rd.get("id")] = v
        elif k == "MemberExpr":
            base = self.ev(cfacts.kids(tgt)[0])
            if isinstance(base, Struct):
                nm = tgt.get("name")
                if isinstance(v, tuple) and v and v[0] == "heap":
                    base.arrays[nm] = {}
                else:
                    base.fields[nm] = v
        elif k == "ArraySubscriptExpr":
            ks = cfacts.kids(tgt)
            base, idx = self.ev(ks[0]), self.ev(ks[1])
            if isinstance(base, tuple) and base[0] == "arrayfield" and isinstance(idx, Poly) and idx.is_const():
                base[1].arrays[base[2]][idx.const_value()] = v
            elif self.loop_stack and isinstance(idx, Poly) and rhs_node is not None:
                r = cfacts.strip(rhs_node)
                if r.get("kind") == "ArraySubscriptExpr":
                    rk = cfacts.kids(r)
                    ridx = self.ev(rk[1])
                    if isinstance(ridx, Poly):
                        lb, rb = cfacts.strip(ks[0]), cfacts.strip(rk[0])
                        self.copies.append(CopyNest(
                            list(self.loop_stack), idx, ridx,
                            self.decl_types.get((lb.get("referencedDecl") or {}).get("id"), ""),
                            self.decl_types.get((rb.get("referencedDecl") or {}).get("id"), ""),
                            (lb.get("referencedDecl") or {}).get("name"), (rb.get("referencedDecl") or {}).get("name")))

    # -- statements ----------------------------------------------------------
    def run(self):
        body = self.tu.body(self.fname)
        if body is None:
            raise AnalysisError("C function %s has no body" % self.fname)
        try:
            self.stmt(body)
        except Return as r:
            self.ret = r.v
        return self

    def stmt(self, n):
        k = n.get("kind")
        if k == "CompoundStmt":
            for c in cfacts.kids(n):
                self.stmt(c)
        elif k == "DeclStmt":
            for d in cfacts.kids(n):
                if d.get("kind") == "VarDecl":
                    self.decl_types[d["id"]] = d.get("type", {}).get("qualType", "")
                    ks = cfacts.kids(d)
                    v = self.ev(ks[0]) if ks else Opaque("uninitialised")
                    if isinstance(v, tuple) and v and v[0] == "heap" and "*" in self.decl_types[d["id"]]:
                        s = Struct(d.get("name"))
                        self.structs[d["id"]] = s
                        v = s
                    self.env[d["id"]] = v
        elif k == "IfStmt":
            ks = cfacts.kids(n)
            c = self.ev(ks[0])
            if isinstance(c, Poly) and c.is_const():
                if c.const_value():
                    self.stmt(ks[1])
                elif len(ks) > 2:
                    self.stmt(ks[2])
            else:
                raise AnalysisError("%s: branch on a symbolic condition `%s`" % (self.fname, self.tu.text_of(ks[0])))
        elif k == "ForStmt":
            self.for_stmt(n)
        elif k == "ReturnStmt":
            ks = cfacts.kids(n)
            raise Return(self.ev(ks[0]) if ks else None)
        elif k and k.startswith("OMP") and k.endswith("Directive"):
            for c in cfacts.kids(n):
                if c.get("kind") == "CapturedStmt":
                    cd = cfacts.kids(c)
                    if cd and cd[0].get("kind") == "CapturedDecl":
                        inner = cfacts.kids(cd[0])
                        if inner:
                            self.stmt(inner[0])
                    break
        elif k in ("NullStmt", "BreakStmt", "ContinueStmt"):
            pass
        elif k in ("WhileStmt", "DoStmt", "SwitchStmt"):
            raise AnalysisError("%s: %s is not modelled" % (self.fname, k))
        else:
            self.ev(n)

    def for_stmt(self, n):
        raw = [c for c in (n.get("inner") or []) if isinstance(c, dict)]
        if len(raw) != 5:
            raise AnalysisError("%s: unexpected for-statement layout" % self.fname)
        init, _, cond, inc, body = raw
        var_id = None
        if init.get("kind") == "DeclStmt":
            self.stmt(init)
            vd = [d for d in cfacts.kids(init) if d.get("kind") == "VarDecl"]
            if vd:
                var_id = vd[0]["id"]
                var_name = vd[0].get("name")
        elif init.get("kind"):
            self.ev(init)
            t = cfacts.strip(cfacts.kids(init)[0]) if init.get("kind") == "BinaryOperator" else None
            if t is not None and t.get("kind") == "DeclRefExpr":
                var_id = t["referencedDecl"]["id"]
                var_name = t["referencedDecl"].get("name")
        if var_id is None or not cond.get("kind"):
            raise AnalysisError("%s: for loop without an induction variable" % self.fname)
        c = self.ev(cond)
        if isinstance(c, Poly) and c.is_const():
            n_it = 0
            while True:
                c = self.ev(cond)
                if not (isinstance(c, Poly) and c.is_const()):
                    raise AnalysisError("%s: loop condition became symbolic" % self.fname)
                if not c.const_value():
                    break
                n_it += 1
                if n_it > self.MAX_UNROLL:
                    raise AnalysisError("%s: loop does not terminate within %d iterations" % (self.fname, self.MAX_UNROLL))
                self.stmt(body)
                self.ev(inc)
            return
        # symbolic bound: i = 0 ; i < B ; i++
        if not getattr(self, "allow_symbolic_loops", True):
            raise AnalysisError("%s: loop with a symbolic bound" % self.fname)
        if not (isinstance(c, tuple) and c[0] == "cmp" and c[1] == "<"):
            raise AnalysisError("%s: loop condition `%s` not of the form var < bound" % (self.fname, self.tu.text_of(cond)))
        start = self.env.get(var_id)
        if not (isinstance(start, Poly) and start.is_const() and start.const_value() == 0 and c[2] == start):
            raise AnalysisError("%s: symbolic loop does not start at 0" % self.fname)
        inc_s = cfacts.strip(inc)
        if not (inc_s.get("kind") == "UnaryOperator" and inc_s.get("opcode") == "++"):
            raise AnalysisError("%s: symbolic loop increment is not ++" % self.fname)
        atom = Poly.atom("@%s%d" % (var_name, len(self.loop_stack)))
        self.env[var_id] = atom
        self.loop_stack.append((next(iter(atom.atoms())), c[3]))
        try:
            self.stmt(body)
        finally:
            self.loop_stack.pop()
        self.env[var_id] = Opaque("loop variable after loop")


class FieldEval(CEval):
    """Tolerant evaluation: which scalar values a function leaves in the struct it fills (and in its locals),
    skipping what cannot be modelled.  A branch on a symbolic condition is run both ways and the values that differ
    become opaque; loops with symbolic bounds are not executed and everything assigned inside them becomes opaque;
    a statement that cannot be evaluated only invalidates what it assigns."""

    allow_symbolic_loops = False

    def _all_structs(self):
        out = {id(s_): s_ for s_ in self.structs.values()}
        for v in self.env.values():
            if isinstance(v, Struct):
                out[id(v)] = v
        return list(out.values())

    def _snap(self):
        return dict(self.env), [(s_, dict(s_.fields), {k: dict(v) for k, v in s_.arrays.items()}) for s_ in self._all_structs()]

    def _restore(self, snap):
        self.env = dict(snap[0])
        for s_, f, a in snap[1]:
            s_.fields = dict(f)
            s_.arrays = {k: dict(v) for k, v in a.items()}

    def _invalidate(self, n):
        for x in cfacts.walk(n):
            k = x.get("kind")
            tgt = None
            if k == "BinaryOperator" and x.get("opcode") == "=" or k == "CompoundAssignOperator":
                tgt = cfacts.strip(cfacts.kids(x)[0])
            elif k == "UnaryOperator" and x.get("opcode") in ("++", "--"):
                tgt = cfacts.strip(cfacts.kids(x)[0])
            elif k == "VarDecl":
                self.env[x["id"]] = Opaque("declared in skipped code")
            if tgt is None:
                continue
            if tgt.get("kind") == "DeclRefExpr":
                self.env[(tgt.get("referencedDecl") or {}).get("id")] = Opaque("assigned in skipped code")
            elif tgt.get("kind") == "MemberExpr":
                try:
                    base = self.ev(cfacts.kids(tgt)[0])
                except AnalysisError:
                    base = None
                if isinstance(base, Struct):
                    base.fields[tgt.get("name")] = Opaque("assigned in skipped code")

    def stmt(self, n):
        k = n.get("kind")
        if k == "CompoundStmt":
            for c in cfacts.kids(n):
                self.stmt(c)
            return
        if k == "IfStmt":
            ks = cfacts.kids(n)
            try:
                c = self.ev(ks[0])
            except AnalysisError:
                c = None
            if isinstance(c, Poly) and c.is_const():
                if c.const_value():
                    self.stmt(ks[1])
                elif len(ks) > 2:
                    self.stmt(ks[2])
                return
            snap = self._snap()
            self.stmt(ks[1])
            s1 = self._snap()
            self._restore(snap)
            if len(ks) > 2:
                self.stmt(ks[2])
            # merge: keep what both branches agree on
            env1 = s1[0]
            for key in set(env1) | set(self.env):
                a, b = env1.get(key), self.env.get(key)
                if not (isinstance(a, Poly) and isinstance(b, Poly) and a == b) and a is not b:
                    self.env[key] = Opaque("differs between branches")
            for s_, f1, _ in s1[1]:
                for name in set(f1) | set(s_.fields):
                    a, b = f1.get(name), s_.fields.get(name)
                    if not (isinstance(a, Poly) and isinstance(b, Poly) and a == b) and a is not b:
                        s_.fields[name] = Opaque("differs between branches")
            return
        if k in ("ForStmt", "WhileStmt", "DoStmt", "SwitchStmt"):
            snap = self._snap()
            try:
                if k != "ForStmt":
                    raise AnalysisError("loop")
                self.for_stmt(n)
            except AnalysisError:
                self._restore(snap)
                self._invalidate(n)
            return
        try:
            CEval.stmt(self, n)
        except AnalysisError:
            self._invalidate(n)
