"""
C09: sdmx_slow.EXXSphGenerator.get_feat_and_occd(..., buf=...) must return the
same features and occupation derivatives whether or not the caller supplies a
scratch buffer.  The routine hands the SAME buffer to eval_conv_ao (convolved
orbitals) and then to eval_ao (plain orbitals), so the plain orbitals overwrite
the start of the convolved ones before they are used.
"""
import os, sys
sys.path.insert(0, os.path.dirname(os.path.abspath(__file__)))
import cider_env  # noqa
import numpy as np
from pyscf import gto, dft
from ciderpress.dft.settings import SDMXSettings, SDMXFullSettings
from ciderpress.pyscf import sdmx_slow

mol = gto.M(atom="O 0 0 0; H 0 -0.757 0.587; H 0 0.757 0.587", basis="6-31g", verbose=0)
ks = dft.RKS(mol); ks.xc = "PBE"; ks.grids.level = 0; ks.kernel()
dm = ks.make_rdm1()
coeffs = np.ascontiguousarray(ks.mo_coeff[:, 3:6].T)
coords = ks.grids.coords[:300]
fail = 0
for label, settings in [
    ("SDMXSettings([0,1,2])", SDMXSettings([0, 1, 2])),
    ("SDMXFullSettings with l1", SDMXFullSettings({1.0: ([0, 1], [2, 1, 1, 1])})),
]:
    gen = sdmx_slow.EXXSphGenerator.from_settings_and_mol(settings, 1, mol)
    f0, d0 = gen.get_feat_and_occd(dm, coeffs, mol, coords)
    ncpa = 4 if gen.has_l1 else 1
    buf = np.empty(mol.nao_nr() * coords.shape[0] * ncpa * gen.plan.nalpha)
    f1, d1 = gen.get_feat_and_occd(dm, coeffs, mol, coords, buf=buf)
    f2 = gen.get_features(dm, mol, coords)
    e_f = np.abs(f1 - f0).max() / np.abs(f0).max()
    e_d = np.abs(d1 - d0).max() / np.abs(d0).max()
    print(label)
    print("  reference (buf=None) agrees with get_features: %.1e" % (np.abs(f0 - f2).max() / np.abs(f2).max()))
    print("  expected: identical results with a caller-supplied buf")
    print("  observed: max rel. deviation of features %.3e, of occupation derivatives %.3e" % (e_f, e_d))
    if e_f > 1e-10 or e_d > 1e-10:
        fail += 1
sys.exit(1 if fail else 0)
