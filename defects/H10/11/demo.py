"""C18 demo: a valid SDMXFullSettings that has 'l=1, rdr' terms (4th count, n1dterms)
but no plain l=1 terms (3rd count, n1terms == 0) is accepted by the settings, plan and
initialiser classes (nfeat, usps, ueg vector, normalisers all consistent), but the
PySCF generator decides whether to build the l=1 intermediates from n1terms alone
(EXXSphGenerator.has_l1), so get_features dies with an IndexError."""
import os
import sys

sys.path.insert(0, os.path.dirname(os.path.abspath(__file__)))
import cider_env  # noqa: E402

cider_env.install()

import numpy as np  # noqa: E402
from pyscf import dft, gto  # noqa: E402

from ciderpress.dft.settings import SDMXFullSettings  # noqa: E402
from ciderpress.pyscf.sdmx import PySCFSDMXInitializer  # noqa: E402

mol = gto.M(atom="He 0 0 0; H 0 0 1.2", basis="def2-svp", verbose=0, charge=1)
grids = dft.Grids(mol)
grids.level = 0
grids.build()
dm = dft.RKS(mol).get_init_guess()


def feats(sd):
    s = SDMXFullSettings(sd)
    lens = (s.nfeat, len(s.get_feat_usps()), len(s.ueg_vector()),
            len(s.get_reasonable_normalizer()))
    gen = PySCFSDMXInitializer(s).initialize_sdmx_generator(mol, 1)
    print("settings %s: nfeat/usps/ueg/normalizers = %s; plan n0=%d n1=%d" % (
        sd, lens, gen.plan.num_l0_feat, gen.plan.num_l1_feat))
    return s, gen.get_features(dm, mol, grids.coords)


fails = 0
# reference: same l=0 term, both kinds of l=1 terms -> rows [H_0, H_0^1, H_0^1d]
_, ref = feats({1.0: ([0, 1], [1, 0, 1, 1])})
print("  reference features", ref.shape)
try:
    s, f = feats({1.0: ([0, 1], [1, 0, 0, 1])})
except IndexError as e:
    print("  expected: %d features (rows 0 and 2 of the reference)" % 2)
    print("  observed: IndexError:", e)
    fails += 1
else:
    err = np.abs(f - ref[[0, 2]]).max()
    print("  features", f.shape, " max|diff to reference rows 0,2| = %.3e" % err)
    if f.shape != (s.nfeat, ref.shape[1]) or err > 1e-10:
        fails += 1
print("failures:", fails)
sys.exit(1 if fails else 0)
