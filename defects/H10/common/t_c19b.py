import sys, os
sys.path.insert(0, os.path.dirname(__file__))
from t_c19 import *
mol = gto.M(atom="O 0 0 0; H 0 0.76 0.59; H 0 -0.76 0.59", basis="sto-3g", verbose=0)
for kw, lmax in [(dict(atom_grid=(10,1)),4), (dict(atom_grid=(10,6)),4), (dict(atom_grid=(10,14)),4),(dict(level=3),15),(dict(level=3),20),(dict(level=9),24), (dict(level=1),2), (dict(atom_grid={'default':(20,50)}),4)]:
    try:
        r = check(mol, lmax=lmax, **kw)
        print(kw, lmax, r[0] if isinstance(r, tuple) else r)
    except Exception as e:
        print(kw, lmax, "EXC", repr(e))
molg = gto.M(atom="O 0 0 0; H 0 0.76 0.59; ghost-H 0 -0.76 0.59", basis="sto-3g", verbose=0, spin=1)
try:
    r = check(molg, lmax=6, level=1); print("ghost", r[0] if isinstance(r, tuple) else r)
except Exception as e: print("ghost EXC", repr(e))
# prune by density
mf = dft.RKS(mol); mf.xc='lda'; 
for align in [8, 1, 0, 5]:
  for thr in [1e-2, 1e-1]:
    g = CiderGrids(mol, lmax=6); g.level=1; g.alignment=align; g.build()
    dm = mf.get_init_guess()
    ao = dft.numint.eval_ao(mol, g.coords)
    rho = dft.numint.eval_rho(mol, ao, dm)
    c0, w0 = g.coords.copy(), g.weights.copy()
    for it in range(2):
        rho_c = rho.copy()
        g.prune_by_density_(rho_c, threshold=thr)
        ind = g.grids_indexer; n = ind.idx_map.size
        ok = (n + ind.padding == g.weights.size) and np.array_equal(ind.all_weights[ind.idx_map], g.weights[:n]) and np.all(g.weights[n:]==0) and len(set(ind.idx_map.tolist()))==n
        ok = ok and ind.iatom_list.size == n
        print(align, thr, it, g.weights.size, n, ind.padding, ok)
        ao = dft.numint.eval_ao(mol, g.coords)
        rho = dft.numint.eval_rho(mol, ao, dm)
