from ref import *
import ref, sys
from ciderpress.pyscf.gen_cider_grid import CiderGrids
from ciderpress.pyscf.nldf_convolutions import PyscfNLDFGenerator
np.random.seed(0)
ni = NumInt()
th=[1.0,0.0,0.03125]; fp=[[2.0,0.0,0.04]]
vj = NLDFSettingsVJ('MGGA', th, 'one', ["se"], fp)
for symm in [False, True]:
    mol = gto.M(atom="H 0.3 0.1 0; F 1.1 0.4 0.2", basis="def2-svp", spin=0, verbose=0, symmetry=symm)
    print(symm, mol.atom_coords())
    ks = dft.RKS(mol); ks.xc='PBE'; ks.grids.level=1; ks.kernel()
    dm = ks.make_rdm1()
    grids = CiderGrids(mol, lmax=10); grids.level=1; grids.build(with_non0tab=False)
    rho = get_full_rho(ni, mol, dm, grids, 'MGGA')[0]
    sel0 = np.where(rho[0] > 1e-3)[0]
    sel = np.random.choice(sel0, 100, replace=False)
    coords = grids.coords[sel]
    refv = reference(mol, dm, vj, coords)
    for itype in ['onsite_direct', 'onsite_spline']:
        gen = PyscfNLDFGenerator.from_mol_and_settings(mol, grids.grids_indexer, 1, vj, interpolator_type=itype)
        gen.interpolator.set_coords(grids.coords)
        pred = gen.get_features(rho)[:, sel]
        err = np.abs(pred - refv).max(axis=1)
        scale = np.abs(refv).max(axis=1)
        print(symm, itype, ' '.join('%.0e'%x for x in err/scale))
