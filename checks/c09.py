#!/usr/bin/env python3
"""C09 -- results are independent of batching, blocking, call history and input aliasing.
Static rules (DESIGN.md §C09):

 batch-index      every subscript at the batch axis of an array allocated with the batch size (and the first
                  argument of make_rho) is the induction variable of an *enclosing* batch loop, a full slice,
                  or a literal protected by one of the un-batching idioms; stale loop variables and a batch
                  loop nested in a batch loop that ignores the outer element are reported
 cache-typestate  feature generators: a consume (get_potential / get_vxc_) is preceded, in the same batch
                  iteration and for the same spin slot, by its produce (get_features); the spin slot is
                  forwarded unchanged to the plan-level caches
 hidden-write     no API entry point writes a caller-provided array that is not an output buffer by the
                  repository's conventions (flow-sensitive alias analysis + interprocedural summaries)
 reinit           initialize_feature_generators compares every input of the generator constructor before
                  reusing the generator, records what it compared, and siblings prepare the new generator alike
 ctor-roundtrip   NLDFAuxiliaryPlan.new() feeds back attributes that still hold the raw constructor argument
 chunk-loop       KernelEvaluator.__call__ covers [0, N) chunk by chunk and accumulates with +=
"""
import ast
import os
import sys

sys.path.insert(0, os.path.dirname(os.path.dirname(os.path.abspath(__file__))))
from sa import core, pyfacts as pf, cfg as cfgm, batch, effects  # noqa: E402
from sa.selftest import Mutant  # noqa: E402

PROP = "C09"
NUMINT = "ciderpress/pyscf/numint.py"
RKSG = "ciderpress/pyscf/rks_grad.py"
UKSG = "ciderpress/pyscf/uks_grad.py"
PLANS = "ciderpress/dft/plans.py"
SETTINGS = "ciderpress/dft/settings.py"
TD = "ciderpress/dft/transform_data.py"
FN = "ciderpress/dft/feat_normalizer.py"
XE = "ciderpress/dft/xc_evaluator.py"
XE2 = "ciderpress/dft/xc_evaluator2.py"
GEN = "ciderpress/dft/lcao_nldf_generator.py"
SDMX = "ciderpress/pyscf/sdmx.py"

INTEGRATORS = ["nr_rks", "nr_uks", "nr_rks_nldf", "nr_uks_nldf"]
GRADS = ["get_vxc", "get_vxc_nldf", "get_vxc_full_response", "get_vxc_nldf_full_response"]
BATCH_FUNCS = [(NUMINT, n) for n in INTEGRATORS] + [(RKSG, n) for n in GRADS] + [(UKSG, n) for n in GRADS]

# modules whose functions are summarised by the effect analysis
EFF_MODULES = [
    SETTINGS, PLANS, TD, FN, XE, XE2, GEN,
    "ciderpress/dft/lcao_interpolation.py", "ciderpress/dft/lcao_convolutions.py", "ciderpress/dft/baselines.py",
    "ciderpress/dft/grids_indexer.py", NUMINT, RKSG, UKSG, SDMX, "ciderpress/pyscf/nldf_convolutions.py",
    "ciderpress/pyscf/frac_lapl.py", "ciderpress/pyscf/dft.py",
]
# every public function / public method of these modules is an API entry point
PUBLIC_API_MODULES = [SETTINGS, PLANS, TD, FN, XE, XE2]
# plus the observation points of the properties
EXPLICIT_API = [(NUMINT, n) for n in INTEGRATORS] + [(NUMINT, "CiderNumIntMixin.eval_xc_cider")] + \
    [(RKSG, n) for n in GRADS + ["get_veff"]] + [(UKSG, n) for n in GRADS + ["get_veff"]] + \
    [(GEN, "LCAONLDFGenerator." + n) for n in ("get_features", "get_potential", "get_features_and_occ_derivs")] + \
    [(SDMX, "EXXSphGenerator." + n) for n in ("get_features", "get_vxc_", "__call__")]

# The repository's output-buffer conventions: an optional `=None` buffer, or one of these names
# (frozen from the signatures on the pinned tree), or the first data argument of a function that
# has an explicit `inplace` switch.
OUT_NAMES = set("""out buf res dres feat dfeat vxc vmat vf f_gq f_uq dfdx dfdrho dfdinh xn y tdesc vbuf dbuf output
vrho vsigma vtau vrho_data vdrho vf_qg occd f_arlpq f1_uq theta_rlmq vxc_mat l0tmp l1tmp vmats buffers aow v1 excsum
e dedx vX0T p_uq vrho_tuple dfdX1 f_rlmq vf_gq""".split())
# names that are buffers only in functions named `..._` (the repo's in-place naming convention)
OUT_NAMES_INPLACE_FN = {"f"}


def is_buffer(f, p):
    if p in f.default_none or p in OUT_NAMES:
        return True
    if f.node.name.endswith("_") and p in OUT_NAMES_INPLACE_FN:
        return True
    if "inplace" in f.all_params and p == f.first_data_param:
        return True
    return False


# ----------------------------------------------------------------------------
# rule 1: batch-index discipline
# ----------------------------------------------------------------------------
def batch_functions(tree):
    mods = {}
    out = []
    for rel, name in BATCH_FUNCS:
        if rel not in mods:
            mods[rel] = pf.Module(tree, rel)
        out.append(batch.BatchFunction(mods[rel].func(name), rel))
    return out


def rule_batch_index(chk):
    bfs = batch_functions(chk.tree)
    chk.count("integrator / gradient functions analysed for batch discipline", len(bfs))
    for bf in bfs:
        chk.count("batch-indexed arrays", len(bf.arrays))
        chk.count("batch loops", len(bf.loops))
        batch.report(chk, "batch-index", bf)
    return bfs


# ----------------------------------------------------------------------------
# rule 2: per-density cache typestate
# ----------------------------------------------------------------------------
PRODUCE_CONSUME = [("nldfgen", "get_features", "get_potential"), ("sdmxgen", "get_features", "get_vxc_")]


def _spin_of(call):
    for k in call.keywords:
        if k.arg == "spin":
            return pf.src(k.value)
    return "0"


def _scope_of(node):
    return pf.enclosing_func(node)


def _batch_loops_around(bf, node, scope):
    out = []
    n = pf.parent(node)
    while n is not None and n is not scope:
        if isinstance(n, ast.For) and bf.induction_vars(n):
            out.append(n)
        if isinstance(n, (ast.ListComp, ast.GeneratorExp)):
            for g in n.generators:
                if bf._is_range_sym(g.iter):
                    out.append(g)
        n = pf.parent(n)
    return out


def rule_cache_typestate(chk, bfs):
    n_sites = 0
    for bf in bfs:
        fn, rel = bf.fn, bf.rel
        calls = {}
        for n in ast.walk(fn):
            if isinstance(n, ast.Call) and isinstance(n.func, ast.Attribute) and isinstance(n.func.value, ast.Attribute):
                for attr, prod, cons in PRODUCE_CONSUME:
                    if n.func.value.attr == attr and n.func.attr in (prod, cons):
                        key = (pf.src(n.func.value), _spin_of(n))
                        calls.setdefault(key, {"P": [], "C": []})["P" if n.func.attr == prod else "C"].append(n)
        for (recv, spin), pc in sorted(calls.items()):
            for c in pc["C"]:
                n_sites += 1
                scope = _scope_of(c)
                lc = _batch_loops_around(bf, c, scope)
                inst = "%s:%s %s.%s(spin=%s)" % (rel, fn.name, recv, c.func.attr, spin)
                # key by receiver / method / spin slot (+ ordinal), not by the names of local variables
                ordinal = sorted(pc["C"], key=lambda x: (x.lineno, x.col_offset)).index(c)
                construct = "%s(spin=%s)%s" % (pf.src(c.func), spin, "" if ordinal == 0 else " #%d" % (ordinal + 1))
                same_scope = [p for p in pc["P"] if _scope_of(p) is scope]
                if not same_scope:
                    chk.violation("cache-typestate", rel, fn.name, construct, c.lineno,
                                  "%s consumes the cache slot spin=%s of %s but no %s(..., spin=%s) call produces "
                                  "that slot in this function" % (c.func.attr, spin, recv,
                                                                  [x for x in PRODUCE_CONSUME if x[2] == c.func.attr][0][1],
                                                                  spin), instance=inst)
                    continue
                good, why = False, ""
                for p in same_scope:
                    lp = _batch_loops_around(bf, p, scope)
                    dom = _executes_before(p, c, scope)
                    same_iter = (lc[:1] == lp[:1]) if (lc or lp) else True
                    if lc and lp and lc[0] is not lp[0]:
                        same_iter = False
                    if dom and same_iter:
                        # same batch element?
                        pv = _batch_vars(bf, p)
                        cv = _batch_vars(bf, c)
                        if pv == cv:
                            good = True
                            break
                        why = "produce is called for batch element %s, consume for %s" % (sorted(pv), sorted(cv))
                    elif not dom:
                        why = why or "no %s call for this slot dominates it (consume may run first)" % p.func.attr
                    else:
                        unb = bf.unbatched_guard(c) if not lc else None
                        if not lc and lp and unb:
                            good = True
                            break
                        why = ("the produce `%s(...)` runs in the loop `%s` for *every* batch element before this "
                               "consume runs in %s: the generator keeps one cache per spin, so for %s > 1 every "
                               "element but the last is back-propagated through the cache of the last element" % (
                                   pf.src(p.func), batch.head_text(lp[0]) if lp else "<no loop>",
                                   ("the separate loop `%s`" % batch.head_text(lc[0])) if lc else "no batch loop",
                                   bf.sym))
                if good:
                    chk.ok("cache-typestate", inst)
                else:
                    chk.violation("cache-typestate", rel, fn.name, construct, c.lineno, why, instance=inst)
    chk.count("generator consume sites", n_sites)
    # spin slot forwarded unchanged to the plan-level caches
    mod = pf.Module(chk.tree, GEN)
    for meth, callee in (("get_features", "eval_rho_full"), ("get_potential", "eval_vxc_full")):
        fn = mod.func("LCAONLDFGenerator." + meth)
        if "spin" not in [a.arg for a in fn.args.args]:
            raise core.AnalysisError("LCAONLDFGenerator.%s lost its spin parameter" % meth)
        calls = [n for n in pf.walk_no_nested(fn) if isinstance(n, ast.Call) and isinstance(n.func, ast.Attribute)
                 and n.func.attr == callee]
        if not calls:
            raise core.AnalysisError("LCAONLDFGenerator.%s no longer calls plan.%s" % (meth, callee))
        for c in calls:
            kw = [k for k in c.keywords if k.arg == "spin"]
            inst = "%s:LCAONLDFGenerator.%s -> plan.%s(spin=spin)" % (GEN, meth, callee)
            if kw and pf.src(kw[0].value) == "spin":
                chk.ok("cache-typestate", inst)
            else:
                chk.violation("cache-typestate", GEN, "LCAONLDFGenerator." + meth, "%s(...)" % pf.src(c.func), c.lineno,
                              "the generator's spin slot is not forwarded to plan.%s (found spin=%s): the plan-level "
                              "caches _cached_p_i_qg/_cached_l1_data of the two spin channels are mixed up" % (
                                  callee, pf.src(kw[0].value) if kw else "<default 0>"), instance=inst)
        # the generator's own cache is indexed by that same parameter
        subs = [n for n in pf.walk_no_nested(fn) if isinstance(n, ast.Subscript) and pf.is_self_attr(n.value, "_cache")]
        if not subs:
            raise core.AnalysisError("LCAONLDFGenerator.%s no longer uses self._cache[...]" % meth)
        for s in subs:
            inst = "%s:LCAONLDFGenerator.%s %s" % (GEN, meth, pf.src(s))
            if pf.src(s.slice) == "spin":
                chk.ok("cache-typestate", inst, nontrivial=False)
            else:
                chk.violation("cache-typestate", GEN, "LCAONLDFGenerator." + meth, pf.src(s), s.lineno,
                              "cache slot %s is not the slot of the `spin` argument" % pf.src(s.slice), instance=inst)


def _chain(node, scope):
    out = [node]
    n = pf.parent(node)
    while n is not None and n is not scope:
        out.append(n)
        n = pf.parent(n)
    out.append(scope)
    return out


def _executes_before(p, c, scope):
    """Whenever control reaches `c`, `p` has been executed before it in the same activation: the statement
    holding p precedes the statement holding c in a common block, and every `if` between that block and p is
    an `if` whose (test, branch) also holds at c (same source text; the repo's guards test settings flags).
    Loops around p are assumed to run at least once."""
    cp, cc = _chain(p, scope), _chain(c, scope)
    ids_c = {id(x): k for k, x in enumerate(cc)}
    k = next((i for i, x in enumerate(cp) if id(x) in ids_c), None)
    if k is None or k == 0 or ids_c[id(cp[k])] == 0:
        return False
    anc = cp[k]
    sp, sc = cp[k - 1], cc[ids_c[id(anc)] - 1]
    if sp is sc:
        return (p.lineno, p.col_offset) < (c.lineno, c.col_offset)
    blocks = [getattr(anc, f) for f in ("body", "orelse", "finalbody") if isinstance(getattr(anc, f, None), list)]
    blk = next((b for b in blocks if any(x is sp for x in b) and any(x is sc for x in b)), None)
    if blk is None:
        return False
    if [i for i, x in enumerate(blk) if x is sp][0] >= [i for i, x in enumerate(blk) if x is sc][0]:
        return False
    have = set()
    for t, pol, _k in cfgm.conditions_at(c, stop=None):
        have.add((pf.src(t), pol))
    child = p
    for anc2 in cp[1:k]:
        if isinstance(anc2, ast.If):
            pol = any(child is x for x in anc2.body)
            if (pf.src(anc2.test), pol) not in have:
                return False
        elif isinstance(anc2, (ast.While, ast.Try)):
            return False
        child = anc2
    return True


def _batch_vars(bf, call):
    """induction variables used to select the batch element in the arguments of a generator call"""
    out = set()
    allv = set()
    for _, iv, _k in bf.loops:
        allv |= iv
    for a in list(call.args) + [k.value for k in call.keywords]:
        for n in ast.walk(a):
            if isinstance(n, ast.Subscript) and isinstance(n.value, ast.Name) and n.value.id in bf.arrays:
                e = bf._axis_index(n, bf.arrays[n.value.id])
                if isinstance(e, ast.Name):
                    out.add(e.id)
                elif isinstance(e, ast.Constant):
                    out.add(repr(e.value))
    return out


# ----------------------------------------------------------------------------
# rule 3: hidden writes to caller arrays
# ----------------------------------------------------------------------------
def api_entries(P):
    entries = {}
    for rel in PUBLIC_API_MODULES:
        for f in P.funcs.values():
            if f.rel != rel or f.outer is not None:
                continue
            nm = f.node.name
            if nm.startswith("_") and nm != "__call__":
                continue
            entries[f.key] = f
    for rel, q in EXPLICIT_API:
        entries[(rel, q)] = P.func(rel, q)
    return entries


def rule_hidden_write(chk):
    P = effects.EffProgram(chk.tree, [r for r in EFF_MODULES], is_buffer)
    for rel in EFF_MODULES:
        if rel not in P.prog.modules:
            raise core.AnalysisError("module %s of the effect analysis is absent" % rel)
    P.analyse_all()
    entries = api_entries(P)
    chk.count("functions summarised by the effect analysis", len(P.funcs))
    chk.count("API entry points", len(entries))
    chk.count("calls through untyped callables (assumed effect-free)", len(P.unresolved_calls))
    chk.extra["effect_fixpoint_rounds"] = P.rounds
    reach = {}
    for f in P.funcs.values():
        for r, ent in f.writes.items():
            if r not in f.all_params:
                continue
            for oid, weak in ent["origins"].items():
                reach.setdefault(oid, []).append((f, r, weak))
    reported = set()
    for oid, lst in sorted(reach.items()):
        o = P.origins[oid]
        api = [(f, r, weak) for f, r, weak in lst if f.key in entries]
        strong = [(f, r) for f, r, weak in api if not weak]
        construct = "%s: %s" % (o.param, o.text)
        where = "%s:%s:%s" % (o.func.rel, o.func.qual, o.line)
        what = ("parameter %r of %s is not an output buffer by the repository's conventions (no `=None` default, "
                "not one of the buffer names) but its storage is written by `%s`%s" % (
                    o.param, o.func.qual, o.text[:100], (" (" + o.detail + ")") if o.detail else ""))
        if o.augname and o.param not in o.func.array_evidence:
            chk.note("hidden-write", where, "augmented assignment to the bare parameter %r (in place only if it is an "
                     "array; no evidence that it is): %s" % (o.param, o.text[:80]))
            continue
        if not strong:
            chk.note("hidden-write", where, what + "; not reached from an API entry point along resolved calls%s" % (
                " (only through by-name call edges: %s)" % ", ".join(sorted({f.qual for f, _, _ in api})[:3]) if api else ""))
            continue
        reported.add(oid)
        others = sorted({"%s(%s)" % (f.qual, r) for f, r in strong if f is not o.func})
        msg = what + ". Caller-visible at: " + ", ".join(
            (["%s(%s)" % (o.func.qual, o.param)] if o.func.key in entries else []) + others[:6])
        if others:
            f0, r0 = [(f, r) for f, r in strong if f is not o.func][0]
            pth = P.path(f0, r0, oid)
            if pth:
                msg += ". Example path: " + " -> ".join(pth)
        chk.violation("hidden-write", o.func.rel, o.func.qual, construct, o.line, msg,
                      instance="%s:%s %s" % (o.func.rel, o.func.qual, construct))
    # discharged obligations: every non-buffer parameter of every entry point that no origin reaches
    for key, f in sorted(entries.items()):
        for p in f.all_params:
            if p == f.self_name or (f.is_classmethod and f.params and p == f.params[0]):
                continue
            if is_buffer(f, p):
                continue
            ent = f.writes.get(p)
            bad = ent and any(oid in reported for oid in ent["origins"])
            if not bad:
                chk.ok("hidden-write", "%s:%s(%s) not written" % (f.rel, f.qual, p),
                       nontrivial=p in f.array_evidence)
    return P


# ----------------------------------------------------------------------------
# rule 4: generator re-initialisation
# ----------------------------------------------------------------------------
REINIT_CLASSES = ["CiderNumIntMixin", "NLDFNumInt", "NLDFNLOFNumInt"]


def _cond_terms(fn, name="cond"):
    """`cond = A; cond = cond or B; cond = cond and C` -> (disjuncts, conjuncts) of the final value"""
    ors, ands = [], []
    for st in fn.body:
        if isinstance(st, ast.Assign) and len(st.targets) == 1 and isinstance(st.targets[0], ast.Name) \
                and st.targets[0].id == name:
            v = st.value
            if isinstance(v, ast.BoolOp) and isinstance(v.values[0], ast.Name) and v.values[0].id == name:
                (ors if isinstance(v.op, ast.Or) else ands).extend(v.values[1:])
            else:
                ors, ands = [v], []
    return ors, ands


def rule_reinit(chk):
    mod = pf.Module(chk.tree, NUMINT)
    prog = pf.Program(chk.tree, [NUMINT])
    info = {}
    for cname in REINIT_CLASSES:
        cls = mod.cls(cname)
        fn = pf.methods(cls).get("initialize_feature_generators")
        if fn is None:
            raise core.AnalysisError("%s.initialize_feature_generators vanished" % cname)
        params = [a.arg for a in fn.args.args[1:]]
        # the guarded construction: if cond: self.<gen> = <init>(args)
        ifs = [st for st in fn.body if isinstance(st, ast.If) and isinstance(st.test, ast.Name)]
        if len(ifs) != 1:
            raise core.AnalysisError("%s.initialize_feature_generators: expected one `if cond:` block" % cname)
        blk = ifs[0]
        ctor = None
        for st in blk.body:
            if isinstance(st, ast.Assign) and pf.is_self_attr(st.targets[0]) and isinstance(st.value, ast.Call):
                ctor = st
        if ctor is None:
            raise core.AnalysisError("%s.initialize_feature_generators: generator construction not found" % cname)
        gen_attr = ctor.targets[0].attr
        used = {n.id for a in ctor.value.args + [k.value for k in ctor.value.keywords] for n in ast.walk(a)
                if isinstance(n, ast.Name)} & set(params)
        ors, ands = _cond_terms(fn, blk.test.id)
        if not ors:
            raise core.AnalysisError("%s.initialize_feature_generators: reuse condition not found" % cname)
        fq = "%s.initialize_feature_generators" % cname
        # (a) every constructor input is compared with recorded state
        compared = {}
        for t in ors:
            if isinstance(t, ast.Compare) and len(t.ops) == 1 and isinstance(t.ops[0], (ast.NotEq, ast.IsNot)):
                l, r = t.left, t.comparators[0]
                for a, b in ((l, r), (r, l)):
                    if isinstance(b, ast.Name) and b.id in params and pf.base_name(a) == "self":
                        compared[b.id] = a
        for p in sorted(used):
            inst = "%s:%s reuse of self.%s compares %s" % (NUMINT, fq, gen_attr, p)
            if p in compared:
                chk.ok("reinit", inst)
            else:
                chk.violation("reinit", NUMINT, fq, "reuse condition of self.%s: %s" % (gen_attr, p), fn.lineno,
                              "self.%s is built from (%s) but is reused without comparing %r with the value it was "
                              "built for (condition: %s): a call with a different %s silently reuses the stale "
                              "generator" % (gen_attr, ", ".join(sorted(used)), p,
                                             " or ".join(pf.src(t) for t in ors), p), instance=inst)
        none_test = any(isinstance(t, ast.Compare) and pf.src(t) == "self.%s is None" % gen_attr for t in ors)
        if none_test:
            chk.ok("reinit", "%s:%s first use of self.%s" % (NUMINT, fq, gen_attr), nontrivial=False)
        else:
            chk.violation("reinit", NUMINT, fq, "self.%s is None" % gen_attr, fn.lineno,
                          "the reuse condition does not test `self.%s is None`" % gen_attr)
        # (b) what was compared is recorded on every normal path (here or in the super() chain)
        for p, state in sorted(compared.items()):
            if not (pf.is_self_attr(state)):
                continue  # state kept inside the generator (self.<gen>.plan.nspin)
            attr = state.attr
            inst = "%s:%s records self.%s = %s" % (NUMINT, fq, attr, p)
            if _assigns_on_all_paths(prog, mod, cls, fn, attr, p):
                chk.ok("reinit", inst)
            else:
                chk.violation("reinit", NUMINT, fq, "self.%s = %s" % (attr, p), fn.lineno,
                              "the reuse condition compares self.%s with %s, but self.%s is not updated on every path "
                              "of this method (nor by the super() call): the comparison is made against a stale or "
                              "never-set value, so a changed %s is not (or always) detected" % (attr, p, attr, p),
                              instance=inst)
        follow = []
        for st in blk.body:
            if isinstance(st, ast.Expr) and isinstance(st.value, ast.Call) and pf.base_name(st.value.func) == "self":
                follow.append(st.value)
        info[cname] = (gen_attr, pf.src(ctor.value.func), follow, fn, blk)
    # (c) siblings that build the same generator with the same initializer prepare it alike
    groups = {}
    for cname, (gen_attr, ctor_src, follow, fn, blk) in info.items():
        groups.setdefault((gen_attr, ctor_src), []).append(cname)
    for (gen_attr, ctor_src), names in sorted(groups.items()):
        if len(names) < 2:
            chk.ok("reinit", "%s: self.%s has a single constructing class %s" % (NUMINT, gen_attr, names[0]),
                   nontrivial=False)
            continue
        allcalls = {}
        for n in names:
            for c in info[n][2]:
                allcalls.setdefault(pf.src(c.func), []).append(n)
        for callsrc, have in sorted(allcalls.items()):
            for n in names:
                inst = "%s:%s.initialize_feature_generators prepares new self.%s with %s" % (NUMINT, n, gen_attr, callsrc)
                if n in have:
                    chk.ok("reinit", inst)
                else:
                    chk.violation("reinit", NUMINT, "%s.initialize_feature_generators" % n,
                                  "missing %s(...) after %s(...)" % (callsrc, ctor_src), info[n][3].lineno,
                                  "sibling class(es) %s call `%s(...)` on the freshly built self.%s; %s builds the "
                                  "same generator with the same initializer and never does, so its interpolator has "
                                  "no grid coordinates for the new grids" % (", ".join(have), callsrc, gen_attr, n),
                                  instance=inst)


def _assigns_on_all_paths(prog, mod, cls, fn, attr, param, _depth=0):
    g = cfgm.CFG(fn)

    def is_assign(n):
        st = n.ast
        if n.kind != "stmt":
            return False
        if isinstance(st, ast.Assign) and any(pf.is_self_attr(t, attr) for t in st.targets) \
                and isinstance(st.value, ast.Name) and st.value.id == param:
            return True
        # super().initialize_feature_generators(mol, grids, nspin) forwarding the same parameter
        if isinstance(st, ast.Expr) and isinstance(st.value, ast.Call) and isinstance(st.value.func, ast.Attribute) \
                and pf.src(st.value.func.value) == "super()" and st.value.func.attr == fn.name and _depth < 4:
            if not any(isinstance(a, ast.Name) and a.id == param for a in st.value.args):
                return False
            for m2, c2 in prog.mro(mod, cls)[1:]:
                f2 = pf.methods(c2).get(fn.name)
                if f2 is not None:
                    # the first definition after `cls` in the MRO is the one super() reaches
                    return param in [a.arg for a in f2.args.args] \
                        and _assigns_on_all_paths(prog, m2, c2, f2, attr, param, _depth + 1)
        return False

    ok, _ = g.must_pass(is_assign)
    return ok


# ----------------------------------------------------------------------------
# rule 5: constructor round trip of NLDFAuxiliaryPlan.new
# ----------------------------------------------------------------------------
WRAP = {"np.float64", "float", "int", "np.int32", "np.asarray"}


def rule_ctor_roundtrip(chk):
    mod = pf.Module(chk.tree, PLANS)
    cls = mod.cls("NLDFAuxiliaryPlan")
    new = mod.func("NLDFAuxiliaryPlan.new")
    init = mod.func("NLDFAuxiliaryPlan.__init__")
    params = [a.arg for a in init.args.args[1:]]
    d = None
    for n in pf.walk_no_nested(new):
        if isinstance(n, ast.Call) and pf.call_name(n) == "dict" and n.keywords:
            d = n
    if d is None:
        raise core.AnalysisError("NLDFAuxiliaryPlan.new: `dict(name=self.attr, ...)` not found")
    fed = {}
    for k in d.keywords:
        if k.arg is None:
            raise core.AnalysisError("NLDFAuxiliaryPlan.new: unrecognised entry %s" % pf.src(k))
        if not pf.is_self_attr(k.value):
            # a computed value (e.g. an explicit inverse of the constructor's transformation): not decided
            chk.ok("ctor-roundtrip", "%s:NLDFAuxiliaryPlan.new %s=<computed>" % (PLANS, k.arg), nontrivial=False)
            chk.note("ctor-roundtrip", "%s:NLDFAuxiliaryPlan.new" % PLANS,
                     "%s is fed back as the computed value `%s`; whether it inverts __init__ is not decided" % (
                         k.arg, pf.src(k.value)))
            continue
        fed[k.arg] = k.value.attr
    for p, attr in sorted(fed.items()):
        inst = "%s:NLDFAuxiliaryPlan.new %s=self.%s" % (PLANS, p, attr)
        if p not in params:
            chk.violation("ctor-roundtrip", PLANS, "NLDFAuxiliaryPlan.new", "%s=self.%s" % (p, attr), d.lineno,
                          "new() passes %r, which is not a constructor parameter" % p, instance=inst)
            continue
        bad = []
        n_assign = 0
        for n in pf.walk_no_nested(init):
            if isinstance(n, ast.Assign) and any(pf.is_self_attr(t, attr) for t in n.targets):
                n_assign += 1
                v = n.value
                while isinstance(v, ast.Call) and pf.call_name(v) in WRAP and len(v.args) == 1:
                    v = v.args[0]
                if not (isinstance(v, ast.Name) and v.id == p):
                    bad.append(n)
            elif isinstance(n, ast.AugAssign) and pf.is_self_attr(n.target, attr):
                bad.append(n)
        if n_assign == 0:
            raise core.AnalysisError("NLDFAuxiliaryPlan.__init__ never assigns self.%s" % attr)
        if bad:
            b = bad[0]
            chk.violation("ctor-roundtrip", PLANS, "NLDFAuxiliaryPlan.new", "%s=self.%s" % (p, attr), b.lineno,
                          "new() feeds self.%s back into the constructor parameter %r, but __init__ stores a "
                          "transformed value (`%s`): the transformation is applied twice in the copy, so "
                          "plan.new() is not a copy of plan" % (attr, p, pf.src(b)), instance=inst)
        else:
            chk.ok("ctor-roundtrip", inst)
    for p in params:
        if p not in fed and p not in [k.arg for k in d.keywords]:
            chk.note("ctor-roundtrip", "%s:NLDFAuxiliaryPlan.new" % PLANS,
                     "constructor parameter %r is not forwarded by new(): the copy gets the default" % p)
    # subclasses with extra constructor parameters
    prog = pf.Program(chk.tree, [PLANS])
    for m, c in prog.subclasses("NLDFAuxiliaryPlan"):
        if c is cls:
            continue
        ini = pf.methods(c).get("__init__")
        if ini is None:
            continue
        for a in ini.args.args[1:]:
            if a.arg not in params:
                chk.note("ctor-roundtrip", "%s:%s.__init__" % (PLANS, c.name),
                         "parameter %r of the subclass is not forwarded by the inherited new()" % a.arg)


# ----------------------------------------------------------------------------
# rule 6: chunk loop
# ----------------------------------------------------------------------------
def rule_chunk_loop(chk):
    mod = pf.Module(chk.tree, XE)
    fn = mod.func("KernelEvaluator.__call__")
    fq = "KernelEvaluator.__call__"
    loops = [n for n in pf.walk_no_nested(fn) if isinstance(n, ast.For) and pf.call_name(n.iter) == "range"
             and len(n.iter.args) == 3]
    if len(loops) != 1:
        raise core.AnalysisError("%s: expected one `for i0 in range(0, N, dn)` chunk loop, found %d" % (fq, len(loops)))
    lp = loops[0]
    i0 = lp.target.id
    a0, aN, adn = lp.iter.args
    inst = "%s:%s chunk loop" % (XE, fq)
    problems = []
    if not (isinstance(a0, ast.Constant) and a0.value == 0):
        problems.append("the chunk loop starts at %s, not 0" % pf.src(a0))
    # N must be the sample count of the input
    ndef = [n for n in pf.walk_no_nested(fn) if isinstance(n, ast.Assign) and isinstance(n.targets[0], ast.Name)
            and n.targets[0].id == pf.src(aN)]
    x1 = fn.args.args[1].arg
    if not (len(ndef) == 1 and pf.src(ndef[0].value) == "%s.shape[0]" % x1):
        problems.append("the loop bound %s is not %s.shape[0]" % (pf.src(aN), x1))
    # i1 = min(N, i0 + dn) (or i0 + dn: numpy clips slices)
    i1def = [n for n in lp.body if isinstance(n, ast.Assign) and isinstance(n.targets[0], ast.Name)]
    i1 = None
    for n in i1def:
        s = pf.src(n.value).replace(" ", "")
        want = {"min(%s,%s+%s)" % (pf.src(aN), i0, pf.src(adn)), "min(%s+%s,%s)" % (i0, pf.src(adn), pf.src(aN)),
                "%s+%s" % (i0, pf.src(adn))}
        if s in want:
            i1 = n.targets[0].id
    if i1 is None:
        problems.append("no upper chunk bound `i1 = min(N, i0 + dn)` with the loop step")
    sl_ok = "%s:%s" % (i0, i1)
    n_sub = 0
    for n in ast.walk(lp):
        if isinstance(n, ast.Subscript) and isinstance(n.value, ast.Name) and n.value.id in (x1, "res", "dres"):
            n_sub += 1
            if pf.src(n.slice) != sl_ok:
                problems.append("%s is not the chunk %s[%s]" % (pf.src(n), n.value.id, sl_ok))
    if n_sub < 3:
        problems.append("the loop body no longer slices X1/res/dres by the chunk")
    for n in ast.walk(lp):
        if isinstance(n, ast.Assign) and any(isinstance(t, ast.Subscript) and pf.base_name(t) in ("res", "dres")
                                             for t in n.targets):
            problems.append("`%s` overwrites the shared accumulation buffer instead of adding to it" % pf.src(n))
        if isinstance(n, ast.AugAssign) and pf.base_name(n.target) in ("res", "dres") and not isinstance(n.op, ast.Add):
            problems.append("`%s` is not an additive accumulation" % pf.src(n))
    if problems:
        chk.violation("chunk-loop", XE, fq, "for %s in %s" % (i0, pf.src(lp.iter)), lp.lineno,
                      "; ".join(problems) + " (results must not depend on the chunk size dn)", instance=inst)
    else:
        chk.ok("chunk-loop", inst)


# ----------------------------------------------------------------------------
def analyse(chk):
    chk.rule("batch-index", "batch-axis subscripts are enclosing batch induction variables / full slices / guarded literals")
    chk.rule("cache-typestate", "generator consume is preceded by its produce in the same batch iteration and spin slot")
    chk.rule("hidden-write", "API entry points write only output buffers (alias + effect summaries)")
    chk.rule("reinit", "generator reuse compares every constructor input, records it, siblings prepare alike")
    chk.rule("ctor-roundtrip", "NLDFAuxiliaryPlan.new feeds back raw constructor arguments")
    chk.rule("chunk-loop", "KernelEvaluator chunk loop covers [0,N) and accumulates")
    bfs = chk.guard(rule_batch_index)
    if bfs is not None:
        chk.guard(rule_cache_typestate, bfs)
    chk.guard(rule_hidden_write)
    chk.guard(rule_reinit)
    chk.guard(rule_ctor_roundtrip)
    chk.guard(rule_chunk_loop)
    chk.floor("batch-index", 110, "130 classified batch-axis indexes in 12 functions on the pinned tree")
    chk.floor("cache-typestate", 14, "11 consume sites + spin forwarding in the generator")
    chk.floor("hidden-write", 400, "non-buffer parameters of ~430 API entry points")
    chk.floor("reinit", 10, "3 classes x (inputs compared, recorded, sibling preparation)")
    chk.floor("ctor-roundtrip", 10, "10 keywords fed back by NLDFAuxiliaryPlan.new")
    chk.floor("chunk-loop", 1, "KernelEvaluator.__call__")
    chk.assumptions += [
        "ndarray element stores copy data (A[i] = B does not make A alias B); python list/dict literals keep references",
        "numpy/pyscf calls do not write their arguments except through out=, np.copyto/put/place/putmask/"
        "fill_diagonal, ufunc.at and the frozen pyscf table (_gga_grad_sum_, _tau_grad_dot_, _dot_ao_ao_sparse, "
        "_scale_ao_sparse)",
        "calls through untyped callables (counted in `analysed`) and ctypes calls are assumed not to write caller arrays",
        "output-buffer convention: `=None` optional buffer, a frozen list of buffer names, or the first data argument "
        "of a function with an `inplace` switch",
    ]
    chk.not_decided += [
        "bit-equality of results for different blksize / max_memory (numerical)",
        "writes performed by the C kernels through ctypes pointers",
        "aliasing that goes through object state between two calls (e.g. arrays stored in self._cache and written "
        "by a later call)",
    ]


def mutants(tree):
    return [
        Mutant("stale loop variable in nr_rks_nldf", NUMINT, "nelec[idm] += den.sum()", "nelec[i] += den.sum()",
               expect="batch-index"),
        Mutant("stale loop variable in rks_grad.get_vxc_nldf", RKSG, "excsum[idm] += np.dot(den, exc)",
               "excsum[i] += np.dot(den, exc)", expect="batch-index"),
        Mutant("literal batch index without guard", NUMINT, "    if nset == 1:\n        nelec = nelec[0]",
               "    if nset >= 1:\n        nelec = nelec[0]", expect="batch-index"),
        Mutant("make_rho called with stale index", NUMINT, "rho_full[i, :, ip0:ip1] = make_rho(i, ao, mask, xctype)",
               "rho_full[i, :, ip0:ip1] = make_rho(idm, ao, mask, xctype)", expect="batch-index"),
        Mutant("batch loop nested in generator loop (uks)", NUMINT,
               "        wva = wva_full[i, :, ip0:ip1]\n        wvb = wvb_full[i, :, ip0:ip1]\n",
               "        for k in range(nset):\n            v1[0, k] += 0.0\n        wva = wva_full[i, :, ip0:ip1]\n"
               "        wvb = wvb_full[i, :, ip0:ip1]\n", expect="batch-index"),
        Mutant("consume the wrong spin slot", UKSG, "ni.nldfgen.get_features(rhob_full, spin=1)",
               "ni.nldfgen.get_features(rhob_full, spin=0)", expect="cache-typestate"),
        Mutant("get_potential before get_features", UKSG,
               "        wva_full[:, :] += ni.nldfgen.get_potential(vxc_nldf_full[0], spin=0)\n", "",
               fn=_move_potential_first, expect="cache-typestate"),
        Mutant("sdmx potential for another batch element", NUMINT, "ni.sdmxgen.get_vxc_(vmat[idm], vxc_sdmx[0] * weight)",
               "ni.sdmxgen.get_vxc_(vmat[0], vxc_sdmx[0] * weight)", expect=None),
        Mutant("spin not forwarded to plan cache", GEN, "            vf=vf_gq,\n            spin=spin,\n",
               "            vf=vf_gq,\n", expect="cache-typestate"),
        Mutant("write to a non-buffer parameter (get_s2)", SETTINGS, "    s[cond] = 0.0\n    return s * s",
               "    sigma[cond] = 0.0\n    return s * s", expect="hidden-write"),
        Mutant("dominating copy removed (get_cider_exponent_gga)", SETTINGS,
               "    cond = rho < rhocut\n    rho = rho.copy()\n    rho[cond] = rhocut\n    sigma[cond] = 0\n    if nspin == 1:\n        B = np.pi / 2 ** (2.0 / 3) * a0",
               "    cond = rho < rhocut\n    rho[cond] = rhocut\n    sigma[cond] = 0\n    if nspin == 1:\n        B = np.pi / 2 ** (2.0 / 3) * a0",
               expect="hidden-write"),
        Mutant("alias instead of fresh array (eval_xc_cider)", NUMINT, "        vxc = np.zeros_like(rho)\n",
               "        vxc = rho\n", expect="hidden-write"),
        Mutant("in-place scaling of the input cotangent (SemilocalPlan)", PLANS,
               "        vxc[:, 0] += self.nspin * vfeat[:, 0]\n        # fmt: off\n        vxc[:, 1:4] += (\n            (self.nspin * self.nspin * 2 * vfeat[:, 1])[:, None, :]\n            * rho[:, 1:4]\n        )\n        # fmt: on\n        vxc[:, 4]",
               "        vfeat[:, 0] *= self.nspin\n        vxc[:, 0] += vfeat[:, 0]\n        # fmt: off\n        vxc[:, 1:4] += (\n            (self.nspin * self.nspin * 2 * vfeat[:, 1])[:, None, :]\n            * rho[:, 1:4]\n        )\n        # fmt: on\n        vxc[:, 4]",
               expect="hidden-write"),
        Mutant("view returned by helper is written by caller (normalizer)", FN,
               "        rho_term = np.maximum(X0T[:, 0], self.cutoff)\n        grad_term = X0T[:, 1]\n",
               "        rho_term = X0T[:, 0]\n        grad_term = X0T[:, 1]\n", expect="hidden-write"),
        Mutant("forget to record grids", NUMINT,
               "        super().initialize_feature_generators(mol, grids, nspin)\n        self.grids = grids\n\n\nclass NLDFNLOFNumInt",
               "        super().initialize_feature_generators(mol, grids, nspin)\n\n\nclass NLDFNLOFNumInt",
               expect="reinit"),
        Mutant("drop nspin from the reuse condition", NUMINT,
               "        cond = cond or self.mol != mol\n        cond = cond or self.nldfgen.plan.nspin != nspin\n        if cond:\n            self.nldfgen = self.nldf_init.initialize_nldf_generator(\n                mol, grids.grids_indexer, nspin\n            )\n            self.nldfgen.interpolator",
               "        cond = cond or self.mol != mol\n        if cond:\n            self.nldfgen = self.nldf_init.initialize_nldf_generator(\n                mol, grids.grids_indexer, nspin\n            )\n            self.nldfgen.interpolator",
               expect="reinit"),
        Mutant("sdmx generator reused for another molecule", NUMINT, "        cond = cond or self.mol != mol\n        cond = cond or self.sdmxgen.plan.nspin != nspin",
               "        cond = cond or self.sdmxgen.plan.nspin != nspin", expect="reinit"),
        Mutant("mol no longer recorded by the mixin", NUMINT,
               "            self.sdmxgen = self.sdmx_init.initialize_sdmx_generator(mol, nspin)\n        self.mol = mol\n",
               "            self.sdmxgen = self.sdmx_init.initialize_sdmx_generator(mol, nspin)\n", expect="reinit"),
        Mutant("expcut stored transformed", PLANS, "        self.expcut = expcut\n", "        self.expcut = expcut / nspin\n",
               expect="ctor-roundtrip"),
        Mutant("chunk result overwritten", XE, "res[i0:i1] += k.dot(self.alpha)", "res[i0:i1] = k.dot(self.alpha)",
               expect="chunk-loop"),
        Mutant("chunk loop skips the first chunk", XE, "for i0 in range(0, N, dn):", "for i0 in range(dn, N, dn):",
               expect="chunk-loop"),
    ]


def _move_potential_first(text):
    a = "        wva_full[:, :] += ni.nldfgen.get_potential(vxc_nldf_full[0], spin=0)\n"
    b = "        nldf_feat = np.stack(\n            [\n                ni.nldfgen.get_features(rhoa_full, spin=0),"
    if a not in text or b not in text:
        return None
    return text.replace(a, "").replace(b, a + b)


if __name__ == "__main__":
    sys.exit(core.main(PROP, analyse, mutants, __doc__))
