"""E-eff: effect / alias analysis for Python (DESIGN §1.4, used by C09 rule 3).

For every function of a set of modules the engine computes a *summary*:

  writes[p]   the storage reachable from parameter p may be written (through a
              subscript store, an augmented assignment, an in-place ndarray
              method, an ``out=`` argument, or a call whose callee writes the
              parameter the value is bound to), through any local alias;
  ret         parameters whose storage the returned / yielded value may alias
              (views: subscripts, .T, reshape, np.asarray, np.ndarray(buffer=) …).

Aliasing is flow-sensitive: abstract environments (name -> set of roots) are
propagated over the statement CFG of sa.cfg to a fixpoint, so a rebinding such
as ``rho = rho.copy()`` kills the alias for everything it dominates while a
rebinding on one branch only does not.  Summaries are propagated along resolved
calls to a global fixpoint.

A *root* is a parameter name of the analysed function, ``self`` (object state;
never reported by rule 3) or ``free:<name>`` (a variable captured by a nested
function, mapped back to the enclosing function's environment at the call).

Call edges are *strong* (callee fixed by a name binding, by ``self``/``super()``
in the class hierarchy, by a declared attribute/parameter type, or by a method
name that only one class hierarchy of the analysed modules defines) or *weak*
(resolved by method name only, several unrelated candidates).  A finding whose
path to an API entry point needs a weak edge is downgraded by the caller of
this engine.

Nothing is imported or executed.
"""
import ast
import re

from sa import cfg as cfgm
from sa import pyfacts as pf
from sa.core import AnalysisError

SCALAR_ATTRS = {"shape", "size", "ndim", "dtype", "flags", "ctypes", "nbytes", "itemsize", "strides", "__class__",
                "__name__", "__dict__"}
VIEW_METHODS = {"reshape", "transpose", "view", "ravel", "swapaxes", "squeeze", "diagonal", "conj", "conjugate",
                "newbyteorder", "__getitem__", "get", "values", "items"}
NP_VIEW_FUNCS = {"asarray", "ascontiguousarray", "asfortranarray", "asanyarray", "atleast_1d", "atleast_2d",
                 "atleast_3d", "squeeze", "reshape", "transpose", "swapaxes", "ravel", "expand_dims", "broadcast_to",
                 "flip", "moveaxis", "rollaxis", "diagonal", "real", "imag", "require", "fliplr", "flipud"}
NP_WRITE_ARG0 = {"copyto", "put", "place", "putmask", "fill_diagonal", "put_along_axis"}
INPLACE_METHODS = {"fill", "sort", "put", "itemset", "resize", "partition", "setfield", "setflags",
                   "append", "extend", "insert", "pop", "remove", "clear", "reverse", "update", "setdefault",
                   "popitem", "add", "discard"}
CONTAINER_ADD = {"append", "extend", "insert", "add", "update", "setdefault"}
# numpy ufunc-like functions whose argument after the inputs is `out`
NP_UFUNC_NIN = dict([(n, 2) for n in ("add", "subtract", "multiply", "divide", "true_divide", "floor_divide", "power",
                                       "maximum", "minimum", "fmax", "fmin", "mod", "remainder", "arctan2", "hypot",
                                       "dot", "matmul", "logical_and", "logical_or", "greater", "less", "equal")] +
                    [(n, 1) for n in ("exp", "log", "sqrt", "negative", "abs", "absolute", "square", "sin", "cos",
                                      "tanh", "reciprocal", "sign", "conj", "conjugate", "expm1", "log1p", "cbrt",
                                      "floor", "ceil", "rint", "isnan", "logical_not")] + [("clip", 3)])
CONTAINER_CTORS = {"tuple", "list", "zip", "enumerate", "reversed", "iter", "sorted", "dict", "set"}
# names that are so common on ndarray/list/dict/str that a by-name match to a repo method means nothing
COMMON_EXTERNAL_METHODS = {"copy", "dot", "get", "sum", "mean", "max", "min", "astype", "item", "tolist", "keys",
                           "values", "items", "format", "join", "split", "upper", "lower", "index", "count",
                           "any", "all", "start", "stop", "build", "reset", "kernel", "dump", "load", "to", "eval",
                           "cpu", "detach", "numpy", "zero_grad", "T", "startswith", "endswith", "strip"}
# external (pyscf) helpers that write into an argument
EXTERNAL_WRITES = {"_gga_grad_sum_": [0], "_tau_grad_dot_": [0], "_dot_ao_ao_sparse": [8], "_scale_ao_sparse": [4],
                   "_dot_ao_ao": [], "_scale_ao": [], "_dot_ao_dm": []}

DOC_ARG = re.compile(r"^\s*(\w+)\s*\(\s*([A-Za-z_][\w\.]*)")


class Func:
    def __init__(self, mod, node, cls, outer):
        self.mod = mod
        self.node = node
        self.cls = cls
        self.outer = outer
        self.rel = mod.rel
        self.qual = pf.qualname(node)
        self.key = (self.rel, self.qual)
        a = node.args
        self.params = [x.arg for x in a.posonlyargs + a.args]
        self.kwonly = [x.arg for x in a.kwonlyargs]
        self.vararg = a.vararg.arg if a.vararg else None
        self.kwarg = a.kwarg.arg if a.kwarg else None
        self.all_params = self.params + self.kwonly + ([self.vararg] if self.vararg else []) + (
            [self.kwarg] if self.kwarg else [])
        nd = len(a.defaults)
        self.default_none = set()
        for p, d in zip(self.params[len(self.params) - nd:], a.defaults):
            if isinstance(d, ast.Constant) and d.value is None:
                self.default_none.add(p)
        for p, d in zip(a.kwonlyargs, a.kw_defaults):
            if d is not None and isinstance(d, ast.Constant) and d.value is None:
                self.default_none.add(p.arg)
        decos = {pf.src(d) for d in node.decorator_list}
        self.is_static = "staticmethod" in decos
        self.is_classmethod = "classmethod" in decos
        self.is_property = "property" in decos
        self.is_method = cls is not None and outer is None and not self.is_static
        self.self_name = self.params[0] if (self.is_method and self.params) else None
        self.is_generator = any(isinstance(n, (ast.Yield, ast.YieldFrom)) for n in pf.walk_no_nested(node))
        # summary
        self.writes = {}  # root -> {'legit': bool, 'origins': {oid: weak}}
        self.state = {}  # 'self.X' / 'self.a.X' / 'self.X[k]' -> statements that (re)write that storage
        self.captures = {}  # param -> {(state attr, key)}: the argument is stored into keyed per-object state
        self.cache_events = set()  # (target attr, key, aliased state root, stmt text, line, via)
        self.keyed_stores = set()  # (target attr, key, stmt text): every store into keyed per-object state
        # (state attr root, normalised key) -> {'fill' | 'clear'}: slots of per-object containers this function
        # rebinds, itself or through resolved callees (key: const:<v> | param:<name> | ?:<text>)
        self.slot_stores = {}
        self.slot_restores = set()  # slots rebound to a value read from the same slot earlier (save / restore)
        self.attr_out = {}  # 'self.X' -> parameters the attribute may alias when the method returns
        self.ret = frozenset()
        # the tuple shape of the returned (yielded, for generators) value is syntactic
        vals = []
        for n in pf.walk_no_nested(node):
            if self.is_generator and isinstance(n, ast.Yield):
                vals.append(n.value)
            elif self.is_generator and isinstance(n, ast.YieldFrom):
                vals.append(None)
            elif not self.is_generator and isinstance(n, ast.Return) and n.value is not None:
                vals.append(n.value)
        lens = {len(v.elts) if isinstance(v, ast.Tuple) and not any(isinstance(x, ast.Starred) for x in v.elts)
                else None for v in vals}
        self.ret_shape = lens.pop() if len(lens) == 1 else None
        self.ret_pos = [frozenset()] * self.ret_shape if self.ret_shape else None
        self.state_writes = 0
        self.doc_types = self._doc_types()
        self.local_names = {n.id for n in pf.walk_no_nested(node) if isinstance(n, ast.Name)
                            and isinstance(n.ctx, ast.Store)} | set(self.all_params)
        # names that only ever hold python list/dict literals (element stores keep references)
        binds = {}
        for n in pf.walk_no_nested(node):
            if isinstance(n, ast.Assign):
                for t in n.targets:
                    if isinstance(t, ast.Name):
                        ok = isinstance(n.value, (ast.List, ast.Dict, ast.ListComp, ast.DictComp)) or (
                            pf.call_name(n.value) in ("list", "dict"))
                        binds[t.id] = binds.get(t.id, True) and ok
        self.local_containers = {k for k, v in binds.items() if v} - set(self.all_params)
        self.array_evidence = set()
        self.array_evidence_attrs = set()
        for n in pf.walk_no_nested(node):
            if isinstance(n, ast.Subscript) and isinstance(n.value, ast.Name):
                self.array_evidence.add(n.value.id)
            if isinstance(n, ast.Attribute) and isinstance(n.value, ast.Name):
                self.array_evidence.add(n.value.id)  # has attributes / methods: an object, not a python scalar
            if isinstance(n, (ast.Attribute, ast.Subscript)) and isinstance(n.value, ast.Attribute) \
                    and isinstance(n.value.value, ast.Name) and n.value.value.id == "self":
                self.array_evidence_attrs.add(n.value.attr)

    def _doc_types(self):
        doc = ast.get_docstring(self.node) or ""
        out = {}
        for line in doc.splitlines():
            m = DOC_ARG.match(line)
            if m:
                out[m.group(1)] = m.group(2).split(".")[-1]
        return out

    @property
    def first_data_param(self):
        ps = self.params[1:] if self.self_name else self.params
        return ps[0] if ps else None

    def __repr__(self):
        return "<Func %s:%s>" % self.key


class Origin:
    def __init__(self, func, param, stmt, kind, detail="", augname=False):
        self.func = func
        self.param = param
        self.stmt = stmt
        self.kind = kind  # 'store' | 'pass-to-buffer'
        self.detail = detail
        self.augname = augname
        self.text = cfg_head(stmt)
        self.oid = (func.key, param, self.text)
        self.line = getattr(stmt, "lineno", 0)


def cfg_head(st):
    if isinstance(st, (ast.For, ast.AsyncFor)):
        return "for %s in %s" % (pf.src(st.target), pf.src(st.iter))
    if isinstance(st, (ast.If, ast.While)):
        return "%s %s" % ("if" if isinstance(st, ast.If) else "while", pf.src(st.test))
    if isinstance(st, (ast.With, ast.AsyncWith)):
        return "with " + ", ".join(pf.src(i) for i in st.items)
    return pf.src(st)


class EffProgram:
    def __init__(self, tree, rels, is_buffer):
        """is_buffer(func, param) -> bool : the repository's output-buffer convention"""
        self.tree = tree
        self.prog = pf.Program(tree, rels)
        self.is_buffer = is_buffer
        self.funcs = {}
        self.by_node = {}
        self.methods_by_name = {}
        self.classes_by_name = {}
        self.class_funcs = {}  # id(ClassDef) -> {name: Func}
        self.bound_as_method = {}  # Func.key of module function -> [ClassDef]
        self.origins = {}
        self.via = {}  # (fkey, root, oid) -> (call text, callee key, callee param)
        for rel, mod in self.prog.modules.items():
            for cname, c in mod.classes.items():
                self.classes_by_name.setdefault(cname, []).append((mod, c))
            self._collect(mod, mod.ast, None, None)
        for rel, mod in self.prog.modules.items():
            for c in mod.classes.values():
                for st in c.body:
                    if isinstance(st, ast.Assign) and isinstance(st.value, ast.Name) \
                            and st.value.id in mod.functions:
                        f = self.by_node[id(mod.functions[st.value.id])]
                        self.bound_as_method.setdefault(f.key, []).append((mod, c))
        self._subclass_cache = {}
        self._attr_type_cache = {}
        self._resolve_cache = {}
        self.unresolved_calls = set()

    # -- tables -------------------------------------------------------------
    def _collect(self, mod, node, cls, outer):
        for ch in ast.iter_child_nodes(node):
            if isinstance(ch, (ast.FunctionDef, ast.AsyncFunctionDef)):
                f = Func(mod, ch, cls if outer is None else None, outer)
                if outer is not None:
                    f.cls = outer.cls
                    f.is_method = False
                    f.self_name = None
                self.funcs[f.key] = f
                self.by_node[id(ch)] = f
                if cls is not None and outer is None:
                    self.methods_by_name.setdefault(ch.name, []).append(f)
                    self.class_funcs.setdefault(id(cls), {})[ch.name] = f
                self._collect(mod, ch, cls, f)
            elif isinstance(ch, ast.ClassDef):
                if outer is None:
                    self._collect(mod, ch, ch, None)
            elif isinstance(ch, (ast.If, ast.Try, ast.With, ast.For, ast.While, ast.ExceptHandler)):
                self._collect(mod, ch, cls, outer)

    def func(self, rel, qual):
        f = self.funcs.get((rel, qual))
        if f is None:
            raise AnalysisError("anchor function %s vanished from %s" % (qual, rel))
        return f

    def subclasses(self, cls):
        k = id(cls)
        if k not in self._subclass_cache:
            out = []
            for m, c in self.prog.all_classes():
                if c is cls:
                    continue
                if any(cc is cls for _, cc in self.prog.mro(m, c)):
                    out.append((m, c))
            self._subclass_cache[k] = out
        return self._subclass_cache[k]

    def _mod_of_class(self, cls):
        for m, c in self.prog.all_classes():
            if c is cls:
                return m
        return None

    def lookup_method(self, cls, name, include_overrides=True):
        """methods `name` reachable on an instance whose static class is `cls`"""
        mod = self._mod_of_class(cls)
        out = []
        if mod is None:
            return out
        for m, c in self.prog.mro(mod, cls):
            f = self.class_funcs.get(id(c), {}).get(name)
            if f is not None:
                out.append(f)
                break
        if include_overrides:
            for m, c in self.subclasses(cls):
                f = self.class_funcs.get(id(c), {}).get(name)
                if f is not None and f not in out:
                    out.append(f)
        return out

    def class_named(self, name):
        return [c for _, c in self.classes_by_name.get(name, [])]

    # -- types --------------------------------------------------------------
    def attr_types(self, cls, attr):
        k = (id(cls), attr)
        if k in self._attr_type_cache:
            return self._attr_type_cache[k]
        self._attr_type_cache[k] = []
        out = []
        mod = self._mod_of_class(cls)
        chain = self.prog.mro(mod, cls) if mod is not None else []
        chain = list(chain)
        for m, c in self.subclasses(cls):
            for mc in self.prog.mro(m, c):
                if not any(mc[1] is x[1] for x in chain):
                    chain.append(mc)
        for m, c in chain:
            for st in c.body:
                if isinstance(st, ast.AnnAssign) and isinstance(st.target, ast.Name) and st.target.id == attr:
                    out += self.class_named(pf.src(st.annotation).split(".")[-1])
            for fn in self.class_funcs.get(id(c), {}).values():
                for n in pf.walk_no_nested(fn.node):
                    if isinstance(n, ast.Assign) and len(n.targets) == 1 and pf.is_self_attr(n.targets[0], attr):
                        v = n.value
                        if isinstance(v, ast.Call):
                            cn = pf.call_name(v)
                            if cn:
                                out += self.class_named(cn.split(".")[-1])
                                # ClassName.from_x(...) classmethod constructors
                                parts = cn.split(".")
                                if len(parts) >= 2:
                                    out += self.class_named(parts[-2])
                        elif isinstance(v, ast.Name) and v.id in fn.doc_types:
                            out += self.class_named(fn.doc_types[v.id])
        seen, res = set(), []
        for c in out:
            if id(c) not in seen:
                seen.add(id(c))
                res.append(c)
        self._attr_type_cache[k] = res
        return res

    def expr_types(self, e, f):
        if isinstance(e, ast.Name):
            if f.self_name and e.id == f.self_name and f.cls is not None:
                return [f.cls]
            g = f
            while g is not None:
                if g.self_name and e.id == g.self_name and g.cls is not None:
                    return [g.cls]
                if e.id in g.params:
                    out = []
                    if e.id in g.doc_types:
                        out += self.class_named(g.doc_types[e.id])
                    if g.params and e.id == g.params[0]:
                        for m, c in self.bound_as_method.get(g.key, []):
                            out.append(c)
                    return out
                g = g.outer
            # local constructed object
            for n in pf.walk_no_nested(f.node):
                if isinstance(n, ast.Assign) and len(n.targets) == 1 and isinstance(n.targets[0], ast.Name) \
                        and n.targets[0].id == e.id and isinstance(n.value, ast.Call):
                    cn = pf.call_name(n.value)
                    if cn and self.class_named(cn.split(".")[-1]):
                        return self.class_named(cn.split(".")[-1])
            return []
        if isinstance(e, ast.Attribute):
            out = []
            for c in self.expr_types(e.value, f):
                out += self.attr_types(c, e.attr)
                # property returning a typed attribute is not followed
            return out
        if isinstance(e, ast.Call) and pf.src(e.func) == "super()":
            return []
        return []

    # -- call resolution ----------------------------------------------------
    def resolve(self, call, f):
        """-> list of (callee Func, strong: bool, receiver expr|None)"""
        k = id(call)
        if k not in self._resolve_cache:
            self._resolve_cache[k] = self._resolve(call, f)
        return self._resolve_cache[k]

    def _resolve(self, call, f):
        fn = call.func
        mod = f.mod
        if isinstance(fn, ast.Name):
            n = fn.id
            g = f
            while g is not None:
                for ch in pf.walk_no_nested(g.node):
                    if isinstance(ch, (ast.FunctionDef, ast.AsyncFunctionDef)) and ch.name == n \
                            and pf.enclosing_func(ch) is g.node:
                        return [(self.by_node[id(ch)], True, None)]
                g = g.outer
            if n in f.local_names and n not in mod.functions:
                # `cls(...)` inside a classmethod constructs the class itself
                g = f
                while g is not None:
                    if g.is_classmethod and g.params and g.params[0] == n and g.cls is not None:
                        return [(c, True, "new") for c in self.lookup_method(g.cls, "__init__", False)]
                    g = g.outer
                types = self.expr_types(fn, f)
                if types:
                    out = []
                    for c in types:
                        out += [(m, True, fn) for m in self.lookup_method(c, "__call__")]
                    return out
                # a callable held in an untyped local variable: not resolved (counted by the caller)
                self.unresolved_calls.add(id(call))
                return []
            if n in mod.functions:
                return [(self.by_node[id(mod.functions[n])], True, None)]
            if n in mod.classes:
                return [(c, True, "new") for c in self.lookup_method(mod.classes[n], "__init__", False)]
            if n in mod.imports:
                m, name = mod.imports[n]
                rel = self.prog._modname.get(m)
                if rel and name:
                    m2 = self.prog.modules[rel]
                    if name in m2.functions:
                        return [(self.by_node[id(m2.functions[name])], True, None)]
                    if name in m2.classes:
                        return [(c, True, "new") for c in self.lookup_method(m2.classes[name], "__init__", False)]
            return []
        if not isinstance(fn, ast.Attribute):
            return []
        recv, name = fn.value, fn.attr
        # module.function
        if isinstance(recv, ast.Name) and recv.id in mod.imports and recv.id not in f.local_names:
            m, nm = mod.imports[recv.id]
            full = m if nm is None else (m + "." + nm)
            rel = self.prog._modname.get(full)
            if rel:
                m2 = self.prog.modules[rel]
                if name in m2.functions:
                    return [(self.by_node[id(m2.functions[name])], True, None)]
                if name in m2.classes:
                    return [(c, True, "new") for c in self.lookup_method(m2.classes[name], "__init__", False)]
            return []  # external module
        # super().m
        if isinstance(recv, ast.Call) and isinstance(recv.func, ast.Name) and recv.func.id == "super":
            g = f
            while g is not None and g.cls is None:
                g = g.outer
            if g is None or g.cls is None:
                return []
            chain = self.prog.mro(g.mod, g.cls)[1:]
            for m, c in chain:
                fm = self.class_funcs.get(id(c), {}).get(name)
                if fm is not None:
                    return [(fm, True, ast.Name(id=g.self_name or "self", ctx=ast.Load()))]
            # mixins: the next class in a concrete MRO is unknown statically -> any sibling mixin by name
            if name.startswith("__"):
                return []
            cands = [c for c in self.methods_by_name.get(name, []) if c.cls is not g.cls]
            return [(c, len(cands) == 1, ast.Name(id=g.self_name or "self", ctx=ast.Load())) for c in cands]
        # ClassName.m / cls.m
        if isinstance(recv, ast.Name) and recv.id in mod.classes and recv.id not in f.local_names:
            return [(c, True, None) for c in self.lookup_method(mod.classes[recv.id], name, False)]
        types = self.expr_types(recv, f)
        if types:
            out = []
            for c in types:
                for fm in self.lookup_method(c, name):
                    if fm not in [o[0] for o in out]:
                        out.append((fm, True, recv))
            if out:
                return out
            # typed receiver without such a method: a callable attribute (self.mlxc(...))
            out = []
            for c in self.expr_types(fn, f):
                out += [(m, True, fn) for m in self.lookup_method(c, "__call__")]
            if not out:
                self.unresolved_calls.add(id(call))
            return out
        if name in COMMON_EXTERNAL_METHODS:
            return []
        cands = self.methods_by_name.get(name, [])
        if not cands:
            return []
        roots = set()
        for c in cands:
            chain = self.prog.mro(c.mod, c.cls)
            roots.add(id(chain[-1][1]))
        strong = len(cands) == 1 or len(roots) == 1
        if not strong and any(c.mod is mod for c in cands):
            # by-name only: candidates defined next to the caller are far likelier than homonyms elsewhere
            cands = [c for c in cands if c.mod is mod]
        return [(c, strong, recv) for c in cands]

    # -- analysis -----------------------------------------------------------
    def analyse_all(self, max_rounds=12):
        order = list(self.funcs.values())
        # nested functions first (their summaries are needed by the encloser)
        order.sort(key=lambda f: -len(f.qual.split(".")))
        for rnd in range(max_rounds):
            changed = False
            for f in order:
                if FuncAnalysis(self, f).run():
                    changed = True
            if not changed:
                self.rounds = rnd + 1
                return
        raise AnalysisError("effect summaries did not reach a fixpoint in %d rounds" % max_rounds)

    # -- reporting helpers --------------------------------------------------
    def path(self, f, root, oid, limit=8):
        out = []
        cur = (f.key, root, oid)
        seen = set()
        while cur in self.via and cur not in seen and len(out) < limit:
            seen.add(cur)
            text, ckey, cparam = self.via[cur]
            out.append("%s: `%s`" % (cur[0][1], text[:90]))
            cur = (ckey, cparam, oid)
        return out


def is_state(r):
    return r == "self" or r.startswith("self.")


def state_parts(r):
    """'self.a.X[k]' -> (('a', 'X'), 'k') ; 'self.X' -> (('X',), None)"""
    key = None
    body = r[5:] if r.startswith("self.") else ""
    if body.endswith("]") and "[" in body:
        body, key = body[:-1].split("[", 1)
    return tuple(p for p in body.split(".") if p), key


def _simple_index(sl):
    """a plain key (name / constant / attribute), as used for python dict and list slots"""
    return isinstance(sl, (ast.Name, ast.Attribute)) or (
        isinstance(sl, ast.Constant) and sl.value is not Ellipsis and sl.value is not None)


def _key_text(sl):
    if isinstance(sl, ast.Constant):
        return "const:%r" % (sl.value,)
    return pf.src(sl)


class FuncAnalysis:
    def __init__(self, P, f):
        self.P = P
        self.f = f

    # .. environment ..
    def init_env(self):
        env = {}
        f = self.f
        for p in f.all_params:
            env[p] = frozenset([p])
        if f.self_name:
            env[f.self_name] = frozenset(["self"])
        if f.is_classmethod and f.params:
            env[f.params[0]] = frozenset()
        return env

    def lookup(self, name, env):
        if name in env:
            return env[name]
        f = self.f
        if f.outer is not None and name not in f.local_names:
            g = f.outer
            while g is not None:
                if name in g.local_names:
                    return frozenset(["free:" + name])
                g = g.outer
        return frozenset()

    @staticmethod
    def join(a, b):
        if a is None:
            return dict(b)
        out = dict(a)
        for k, v in b.items():
            if k in out:
                out[k] = out[k] | v
            elif k.startswith("self."):
                out[k] = v | frozenset([k])  # not (re)bound on the other path: still the attribute's storage
            else:
                out[k] = v
        for k in a:
            if k not in b and k.startswith("self."):
                out[k] = a[k] | frozenset([k])
        return out

    def is_self(self, e):
        return isinstance(e, ast.Name) and self.f.self_name is not None and e.id == self.f.self_name

    # .. recording ..
    def write(self, roots, stmt, cause, augname=False):
        """cause: ('store',) | ('call', callee, k, strong)"""
        f, P = self.f, self.P
        for r in roots:
            if is_state(r):
                if r != "self" and (not augname or r.split("[")[0][5:] in f.array_evidence_attrs
                                    or (isinstance(stmt, ast.AugAssign) and isinstance(stmt.target, ast.Name)
                                        and stmt.target.id in f.array_evidence)):
                    # storage reachable from an instance attribute is (re)written: object state, not a
                    # caller array; recorded for the scratch-buffer / cache-alias / cache-mutate rules
                    weak = cause[0] == "call" and not cause[3]
                    self.new_state.setdefault(r, set()).add(("weak: " if weak else "") + cfg_head(stmt)[:90])
                continue
            ent = self.new_writes.setdefault(r, {"legit": False, "origins": {}})
            if r in f.all_params and P.is_buffer(f, r):
                ent["legit"] = True
                continue
            if cause[0] == "store":
                o = Origin(f, r, stmt, "store", augname=augname)
                P.origins.setdefault(o.oid, o)
                ent["origins"][o.oid] = False
            else:
                _, callee, k, strong = cause
                cent = callee.writes.get(k)
                if cent is None:
                    continue
                if cent["legit"]:
                    o = Origin(f, r, stmt, "pass-to-buffer",
                               detail="passed to the output buffer %r of %s" % (k, callee.qual))
                    P.origins.setdefault(o.oid, o)
                    prev = ent["origins"].get(o.oid)
                    if prev is None or (prev and strong):
                        ent["origins"][o.oid] = not strong
                for oid, weak in cent["origins"].items():
                    w = weak or not strong
                    prev = ent["origins"].get(oid)
                    if prev is None or (prev and not w):
                        ent["origins"][oid] = w
                        P.via[(f.key, r, oid)] = (cfg_head(stmt), callee.key, k)

    def key_norm(self, key):
        """const:<v> | param:<name> | ?:<text> for the key text of a slot store in this function"""
        f = self.f
        if key is None or key.startswith(("const:", "param:", "?:")):
            return key
        if key in f.all_params:
            return "param:" + key
        consts = [n.value for n in pf.walk_no_nested(f.node) if isinstance(n, ast.Assign) and len(n.targets) == 1
                  and isinstance(n.targets[0], ast.Name) and n.targets[0].id == key]
        if len(consts) == 1 and isinstance(consts[0], ast.Constant):
            return "const:%r" % (consts[0].value,)
        return "?:" + key

    def cache_store(self, target_roots, key, vroots, stmt, via="", vnode=None):
        """a value with roots `vroots` is stored into a slot of per-object state `target_roots` (keyed by
        `key` when the slot is selected by a run-time key)"""
        f = self.f
        cleared = (isinstance(vnode, ast.Constant) and vnode.value is None) or (
            isinstance(vnode, (ast.List, ast.Tuple, ast.Dict)) and not (vnode.keys if isinstance(vnode, ast.Dict) else vnode.elts))
        for t in target_roots:
            if not t.startswith("self."):
                continue
            tparts, tkey = state_parts(t)
            k = key if key is not None else tkey
            if tkey is not None and not tkey.startswith("const:") and (k is None or k.startswith("const:")):
                k = tkey  # self.A[spin]["name"] = v: the run-time key selects the slot
            if k is not None and not via:
                slot = ("self." + ".".join(tparts), self.key_norm(k))
                self.new_slots.setdefault(slot, set()).add("clear" if cleared else "fill")
                if any(r.startswith("self.") and state_parts(r)[0] == tparts for r in vroots):
                    self.new_restores.add(slot)
            if k is None or k.startswith("const:"):
                continue  # a single slot (or a fixed one): overwritten as a whole by the next producer
            self.new_keyed.add(("self." + ".".join(tparts), k, cfg_head(stmt)[:100]))
            for r in vroots:
                if r == "self" or r.startswith("free:"):
                    continue
                if r.startswith("self."):
                    if state_parts(r)[0] == tparts:
                        continue
                    self.new_events.add(("self." + ".".join(tparts), k, r,
                                         cfg_head(stmt)[:100], getattr(stmt, "lineno", 0), via))
                elif r in f.all_params:
                    self.new_captures.setdefault(r, set()).add(("self." + ".".join(tparts), k))

    # .. expressions ..
    def ev(self, e, env, stmt):
        if e is None:
            return frozenset()
        if isinstance(e, ast.Name):
            return self.lookup(e.id, env)
        if isinstance(e, ast.Attribute):
            if self.is_self(e.value):
                key = "self." + e.attr
                return env[key] if key in env else frozenset([key])
            v = self.ev(e.value, env, stmt)
            if e.attr in SCALAR_ATTRS:
                return frozenset()
            return v
        if isinstance(e, ast.Subscript):
            self.ev(e.slice, env, stmt)
            if isinstance(e.value, ast.Attribute) and self.is_self(e.value.value) and _simple_index(e.slice):
                key = "self." + e.value.attr
                if key not in env:
                    return frozenset(["%s[%s]" % (key, _key_text(e.slice))])
            two = self._two_level(e.value, env)
            if two is not None and _simple_index(e.slice):
                return frozenset(["%s[%s]" % (two, _key_text(e.slice))])
            return self.ev(e.value, env, stmt)
        if isinstance(e, ast.Starred):
            return self.ev(e.value, env, stmt)
        if isinstance(e, (ast.Tuple, ast.List, ast.Set)):
            out = frozenset()
            for x in e.elts:
                out |= self.ev(x, env, stmt)
            return out
        if isinstance(e, ast.Dict):
            out = frozenset()
            for x in list(e.keys) + list(e.values):
                if x is not None:
                    out |= self.ev(x, env, stmt)
            return out
        if isinstance(e, ast.IfExp):
            self.ev(e.test, env, stmt)
            return self.ev(e.body, env, stmt) | self.ev(e.orelse, env, stmt)
        if isinstance(e, ast.BoolOp):
            out = frozenset()
            for x in e.values:
                out |= self.ev(x, env, stmt)
            return out
        if isinstance(e, ast.NamedExpr):
            v = self.ev(e.value, env, stmt)
            env[e.target.id] = v
            return v
        if isinstance(e, (ast.ListComp, ast.SetComp, ast.GeneratorExp, ast.DictComp)):
            env2 = dict(env)
            for g in e.generators:
                self.bind(g.target, self.ev(g.iter, env2, g), env2, g, g.iter)
                for c in g.ifs:
                    self.ev(c, env2, stmt)
            if isinstance(e, ast.DictComp):
                return self.ev(e.key, env2, stmt) | self.ev(e.value, env2, stmt)
            return self.ev(e.elt, env2, stmt)
        if isinstance(e, ast.Call):
            return self.call(e, env, stmt)
        if isinstance(e, (ast.Yield, ast.YieldFrom)):
            v = self.ev(e.value, env, stmt)
            self.new_ret |= v
            if isinstance(e, ast.Yield) and self.new_pos is not None and isinstance(e.value, ast.Tuple):
                for k, x in enumerate(e.value.elts):
                    self.new_pos[k] |= self.ev(x, env, stmt)
            return frozenset()
        if isinstance(e, ast.Await):
            return self.ev(e.value, env, stmt)
        if isinstance(e, ast.Lambda):
            return frozenset()
        # arithmetic, comparisons, constants, f-strings: fresh values; still evaluate for nested calls
        for ch in ast.iter_child_nodes(e):
            if isinstance(ch, ast.expr):
                self.ev(ch, env, stmt)
        return frozenset()

    def _two_level(self, e, env):
        """`self.a.X` (a not rebound in this function) -> 'self.a.X'"""
        if isinstance(e, ast.Attribute) and isinstance(e.value, ast.Attribute) and self.is_self(e.value.value) \
                and ("self." + e.value.attr) not in env:
            return "self.%s.%s" % (e.value.attr, e.attr)
        return None

    def map_root(self, r, bind, recv, recv_roots, env):
        """a root of the callee's summary -> roots in this function"""
        if r == "self":
            return bind.get("self", frozenset())
        if r.startswith("self."):
            if recv == "new" or recv is None:
                return frozenset()
            if self.is_self(recv) or (isinstance(recv, ast.Call) and pf.src(recv.func) == "super"):
                base = r.split("[")[0]
                if base in env and base.count(".") == 1:
                    return env[base]
                return frozenset([r])
            if isinstance(recv, ast.Attribute) and self.is_self(recv.value) and state_parts(r)[0].__len__() == 1 \
                    and ("self." + recv.attr) not in env:
                return frozenset(["self.%s.%s" % (recv.attr, r[5:])])
            return recv_roots
        if r.startswith("free:"):
            return self.lookup(r[5:], env)
        return bind.get(r, frozenset())

    def call(self, c, env, stmt):
        P, f = self.P, self.f
        fn = c.func
        argv = [self.ev(a, env, stmt) for a in c.args]
        kwv = {k.arg: self.ev(k.value, env, stmt) for k in c.keywords}
        recv_roots = frozenset()
        if isinstance(fn, ast.Attribute):
            recv_roots = self.ev(fn.value, env, stmt)
        cn = pf.call_name(c) or ""
        last = cn.split(".")[-1] if cn else (fn.attr if isinstance(fn, ast.Attribute) else "")
        callees = P.resolve(c, f)
        if not callees:
            head = cn.split(".")[0] if cn else ""
            is_np = head in ("np", "numpy")
            # out= convention of numpy / scipy / pyscf: the argument's storage is overwritten
            if kwv.get("out"):
                self.write(kwv["out"], stmt, ("store",))
            if is_np and last in NP_UFUNC_NIN and len(argv) > NP_UFUNC_NIN[last]:
                self.write(argv[NP_UFUNC_NIN[last]], stmt, ("store",))  # positional out
            if is_np and last in NP_WRITE_ARG0 and argv:
                self.write(argv[0], stmt, ("store",))
            if cn.startswith(("np.", "numpy.")) and last == "at" and argv:
                self.write(argv[0], stmt, ("store",))  # ufunc.at
            if last in EXTERNAL_WRITES:
                for k in EXTERNAL_WRITES[last]:
                    if k < len(argv):
                        self.write(argv[k], stmt, ("store",))
            if isinstance(fn, ast.Attribute) and fn.attr in INPLACE_METHODS and recv_roots and not (
                    isinstance(fn.value, ast.Name) and fn.value.id in f.local_containers):
                if fn.attr in CONTAINER_ADD and any(r.startswith("self.") for r in recv_roots):
                    # self.A[k].append(v): a slot of per-object state now holds v
                    vr = frozenset()
                    for a in argv:
                        vr |= a
                    two = self._two_level(fn.value.value, env) if isinstance(fn.value, ast.Subscript) else None
                    self.cache_store(recv_roots if two is None else frozenset(["%s[%s]" % (two, _key_text(fn.value.slice))]),
                                     None, vr, stmt)
                    self.write(frozenset(r for r in recv_roots if not is_state(r)), stmt, ("store",))
                else:
                    self.write(recv_roots, stmt, ("store",))
            # value
            if is_np and last in NP_VIEW_FUNCS and argv:
                return argv[0]
            if cn in ("np.ndarray", "numpy.ndarray"):
                b = kwv.get("buffer", frozenset()) | (argv[5] if len(argv) > 5 else frozenset())
                if b:
                    self.write(b, stmt, ("store",))  # an uninitialised view: the buffer is about to be refilled
                return b
            if isinstance(fn, ast.Attribute) and fn.attr in VIEW_METHODS:
                return recv_roots
            if isinstance(fn, ast.Attribute) and fn.attr == "astype" and any(
                    k.arg == "copy" and isinstance(k.value, ast.Constant) and k.value.value is False for k in c.keywords):
                return recv_roots
            if isinstance(fn, ast.Name) and fn.id in CONTAINER_CTORS:
                out = frozenset()
                for a in argv:
                    out |= a
                return out
            return frozenset()
        out = frozenset()
        for callee, strong, recv in callees:
            bind = self.bind_args(callee, c, argv, kwv, recv, recv_roots)
            if kwv.get("out") and "out" not in callee.all_params and not callee.kwarg:
                self.write(kwv["out"], stmt, ("store",))
            for k, ent in list(callee.writes.items()):
                if k.startswith("free:"):
                    roots = self.lookup(k[5:], env)
                    if not roots and k[5:] not in f.local_names:
                        roots = frozenset([k])  # still free here: pass further out
                else:
                    roots = bind.get(k, frozenset())
                if roots:
                    self.write(roots, stmt, ("call", callee, k, strong))
            # object state written by the callee, seen through the receiver (resolved edges only)
            for r in (callee.state if strong else ()):
                for m in self.map_root(r, bind, recv, frozenset(), env):
                    if m.startswith("self."):
                        self.new_state.setdefault(m, set()).add("%s -> %s" % (cfg_head(stmt)[:50], callee.qual))
                    elif not is_state(m):
                        self.write(frozenset([m]), stmt, ("store",))
            # slots of per-object containers the callee rebinds (and restores)
            if strong:
                for (root, key), kinds in callee.slot_stores.items():
                    for m in self.map_root(root, bind, recv, frozenset(), {}):
                        if m.startswith("self."):
                            k2 = self._map_key(callee, c, recv, key)
                            self.new_slots.setdefault((m.split("[")[0], k2), set()).update(kinds)
                for (root, key) in callee.slot_restores:
                    for m in self.map_root(root, bind, recv, frozenset(), {}):
                        if m.startswith("self."):
                            self.new_restores.add((m.split("[")[0], self._map_key(callee, c, recv, key)))
            # parameters the callee stores into keyed per-object state
            for k, caps in (callee.captures.items() if strong else ()):
                vr = bind.get(k, frozenset())
                if not vr:
                    continue
                for attr, key in caps:
                    troots = self.map_root(attr, bind, recv, frozenset(), env)
                    troots = frozenset(t for t in troots if t.startswith("self."))
                    if troots:
                        self.cache_store(troots, key, vr, stmt, via=callee.qual)
            # attributes the callee (a method of the same object) leaves bound to aliases of its arguments
            if strong and recv is not None and recv != "new" and (self.is_self(recv) or (
                    isinstance(recv, ast.Call) and pf.src(recv.func) == "super")):
                for key, roots in callee.attr_out.items():
                    m = frozenset()
                    for r in roots:
                        m |= self.map_root(r, bind, recv, recv_roots, {})
                    m = frozenset(x for x in m if not is_state(x))
                    if m:
                        env[key] = m | env.get(key, frozenset([key]))
            for r in callee.ret:
                out |= self.map_root(r, bind, recv, recv_roots, env)
        return out

    def _map_key(self, callee, c, recv, key):
        """a slot key of the callee's summary expressed in this function: a parameter key becomes the argument
        passed for it (or the callee's default)"""
        if key is None or not key.startswith("param:"):
            return key
        pname = key[6:]
        params = list(callee.params)
        if (recv == "new") or ((callee.self_name or callee.is_classmethod) and recv is not None):
            params = params[1:]
        node = None
        for i, a in enumerate(c.args):
            if i < len(params) and params[i] == pname and not isinstance(a, ast.Starred):
                node = a
        for k in c.keywords:
            if k.arg == pname:
                node = k.value
        if node is None:
            a = callee.node.args
            pos = a.posonlyargs + a.args
            dflt = dict(zip([x.arg for x in pos[len(pos) - len(a.defaults):]], a.defaults))
            dflt.update({x.arg: d for x, d in zip(a.kwonlyargs, a.kw_defaults) if d is not None})
            node = dflt.get(pname)
        if node is None:
            return "?:" + pname
        if isinstance(node, ast.Constant):
            return "const:%r" % (node.value,)
        if isinstance(node, ast.Name):
            return self.key_norm(node.id)
        return "?:" + pf.src(node)

    def bind_args(self, callee, c, argv, kwv, recv, recv_roots):
        bind = {}
        params = list(callee.params)
        if recv == "new":
            params = params[1:]
            bind["self"] = frozenset()
        elif callee.self_name or callee.is_classmethod:
            if recv is not None:
                params = params[1:]
                bind["self"] = recv_roots if callee.self_name else frozenset()
                if callee.self_name:
                    bind[callee.self_name] = bind["self"]
            # ClassName.method(self_obj, ...) : explicit self stays positional
        i = 0
        for a, v in zip(c.args, argv):
            if isinstance(a, ast.Starred):
                for p in params[i:]:
                    bind[p] = bind.get(p, frozenset()) | v
                if callee.vararg:
                    bind[callee.vararg] = bind.get(callee.vararg, frozenset()) | v
                i = len(params)
                continue
            if i < len(params):
                bind[params[i]] = bind.get(params[i], frozenset()) | v
            elif callee.vararg:
                bind[callee.vararg] = bind.get(callee.vararg, frozenset()) | v
            i += 1
        for k, v in kwv.items():
            if k is None:
                for p in callee.all_params:
                    bind[p] = bind.get(p, frozenset()) | v
            elif k in callee.all_params:
                bind[k] = bind.get(k, frozenset()) | v
            elif callee.kwarg:
                bind[callee.kwarg] = bind.get(callee.kwarg, frozenset()) | v
        return bind

    # .. statements ..
    def bind(self, target, v, env, stmt, value_node):
        if isinstance(target, ast.Name):
            env[target.id] = v
        elif isinstance(target, (ast.Tuple, ast.List)):
            elts = target.elts
            if not isinstance(stmt, (ast.For, ast.AsyncFor)) and isinstance(value_node, (ast.Tuple, ast.List)) \
                    and len(value_node.elts) == len(elts) and not any(isinstance(x, ast.Starred) for x in list(elts) + list(value_node.elts)):
                vals = [self.ev(x, env, stmt) for x in value_node.elts]
                for t, vv in zip(elts, vals):
                    self.bind(t, vv, env, stmt, None)
            elif isinstance(stmt, (ast.For, ast.AsyncFor, ast.comprehension)) and isinstance(value_node, ast.Call) \
                    and isinstance(value_node.func, ast.Name) and value_node.func.id == "zip" \
                    and len(value_node.args) == len(elts) and not value_node.keywords:
                for t, a in zip(elts, value_node.args):
                    self.bind(t, self.ev(a, env, stmt), env, stmt, None)
            elif isinstance(stmt, (ast.For, ast.AsyncFor, ast.comprehension)) and isinstance(value_node, ast.Call) \
                    and isinstance(value_node.func, ast.Name) and value_node.func.id == "enumerate" \
                    and len(elts) == 2 and value_node.args:
                self.bind(elts[0], frozenset(), env, stmt, None)
                self.bind(elts[1], self.ev(value_node.args[0], env, stmt), env, stmt, None)
            else:
                pos = self._ret_positions(value_node, env, stmt, len(elts), isinstance(stmt, (ast.For, ast.AsyncFor)))
                for k, t in enumerate(elts):
                    self.bind(t, pos[k] if pos is not None else v, env, stmt, None)
        elif isinstance(target, ast.Starred):
            self.bind(target.value, v, env, stmt, None)
        elif isinstance(target, ast.Subscript):
            base = self.ev(target.value, env, stmt)
            two = self._two_level(target.value, env)
            if two is not None:
                base = frozenset([two])
            self.ev(target.slice, env, stmt)
            state_slot = _simple_index(target.slice) and base and all(r.startswith("self.") for r in base)
            if state_slot:
                # self.A[key] = v / self.A[key][name] = v: a slot of per-object state is rebound to v
                key = _key_text(target.slice)
                self.cache_store(base, key, v, stmt, vnode=value_node)
            else:
                self.write(base, stmt, ("store",))
            b = target.value
            while isinstance(b, (ast.Subscript, ast.Attribute)):
                b = b.value
            if isinstance(b, ast.Name) and v and b.id in self.f.local_containers:
                env[b.id] = self.lookup(b.id, env) | v  # a python list/dict now also reaches v
        elif isinstance(target, ast.Attribute):
            if self.is_self(target.value):
                env["self." + target.attr] = v
            else:
                self.ev(target.value, env, stmt)

    def _ret_positions(self, value_node, env, stmt, n, iterating=False):
        """per-position roots when unpacking a call whose callees all return (or, when iterating over a
        generator, yield) n-tuples"""
        if not isinstance(value_node, ast.Call):
            return None
        callees = self.P.resolve(value_node, self.f)
        if not callees or any(cal.ret_pos is None or len(cal.ret_pos) != n or cal.is_generator != iterating
                              for cal, _, _ in callees):
            return None
        argv = [self.ev(a, env, stmt) for a in value_node.args]
        kwv = {k.arg: self.ev(k.value, env, stmt) for k in value_node.keywords}
        recv_roots = frozenset()
        if isinstance(value_node.func, ast.Attribute):
            recv_roots = self.ev(value_node.func.value, env, stmt)
        out = [frozenset() for _ in range(n)]
        for callee, strong, recv in callees:
            bind = self.bind_args(callee, value_node, argv, kwv, recv, recv_roots)
            for k in range(n):
                for r in callee.ret_pos[k]:
                    out[k] |= self.map_root(r, bind, recv, recv_roots, env)
        return out

    def transfer(self, node, env):
        st = node.ast
        f = self.f
        if node.kind in ("entry", "exit", "raise") or st is None:
            return env
        env = dict(env)
        if node.kind == "test":
            self.ev(st.test, env, st)
        elif node.kind == "iter":
            v = self.ev(st.iter, env, st)
            self.bind(st.target, v, env, st, st.iter)
        elif node.kind == "with":
            for it in st.items:
                v = self.ev(it.context_expr, env, st)
                if it.optional_vars is not None:
                    self.bind(it.optional_vars, v, env, st, None)
        elif node.kind == "handler":
            if st.name:
                env[st.name] = frozenset()
        elif isinstance(st, ast.Assign):
            v = self.ev(st.value, env, st)
            for t in st.targets:
                self.bind(t, v, env, st, st.value)
        elif isinstance(st, ast.AnnAssign):
            if st.value is not None:
                v = self.ev(st.value, env, st)
                self.bind(st.target, v, env, st, st.value)
        elif isinstance(st, ast.AugAssign):
            self.ev(st.value, env, st)
            t = st.target
            if isinstance(t, ast.Name):
                roots = self.lookup(t.id, env)
                if roots and t.id not in f.local_containers:  # `lst += [...]` extends the local python list
                    self.write(roots, st, ("store",), augname=True)
            elif isinstance(t, ast.Subscript):
                self.ev(t.slice, env, st)
                self.write(self.ev(t.value, env, st), st, ("store",))
            elif isinstance(t, ast.Attribute) and self.is_self(t.value):
                # self.attr op= x : in place when the attribute holds an array
                roots = self.ev(t, env, st)
                self.write(frozenset(r for r in roots if not is_state(r)), st, ("store",))
                self.write(frozenset(r for r in roots if is_state(r)), st, ("store",))
            else:
                self.ev(t.value, env, st)
        elif isinstance(st, ast.Return):
            if st.value is not None:
                v = self.ev(st.value, env, st)
                if not f.is_generator:
                    self.new_ret |= v
                    if self.new_pos is not None and isinstance(st.value, ast.Tuple):
                        for k, x in enumerate(st.value.elts):
                            self.new_pos[k] |= self.ev(x, env, st)
        elif isinstance(st, ast.Expr):
            self.ev(st.value, env, st)
        elif isinstance(st, (ast.Assert,)):
            self.ev(st.test, env, st)
        elif isinstance(st, ast.Raise):
            self.ev(st.exc, env, st)
        elif isinstance(st, ast.Delete):
            for t in st.targets:
                if isinstance(t, ast.Name):
                    env[t.id] = frozenset()
        elif isinstance(st, (ast.FunctionDef, ast.AsyncFunctionDef, ast.ClassDef)):
            pass
        return env

    def run(self):
        f = self.f
        self.new_writes = {}
        self.new_state = {}
        self.new_captures = {}
        self.new_events = set()
        self.new_keyed = set()
        self.new_slots = {}
        self.new_restores = set()
        self.new_ret = set()
        self.new_pos = [set() for _ in range(f.ret_shape)] if f.ret_shape else None
        g = cfgm.CFG(f.node)
        ins = {g.entry.id: self.init_env()}
        outs = {}
        work = [g.entry.id]
        guard = 0
        while work:
            guard += 1
            if guard > 50000:
                raise AnalysisError("alias dataflow did not converge in %s" % f.qual)
            u = work.pop()
            env_in = ins.get(u)
            if env_in is None:
                continue
            env_out = self.transfer(g.nodes[u], env_in)
            if outs.get(u) == env_out:
                continue
            outs[u] = env_out
            for v in g.succ[u]:
                new = self.join(ins.get(v), env_out)
                if new != ins.get(v):
                    ins[v] = new
                    work.append(v)
                elif v not in outs:
                    work.append(v)
        changed = False
        if self.new_writes != f.writes:
            f.writes = self.new_writes
            changed = True
        if self.new_state != f.state:
            f.state = self.new_state
            changed = True
        if self.new_captures != f.captures:
            f.captures = self.new_captures
            changed = True
        f.cache_events = self.new_events
        f.keyed_stores = self.new_keyed
        if self.new_slots != f.slot_stores or self.new_restores != f.slot_restores:
            f.slot_stores, f.slot_restores = self.new_slots, self.new_restores
            changed = True
        exit_env = ins.get(g.exit.id) or {}
        attr_out = {k: frozenset(r for r in v if not is_state(r)) for k, v in exit_env.items()
                    if k.startswith("self.") and any(not is_state(r) for r in v)}
        if attr_out != f.attr_out:
            f.attr_out = attr_out
            changed = True
        nr = frozenset(self.new_ret)
        if nr != f.ret:
            f.ret = nr
            changed = True
        if self.new_pos is not None:
            npos = [frozenset(x) for x in self.new_pos]
            if npos != f.ret_pos:
                f.ret_pos = npos
                changed = True
        return changed
