from ref import *
import ref
np.random.seed(0)
mol = gto.M(atom="H 0 0 0; F 0 0 0.9", basis="def2-svp", spin=0, verbose=0)
ks = dft.RKS(mol); ks.xc='PBE'; ks.grids.level=1; ks.kernel()
dm = ks.make_rdm1()
# evaluation coords: random points near molecule
coords = np.random.normal(size=(40,3))*0.8 + np.array([0,0,0.85])
ana = RHFAnalyzer(mol, dm)
ana.grids = ref._Grids(mol, coords)

def run(settings, **kw):
    pred = get_descriptors(ana, settings, **kw)[0]
    refv = reference(mol, dm, settings, coords)
    err = np.abs(pred - refv).max(axis=1)
    scale = np.abs(refv).max(axis=1)
    return err/scale, scale

import sys
level = sys.argv[1] if len(sys.argv)>1 else 'MGGA'
rm = sys.argv[2] if len(sys.argv)>2 else 'one'
plan = sys.argv[3] if len(sys.argv)>3 else 'gaussian'
if level=='MGGA':
    th=[1.0,0.0,0.03125]; fp=[[2.0,0.0,0.04],[1.0,0.01,0.03],[0.5,0.0,0.02],[2.0,0.0,0.04,2.0]]
    kp=[[1.0,0.0,0.02],[2.0,0.01,0.04],[4.0,0.0,0.08]]
else:
    th=[1.0,0.03125]; fp=[[2.0,0.04],[1.0,0.03],[0.5,0.02],[2.0,0.04,2.0]]
    kp=[[1.0,0.02],[2.0,0.04],[4.0,0.08]]
l0 = ["se","se_r2","se_apr2","se_ap","se_ap2r2","se_lapl"]
l1 = ["se_grad","se_rvec"]
dots=[(-1,0),(-1,1),(0,1),(0,0),(1,1)]
vj = NLDFSettingsVJ(level, th, rm, ["se","se_ar2","se_a2r4","se_erf_rinv"], fp)
vi = NLDFSettingsVI(level, th, rm, l0, l1, dots)
vij = NLDFSettingsVIJ(level, th, rm, l0, l1, dots, ["se","se_ar2","se_a2r4","se_erf_rinv"], fp)
vk = NLDFSettingsVK(level, th, rm, kp, "exponential")
for name,s in [('j',vj),('i',vi),('ij',vij),('k',vk)]:
    e, sc = run(s, plan_type=plan)
    print(name, ' '.join('%.1e'%x for x in e))
