import os, sys
sys.path.insert(0, os.path.dirname(os.path.abspath(__file__)))
import cider_boot  # noqa
import numpy as np
from pyscf import gto, dft
from ciderpress.dft.settings import (
    FeatureSettings, SemilocalSettings, NLDFSettingsVI, NLDFSettingsVJ,
    NLDFSettingsVIJ, NLDFSettingsVK, SDMXSettings, SDMXGSettings, SDMX1Settings,
    SDMXG1Settings, SDMXFullSettings,
)
from ciderpress.dft.xc_evaluator import MappedXC
from ciderpress.pyscf.dft import make_cider_calc


class ToyKernel:
    """Smooth analytic 'kernel': e = sum_s n_s^{4/3}-like * g(features)."""

    def __init__(self, nfeat, seed=0, mode="SEP"):
        rng = np.random.RandomState(seed)
        self.c = rng.uniform(0.2, 1.0, nfeat)
        self.sc = rng.uniform(0.3, 1.5, nfeat)
        self.mode = mode

    def __call__(self, X0T, rhocut=0):
        nspin, nfeat, n = X0T.shape
        res = np.zeros(n)
        dres = np.zeros_like(X0T)
        for s in range(nspin):
            x = X0T[s]
            r = np.maximum(x[0], 1e-12)
            pref = -0.7 * r ** (4.0 / 3) / nspin
            dpref = -0.7 * 4.0 / 3 * r ** (1.0 / 3) / nspin
            g = np.ones(n)
            dg = np.zeros((nfeat, n))
            for i in range(1, nfeat):
                t = np.tanh(self.sc[i] * x[i])
                g += self.c[i] * t
                dg[i] = self.c[i] * self.sc[i] * (1 - t * t)
            res += pref * g
            dres[s] = pref * dg
            dres[s, 0] += dpref * g
        return res, dres


def get_mol(kind="h2o", spin=0, basis="6-31g"):
    if kind == "h2o":
        atom = "O 0 0 0.05; H 0.1 -0.757 0.587; H 0 0.757 0.6"
        charge = 1 if spin == 1 else 0
    elif kind == "nh2":
        atom = "N 0 0 0; H 0.1 0.9 0.3; H 0.8 -0.5 0.2"
        charge = 0
        if spin == 0:
            charge = 1
    return gto.M(atom=atom, basis=basis, spin=spin, charge=charge, verbose=0)


def make_ks(mol, settings, unrestricted=False, kernels=None, level=0, df=False, **kw):
    if kernels is None:
        kernels = [ToyKernel(settings.nfeat)]
    mlxc = MappedXC(kernels, settings)
    ks = dft.UKS(mol) if unrestricted else dft.RKS(mol)
    ks.xc = "PBE"
    if df:
        ks = ks.density_fit()
    ks.grids.level = level
    ks = make_cider_calc(ks, mlxc, **kw)
    ks.grids.level = level
    ks.build()
    return ks


def rand_dm(mol, unrestricted, seed=1, noise=0.15):
    """A non-converged, positive semidefinite DM: occupied orbitals are
    eigenvectors of a randomly perturbed core Hamiltonian."""
    import scipy.linalg
    rng = np.random.RandomState(seed)
    s1e = mol.intor("int1e_ovlp")
    h = mol.intor("int1e_kin") + mol.intor("int1e_nuc")
    nao = mol.nao
    def one(nocc, occ):
        p = rng.normal(size=(nao, nao)) * noise
        e, c = scipy.linalg.eigh(h + p + p.T, s1e)
        return occ * c[:, :nocc].dot(c[:, :nocc].T)
    na, nb = mol.nelec
    if unrestricted:
        return np.stack([one(na, 1.0), one(nb, 1.0)])
    else:
        assert na == nb
        return one(na, 2.0)


def fd_check(ks, dm, seed=2, h=1e-4, verbose=True):
    mol = ks.mol
    ni = ks._numint
    if ks.grids.coords is None:
        ks.grids.build(with_non0tab=True)
    unres = dm.ndim == 3
    rng = np.random.RandomState(seed)
    d = rng.normal(size=dm.shape)
    d = d + d.swapaxes(-1, -2)
    d *= 0.05
    f = ni.nr_uks if unres else ni.nr_rks
    n, e, v = f(mol, ks.grids, ks.xc, dm)
    ep = f(mol, ks.grids, ks.xc, dm + h * d)[1]
    em = f(mol, ks.grids, ks.xc, dm - h * d)[1]
    fd = (ep - em) / (2 * h)
    an = np.sum(v * d)
    out = dict(e=e, fd=fd, an=an, err=abs(fd - an), nelec=n, v=v)
    if unres:
        for s in range(2):
            ds = np.zeros_like(d)
            ds[s] = d[s]
            ep = f(mol, ks.grids, ks.xc, dm + h * ds)[1]
            em = f(mol, ks.grids, ks.xc, dm - h * ds)[1]
            out["fd%d" % s] = (ep - em) / (2 * h)
            out["an%d" % s] = np.sum(v[s] * d[s])
    if verbose:
        print({k: v for k, v in out.items() if k not in ("v",)})
    return out


def rand_orbs(mol, unrestricted, seed=1, noise=0.15):
    import scipy.linalg
    rng = np.random.RandomState(seed)
    s1e = mol.intor("int1e_ovlp")
    h = mol.intor("int1e_kin") + mol.intor("int1e_nuc")
    nao = mol.nao
    def one(nocc):
        p = rng.normal(size=(nao, nao)) * noise
        e, c = scipy.linalg.eigh(h + p + p.T, s1e)
        return c[:, :nocc]
    na, nb = mol.nelec
    if unrestricted:
        return [one(na), one(nb)]
    return [one(na)]


def fd_check_orb(ks, orbs, seed=2, h=1e-4, scale=0.05):
    """PSD-preserving FD check: P(lam) = occ * (C + lam X)(C + lam X)^T"""
    mol = ks.mol
    ni = ks._numint
    if ks.grids.coords is None:
        ks.grids.build(with_non0tab=True)
    unres = len(orbs) == 2
    occ = 1.0 if unres else 2.0
    rng = np.random.RandomState(seed)
    Xs = [scale * rng.normal(size=c.shape) for c in orbs]
    def dm_of(lam):
        ps = [occ * (c + lam * x).dot((c + lam * x).T) for c, x in zip(orbs, Xs)]
        return np.stack(ps) if unres else ps[0]
    f = ni.nr_uks if unres else ni.nr_rks
    n, e, v = f(mol, ks.grids, ks.xc, dm_of(0.0))
    ep = f(mol, ks.grids, ks.xc, dm_of(h))[1]
    em = f(mol, ks.grids, ks.xc, dm_of(-h))[1]
    fd = (ep - em) / (2 * h)
    dps = [occ * (x.dot(c.T) + c.dot(x.T)) for c, x in zip(orbs, Xs)]
    dp = np.stack(dps) if unres else dps[0]
    an = np.sum(v * dp)
    return dict(e=e, fd=fd, an=an, err=abs(fd - an), v=v, nelec=n)
