"""
C02 / fast SDMX path: at a grid point that coincides with a nucleus the fast
generator (ciderpress.pyscf.sdmx.EXXSphGenerator) returns NaN for every SDMX
feature, while the reference-grade generator (ciderpress.pyscf.sdmx_slow) and
an independent evaluation of the documented integrals give finite, correct values.

Cause: SDMXylm_loop (fast_sdmx.c) normalises the direction vector r - R_A by its
length without guarding |r - R_A| == 0, although the quantity it needs,
the solid harmonic |r-R_A|^l Y_lm, is perfectly regular there.
"""
import os
import sys

sys.path.insert(0, os.path.dirname(os.path.abspath(__file__)))
import shim  # noqa

import numpy as np
from pyscf import dft, gto
from pyscf.gto.eval_gto import eval_gto
from pyscf.gto.mole import ANG_OF, NCTR_OF, NPRIM_OF, PTR_COEFF, PTR_EXP

from ciderpress.dft.settings import SDMXG1Settings
from ciderpress.pyscf import sdmx as sdmx_fast
from ciderpress.pyscf import sdmx_slow

C = (2 / np.pi) ** 1.5 * 4 / (4 - np.sqrt(2))


def conv_ao(mol, a, coords):
    """AOs convolved analytically with exp(-a u^2), values and gradients"""
    env = mol._env.copy()
    done = set()
    for b in mol._bas:
        l, npr, nc, pe, pc = b[ANG_OF], b[NPRIM_OF], b[NCTR_OF], b[PTR_EXP], b[PTR_COEFF]
        if (pe, pc) in done:
            continue
        done.add((pe, pc))
        g = mol._env[pe : pe + npr]
        fac = (np.pi / (a + g)) ** 1.5 * (a / (a + g)) ** l
        env[pe : pe + npr] = a * g / (a + g)
        for ic in range(nc):
            sl = slice(pc + ic * npr, pc + (ic + 1) * npr)
            env[sl] = mol._env[sl] * fac
    m = mol.copy()
    m._env = env
    return eval_gto(m, "GTOval_sph_deriv1", coords)


def doc_features(mol, dm, coords, pows):
    """H_j^0, H_j^0d, H_j^1 of docs/features/sdmx.rst (times -1/4), by quadrature in R"""
    ao = eval_gto(mol, "GTOval_sph", coords)
    c = ao.dot(dm)
    t = np.linspace(np.log(1e-3), np.log(3e2), 1200)
    R = np.exp(t)
    rho0 = np.zeros((t.size, len(coords)))
    rho1 = np.zeros((t.size, 3, len(coords)))
    for i, r in enumerate(R):
        v = (conv_ao(mol, 2 / r**2, coords) - conv_ao(mol, 4 / r**2, coords)) * C / r**3
        rho0[i] = np.einsum("gm,gm->g", v[0], c)
        rho1[i] = np.einsum("xgm,gm->xg", v[1:4], c)
    d0 = np.gradient(rho0, t, axis=0) / R[:, None]

    def integ(f):
        return np.trapezoid(f * R[:, None], t, axis=0)

    out = []
    for j in pows:
        out.append(-np.pi * integ(R[:, None] ** (2 - j) * rho0**2))
    for j in pows:
        out.append(-np.pi * integ(R[:, None] ** (4 - j) * d0**2))
    for j in pows:
        out.append(-np.pi * integ(R[:, None] ** (4 - j) * (rho1**2).sum(axis=1)))
    return np.array(out)


def main():
    mol = gto.M(atom="Li 0 0 0; F 0 0 1.6; H 1.0 0.5 0", basis="cc-pvdz", charge=1, verbose=0)
    ks = dft.RKS(mol)
    ks.xc = "PBE"
    ks.grids.level = 1
    ks.kernel()
    dm = ks.make_rdm1()
    # three nuclear positions + two ordinary points
    coords = np.vstack([mol.atom_coords(), [[0.3, 0.2, 1.0], [0.0, 0.0, 1e-6]]])
    pows = [0, 1, 2]
    settings = SDMXG1Settings(pows, 3, 3)
    ref = doc_features(mol, dm, coords, pows)
    fast = sdmx_fast.EXXSphGenerator.from_settings_and_mol(settings, 1, mol, lambd=1.7)
    slow = sdmx_slow.EXXSphGenerator.from_settings_and_mol(settings, 1, mol, lambd=1.7)
    f_fast = fast.get_features(dm, mol, coords)
    f_slow = slow.get_features(dm, mol, coords)
    np.set_printoptions(precision=5, linewidth=150)
    print("grid points: Li nucleus, F nucleus, H nucleus, generic point, 1e-6 from Li")
    print("documented integrals (quadrature), feature H_1^0 :", ref[1])
    print("slow generator                   , feature H_1^0 :", f_slow[1])
    print("fast generator                   , feature H_1^0 :", f_fast[1])
    scale = np.abs(ref).max(axis=1)[:, None]
    d_slow = np.abs(f_slow - ref) / scale
    d_fast = np.abs(f_fast - ref) / scale
    print("max rel. deviation slow vs documented definition:", d_slow.max())
    print("number of NaN features  fast: %d   slow: %d" % (np.isnan(f_fast).sum(), np.isnan(f_slow).sum()))
    ok = (not np.isnan(f_fast).any()) and np.nanmax(d_fast) < 3e-2 and np.allclose(f_fast, f_slow, rtol=1e-6, atol=1e-9)
    if not ok:
        print("FAIL: expected fast == slow == quadrature at every point; "
              "observed NaN from the fast path at the nuclear positions")
        sys.exit(1)
    print("max rel. deviation fast vs documented definition:", d_fast.max())
    print("OK")


if __name__ == "__main__":
    main()
