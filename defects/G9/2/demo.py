"""
C11: spline mapping of (subset RBF) x (additive rational-quadratic) and
(subset RBF) x (additive linear-times-RBF) product kernels.

get_mapped_gp_evaluator_additive explicitly admits these products
(assert isinstance(arbf, (SubsetARBF, SubsetAddRQ, SubsetAddLLRBF))) but then
hits `assert srbf is None` in the branch that builds the 1D factors.
Expected: a SplineSetEvaluator that reproduces f(x) = sum_a k(x, x_a) alpha_a
on the bounded feature domain with an error that decreases with the density.
"""
import contextlib
import io
import sys

import numpy as np

import cider_stub

cider_stub.install()

from ciderpress.dft.xc_evaluator import KernelEvaluator, SplineSetEvaluator  # noqa: E402
from ciderpress.models.kernel_plans.map_tools import (  # noqa: E402
    get_mapped_gp_evaluator_additive,
)
from ciderpress.models.kernels import (  # noqa: E402
    SubsetAddLLRBF,
    SubsetAddRQ,
    SubsetARBF,
    SubsetRBF,
)


class Feat:
    def __init__(self, bounds):
        self.bounds = bounds


rng = np.random.default_rng(1)
nctrl, nfeat = 12, 4
bounds = [(0, 1), (-1, 1), (0, 2), (-0.5, 0.5)]
feature_list = [Feat(b) for b in bounds]
lo = np.array([b[0] for b in bounds])
hi = np.array([b[1] for b in bounds])
Xctrl = lo + (hi - lo) * rng.random((nctrl, nfeat))
alpha = rng.normal(size=nctrl)
X = lo + (hi - lo) * rng.random((50, nfeat))
ls = np.array([0.4, 0.5, 0.6, 0.3])
scale = [0.3, 1.0, 0.7]

srbf = lambda: SubsetRBF([0], length_scale=ls[[0]])  # noqa: E731
cases = {
    "SubsetRBF x SubsetARBF (control)": srbf()
    * SubsetARBF([1, 2, 3], order=2, length_scale=ls[1:], scale=scale),
    "SubsetRBF x SubsetAddRQ": srbf()
    * SubsetAddRQ([1, 2, 3], order=2, alpha=1.5, length_scale=ls[1:], scale=scale),
    "SubsetRBF x SubsetAddLLRBF": srbf()
    * SubsetAddLLRBF([1, 2, 3], order=2, alpha=1.5, length_scale=ls[1:], scale=scale),
}
nfail = 0
for name, kernel in cases.items():
    fref, dfref = KernelEvaluator(kernel, Xctrl, alpha)(X)
    errs = []
    try:
        for dens in [4, 8, 16]:
            with contextlib.redirect_stdout(io.StringIO()):
                out = get_mapped_gp_evaluator_additive(
                    kernel,
                    Xctrl,
                    alpha,
                    feature_list,
                    srbf_density=dens,
                    arbf_density=dens,
                    max_ngrid=400,
                )
            f, df = SplineSetEvaluator(*out)(X)
            errs.append(np.abs(f - fref).max() / np.abs(fref).max())
    except Exception as e:
        print("%s\n   expected: mapped evaluator; observed: %s %r" % (name, type(e).__name__, e))
        nfail += 1
        continue
    print("%s\n   relative spline error at density 4, 8, 16: %s" % (name, errs))
    if not (errs[0] > errs[1] > errs[2] and errs[2] < 2e-3):
        nfail += 1
if nfail:
    print("FAIL: %d product kernels could not be mapped" % nfail)
    sys.exit(1)
print("OK")
