"""One-level inlining of statement-level helper calls, so that rules written against one function
body stay decidable (and silent) when part of that body is extracted into `self._helper(...)` or a
same-module function.  Pure AST rewriting on a private clone; nothing is executed.

A call is inlined only when that is semantics-preserving by construction:
  * it is the whole right-hand side of an Assign / AugAssign, a bare expression statement, or a Return;
  * the callee is a same-module function, or `self.<m>` where the method name <m> is defined exactly
    once among the classes of the module (so no override can be the real target), is not a
    property/classmethod, and is not the caller itself;
  * the callee has no *args/**kwargs, the call has no star arguments, every parameter is bound;
  * the callee contains no `return` other than an optional last statement, no yield, no nested scopes
    that capture renamed locals (lambdas/defs are left alone and block inlining of that callee).
Locals of the callee are renamed `<name>__<callee>`; parameters bound to side-effect-free simple
expressions (names, attribute chains, constants) that the callee never re-assigns are substituted.
Inlined statements keep the callee's line numbers.
"""
import ast

from sa import pyfacts as pf


def clone(node):
    """deep copy of an AST that ignores the `_parent` back links"""
    if isinstance(node, ast.AST):
        new = node.__class__()
        for f, v in ast.iter_fields(node):
            setattr(new, f, clone(v))
        for a in node._attributes:
            if hasattr(node, a):
                setattr(new, a, getattr(node, a))
        return new
    if isinstance(node, list):
        return [clone(x) for x in node]
    return node


def link(root, parent=None):
    if parent is not None:
        root._parent = parent
    for node in ast.walk(root):
        for ch in ast.iter_child_nodes(node):
            ch._parent = node
    return root


def _simple(e):
    if isinstance(e, (ast.Name, ast.Constant)):
        return True
    if isinstance(e, ast.Attribute):
        return _simple(e.value)
    return False


def _locals_of(fn):
    out = {a.arg for a in fn.args.args + fn.args.kwonlyargs + fn.args.posonlyargs}
    for n in pf.walk_no_nested(fn):
        if isinstance(n, ast.Name) and isinstance(n.ctx, (ast.Store, ast.Del)):
            out.add(n.id)
        elif isinstance(n, (ast.Global, ast.Nonlocal)):
            return None
    return out


def _inlinable(fn):
    if fn.args.vararg or fn.args.kwarg or fn.args.posonlyargs:
        return False
    for d in fn.decorator_list:
        if pf.src(d) not in ("staticmethod",):
            return False
    body = fn.body
    for n in ast.walk(fn):
        if isinstance(n, (ast.Yield, ast.YieldFrom, ast.Await)):
            return False
        if n is not fn and isinstance(n, (ast.FunctionDef, ast.AsyncFunctionDef, ast.ClassDef, ast.Lambda)):
            return False
    rets = [n for n in pf.walk_no_nested(fn) if isinstance(n, ast.Return)]
    if len(rets) > 1 or (rets and rets[0] is not body[-1]):
        return False
    if _locals_of(fn) is None:
        return False
    return True


class _Renamer(ast.NodeTransformer):
    def __init__(self, rename, subst):
        self.rename, self.subst = rename, subst

    def visit_Name(self, n):
        if n.id in self.subst and isinstance(n.ctx, ast.Load):
            return ast.copy_location(clone(self.subst[n.id]), n)
        if n.id in self.rename:
            return ast.copy_location(ast.Name(id=self.rename[n.id], ctx=n.ctx), n)
        return n


def _bind(call, fn, is_method):
    params = [a.arg for a in fn.args.args]
    static = any(pf.src(d) == "staticmethod" for d in fn.decorator_list)
    if is_method and not static:
        params = params[1:]
    bound = {}
    if any(isinstance(a, ast.Starred) for a in call.args) or any(k.arg is None for k in call.keywords):
        return None
    if len(call.args) > len(params):
        return None
    for p, a in zip(params, call.args):
        bound[p] = a
    kwonly = [a.arg for a in fn.args.kwonlyargs]
    for k in call.keywords:
        if k.arg not in params and k.arg not in kwonly or k.arg in bound:
            return None
        bound[k.arg] = k.value
    nd = len(fn.args.defaults)
    allp = [a.arg for a in fn.args.args]
    for a, d in zip(allp[len(allp) - nd:], fn.args.defaults):
        bound.setdefault(a, d)
    for a, d in zip(fn.args.kwonlyargs, fn.args.kw_defaults):
        if d is not None:
            bound.setdefault(a.arg, d)
    if any(p not in bound for p in params + kwonly):
        return None
    return bound


def _expand(call, callee, is_method, make_result):
    """statements replacing a statement whose value is `call`; make_result(expr|None) -> stmt|None"""
    bound = _bind(call, callee, is_method)
    if bound is None:
        return None
    tag = callee.name.strip("_")
    locs = _locals_of(callee)
    assigned = {n.id for n in pf.walk_no_nested(callee) if isinstance(n, ast.Name) and isinstance(n.ctx, (ast.Store, ast.Del))}
    rename, subst, pre = {}, {}, []
    for nm in locs:
        if nm == "self" and is_method:
            continue
        rename[nm] = "%s__%s" % (nm, tag)
    for p, a in bound.items():
        if p not in assigned and _simple(a):
            subst[p] = a
            rename.pop(p, None)
        else:
            st = ast.Assign(targets=[ast.Name(id=rename[p], ctx=ast.Store())], value=clone(a), type_comment=None)
            pre.append(ast.copy_location(st, call))
    body = [clone(s) for s in callee.body]
    if body and isinstance(body[0], ast.Expr) and isinstance(body[0].value, ast.Constant) and isinstance(body[0].value.value, str):
        body = body[1:]
    ren = _Renamer(rename, subst)
    body = [ren.visit(s) for s in body]
    out = pre
    ret = None
    if body and isinstance(body[-1], ast.Return):
        ret = body[-1].value
        body = body[:-1]
    out += body
    res = make_result(ret if ret is not None else ast.Constant(value=None))
    if res is not None:
        split = None
        if isinstance(res, ast.Assign) and len(res.targets) == 1 and isinstance(res.targets[0], ast.Tuple) \
                and isinstance(res.value, ast.Tuple) and len(res.value.elts) == len(res.targets[0].elts) \
                and all(isinstance(e, ast.Name) and e.id.endswith("__" + tag) for e in res.value.elts):
            # (a, b) = (a__h, b__h): the right-hand names are private to the inlined body, so the
            # element-wise form is equivalent and keeps each def-use chain visible
            split = [ast.Assign(targets=[t], value=e, type_comment=None) for t, e in zip(res.targets[0].elts, res.value.elts)]
        for r in (split or [res]):
            out.append(ast.copy_location(r, call))
    for s in out:
        ast.fix_missing_locations(s)
    return out


class Resolver:
    """callee lookup inside one module"""

    def __init__(self, mod):
        self.mod = mod
        self.method_defs = {}
        for c in mod.classes.values():
            for name, fn in pf.methods(c).items():
                self.method_defs.setdefault(name, []).append((c, fn))

    def resolve(self, call, caller):
        f = call.func
        if isinstance(f, ast.Name) and f.id in self.mod.functions:
            fn = self.mod.functions[f.id]
            if fn.name != caller.name and _inlinable(fn):
                return fn, False
        if isinstance(f, ast.Attribute) and isinstance(f.value, ast.Name) and f.value.id == "self":
            ds = self.method_defs.get(f.attr, [])
            if len(ds) == 1 and ds[0][1].name != caller.name and not f.attr.startswith("__") and _inlinable(ds[0][1]):
                fn = ds[0][1]
                if not fn.args.args and not any(pf.src(d) == "staticmethod" for d in fn.decorator_list):
                    return None
                return fn, True
        return None


def inline_function(fn, resolver, originals=None, skip=()):
    """new FunctionDef (clone of fn) with eligible statement-level calls expanded once"""
    new = clone(fn)
    n_inl = [0]
    names = []

    def block(stmts):
        out = []
        for st in stmts:
            rep = None
            call, mk = None, None
            if isinstance(st, ast.Expr) and isinstance(st.value, ast.Call):
                call, mk = st.value, (lambda e: None)
            elif isinstance(st, ast.Assign) and isinstance(st.value, ast.Call):
                call, mk = st.value, (lambda e, st=st: ast.Assign(targets=st.targets, value=e, type_comment=None))
            elif isinstance(st, ast.AugAssign) and isinstance(st.value, ast.Call):
                call, mk = st.value, (lambda e, st=st: ast.AugAssign(target=st.target, op=st.op, value=e))
            elif isinstance(st, ast.Return) and isinstance(st.value, ast.Call):
                call, mk = st.value, (lambda e: ast.Return(value=e))
            if call is not None:
                r = resolver.resolve(call, fn)
                if r is not None and r[0].name not in skip:
                    rep = _expand(call, r[0], r[1], mk)
            if rep is not None:
                n_inl[0] += 1
                names.append(r[0].name)
                out.extend(rep)
                continue
            for field in ("body", "orelse", "finalbody"):
                if hasattr(st, field) and isinstance(getattr(st, field), list) and not isinstance(
                        st, (ast.FunctionDef, ast.AsyncFunctionDef, ast.ClassDef)):
                    setattr(st, field, block(getattr(st, field)))
            if isinstance(st, ast.Try):
                for h in st.handlers:
                    h.body = block(h.body)
            out.append(st)
        return out

    new.body = block(new.body)
    new._inlined = n_inl[0]
    new._inlined_names = names
    return new


class InlinedModule(pf.Module):
    """pf.Module whose functions and methods have their helper calls inlined (depth 1).  The original
    module is available as `.orig`."""

    def __init__(self, tree, rel, skip=()):
        orig = pf.Module(tree, rel)
        self.orig = orig
        res = Resolver(orig)
        mod_ast = clone(orig.ast)
        link(mod_ast)
        tmp = _FromAst(mod_ast, rel)
        self.inlined = 0
        taken = {}
        for holder in [mod_ast] + [c for c in tmp.classes.values()]:
            for i, st in enumerate(holder.body):
                if isinstance(st, (ast.FunctionDef, ast.AsyncFunctionDef)):
                    ofn = orig.functions.get(st.name) if holder is mod_ast else pf.methods(orig.classes[holder.name]).get(st.name)
                    if ofn is None:
                        continue
                    nf = inline_function(ofn, res, skip=skip)
                    self.inlined += nf._inlined
                    for nm in nf._inlined_names:
                        taken[nm] = taken.get(nm, 0) + 1
                    holder.body[i] = nf
        # private helpers whose every call site in the module was inlined: their bodies are now analysed in the
        # context of their callers and need no stand-alone analysis ("absorbed")
        sites = {}
        for n in ast.walk(orig.ast):
            if isinstance(n, ast.Call):
                f = n.func
                nm = f.id if isinstance(f, ast.Name) else (f.attr if isinstance(f, ast.Attribute) else None)
                if nm:
                    sites[nm] = sites.get(nm, 0) + 1
            elif isinstance(n, ast.Attribute) and not (isinstance(getattr(n, "_parent", None), ast.Call)
                                                      and n._parent.func is n):
                sites[n.attr] = sites.get(n.attr, 0) + 1000  # referenced as a value: may be called elsewhere
        self.absorbed = {nm for nm, k in taken.items() if nm.startswith("_") and sites.get(nm, 0) == k}
        link(mod_ast)
        mod_ast._rel = rel
        self.rel = rel
        self.ast = mod_ast
        self.functions, self.classes, self.assigns, self.imports = {}, {}, {}, {}
        for st in self.ast.body:
            self._top(st)


class _FromAst(pf.Module):
    def __init__(self, mod_ast, rel):
        self.rel, self.ast = rel, mod_ast
        self.functions, self.classes, self.assigns, self.imports = {}, {}, {}, {}
        for st in self.ast.body:
            self._top(st)


def inlined_program(tree, rels, skip=()):
    """pf.Program over InlinedModule objects"""
    prog = pf.Program(tree, [])
    for rel in rels:
        if tree.exists(rel):
            prog.modules[rel] = InlinedModule(tree, rel, skip=skip)
    for rel in prog.modules:
        name = rel[:-3].replace("/", ".")
        if name.endswith(".__init__"):
            name = name[: -len(".__init__")]
        prog._modname[name] = rel
    return prog


# ----------------------------------------------------------------------------
# equivalent idioms
# ----------------------------------------------------------------------------
_NEG = {ast.Eq: ast.NotEq, ast.NotEq: ast.Eq, ast.Lt: ast.GtE, ast.GtE: ast.Lt, ast.Gt: ast.LtE, ast.LtE: ast.Gt,
        ast.Is: ast.IsNot, ast.IsNot: ast.Is, ast.In: ast.NotIn, ast.NotIn: ast.In}


def negate(test):
    """AST of `not test`, simplified for not/compare"""
    if isinstance(test, ast.UnaryOp) and isinstance(test.op, ast.Not):
        return test.operand
    if isinstance(test, ast.Compare) and len(test.ops) == 1 and type(test.ops[0]) in _NEG:
        return ast.copy_location(ast.Compare(left=test.left, ops=[_NEG[type(test.ops[0])]()],
                                             comparators=test.comparators), test)
    return ast.copy_location(ast.UnaryOp(op=ast.Not(), operand=test), test)


def asserted_conditions(fn):
    """conditions a function asserts: `assert c[, msg]`, `if not c: raise ...`, `if c': raise ...` (-> not c'),
    conjunctions split; returns [(condition ast, statement)]"""
    out = []

    def add(c, st):
        if isinstance(c, ast.BoolOp) and isinstance(c.op, ast.And):
            for v in c.values:
                add(v, st)
        else:
            out.append((c, st))
    for st in pf.walk_no_nested(fn):
        if isinstance(st, ast.Assert):
            add(st.test, st)
        elif isinstance(st, ast.If) and not st.orelse and st.body and isinstance(st.body[-1], ast.Raise):
            t = st.test
            if isinstance(t, ast.BoolOp) and isinstance(t.op, ast.Or):
                for v in t.values:
                    add(negate(v), st)
            else:
                add(negate(t), st)
    return out
