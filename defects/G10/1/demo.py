"""
C15: DiffAntisymRBF cannot be evaluated with an isotropic (scalar or length-1)
length scale, e.g. the two-feature kernel built by
kernel_plans.kernel_tools.get_antisym_rbf_kernel.

Expected: the isotropic kernel equals the anisotropic kernel whose length
scales are all equal (value, diag, input derivative), and the two-feature
kernel equals the closed form
  k(x, y) = g(x0-y0) - g(x0-y1) - g(x1-y0) + g(x1-y1),  g(d) = exp(-d^2/(2 l^2)).
"""
import sys
import traceback

import numpy as np

from ciderpress.models.kernels import DiffAntisymRBF
from ciderpress.models.kernel_plans.kernel_tools import get_antisym_rbf_kernel

rng = np.random.default_rng(7)
nfail = 0


def report(label, ok, detail=""):
    global nfail
    print("%-66s %s %s" % (label, "ok" if ok else "FAIL", detail))
    if not ok:
        nfail += 1


def attempt(label, fn):
    try:
        return fn()
    except Exception as e:  # the defect shows up as an exception
        report(label, False, "raised " + repr(e))
        traceback.print_exc(limit=2, file=sys.stdout)
        return None


# ---- A: scalar length scale, 4 features --------------------------------
X = rng.uniform(0, 1, (6, 4))
Y = rng.uniform(0, 1, (5, 4))
ref = DiffAntisymRBF(length_scale=np.full(3, 0.7))
for name, ls in (("scalar 0.7", 0.7), ("length-1 array [0.7]", np.array([0.7]))):
    iso = DiffAntisymRBF(length_scale=ls)
    k = attempt("A %s: k(X, Y)" % name, lambda: iso(X, Y))
    if k is not None:
        report("A %s: k(X, Y) == anisotropic twin" % name, np.allclose(k, ref(X, Y)))
    d = attempt("A %s: diag(X)" % name, lambda: iso.diag(X))
    if d is not None:
        report("A %s: diag == diag k(X, X)" % name, np.allclose(d, np.diag(ref(X))))
    r = attempt("A %s: k_and_deriv(X, Y)" % name, lambda: iso.k_and_deriv(X, Y))
    if r is not None:
        report(
            "A %s: k_and_deriv == anisotropic twin" % name,
            np.allclose(r[0], ref.k_and_deriv(X, Y)[0])
            and np.allclose(r[1], ref.k_and_deriv(X, Y)[1]),
        )

# ---- B: the two-feature kernel of get_antisym_rbf_kernel ---------------
X = rng.uniform(0, 1, (6, 2))
Y = rng.uniform(0, 1, (5, 2))
ls2 = np.array([0.5, 0.7])
kern = get_antisym_rbf_kernel(ls2, scale=2.0)
ell = 0.5 * (ls2[0] + ls2[1])


def g(a, b):
    return np.exp(-0.5 * (a[:, None] - b[None, :]) ** 2 / ell**2)


def closed(X, Y):
    return 2.0 * (
        g(X[:, 0], Y[:, 0])
        - g(X[:, 0], Y[:, 1])
        - g(X[:, 1], Y[:, 0])
        + g(X[:, 1], Y[:, 1])
    )


k = attempt("B two-feature kernel: k(X, Y)", lambda: kern(X, Y))
if k is not None:
    err = np.abs(k - closed(X, Y)).max()
    report("B k(X, Y) == closed form", err < 1e-12, "max err %.2e" % err)
    kxx = kern(X)
    w = np.linalg.eigvalsh(kxx)
    report("B k(X, X) symmetric PSD", np.allclose(kxx, kxx.T) and w.min() > -1e-10)
    report("B diag(X) == diag k(X, X)", np.allclose(kern.diag(X), np.diag(kxx)))
    kk, dk = kern.k_and_deriv(X, Y)
    fd = np.zeros_like(dk)
    for i in range(2):
        Xp, Xm = X.copy(), X.copy()
        Xp[:, i] += 1e-6
        Xm[:, i] -= 1e-6
        fd[:, :, i] = (closed(Xp, Y) - closed(Xm, Y)) / 2e-6
    err = np.abs(dk - fd).max()
    report("B k_and_deriv gradient == finite difference", err < 1e-6, "max err %.2e" % err)

print("failures:", nfail)
sys.exit(1 if nfail else 0)
