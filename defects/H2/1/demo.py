"""
C02 / LCAOInterpolator.__init__: a version-i NLDF feature set that contains only
vector (l=1) features -- e.g. the se_grad.se_grad feature the documentation
recommends -- cannot be evaluated at all: the spline table of the l-basis
(w0_rsp) is only built when n0 > 0, but conv2spline/spline2conv also need it for
the (l+1) part of every l=1 feature.

Expected: features that agree with direct quadrature of the documented integral
Observed: AssertionError (w_rsp is None) in every interpolator back-end
"""
import os
import sys
import traceback

sys.path.insert(0, os.path.dirname(os.path.abspath(__file__)))
import shim  # noqa  (builds libmcider from the worktree sources, patches load_library)

import numpy as np
from pyscf import dft, gto
from pyscf.dft.gen_grid import Grids
from pyscf.dft.numint import NumInt

from ciderpress.dft.settings import NLDFSettingsVI
from ciderpress.pyscf.descriptors import get_full_rho
from ciderpress.pyscf.gen_cider_grid import CiderGrids
from ciderpress.pyscf.nldf_convolutions import PyscfNLDFGenerator

CFC = 0.3 * (3 * np.pi**2) ** (2.0 / 3)


def doc_exponent(rho_data, params):
    n = np.maximum(rho_data[0], 1e-30)
    sigma = np.einsum("xg,xg->g", rho_data[1:4], rho_data[1:4])
    tau0 = CFC * n ** (5.0 / 3)
    conv = 1.2 * (6 * np.pi**2) ** (2.0 / 3) / np.pi
    res = params[0] + params[1] * conv * sigma / (8 * n * tau0)
    res += params[2] * conv * (rho_data[4] / tau0 - 1)
    return np.pi * (n / 2) ** (2.0 / 3) * res


class _G:
    def __init__(self, mol, coords):
        self.mol, self.coords = mol, coords
        self.non0tab, self.cutoff = None, 0
        self.weights = np.ones(len(coords))


def quadrature(mol, dm, settings, coords):
    """g_spec(r) = int (r'-r) k(a0(r'), |r-r'|) n(r') d^3r' on a fine Becke grid"""
    ni = NumInt()
    g = Grids(mol)
    g.level = 4
    g.prune = None
    g.build()
    rin = get_full_rho(ni, mol, dm, g, "MGGA")[0]
    rout = get_full_rho(ni, mol, dm, _G(mol, coords), "MGGA")[0]
    a = doc_exponent(rin, settings.theta_params)
    f = rin[0] * g.weights
    D = g.coords[None] - coords[:, None]
    K0 = np.exp(-a[None] * np.einsum("oix,oix->oi", D, D))
    vecs = []
    for spec in settings.l1_feat_specs:
        K = K0 * a[None] if spec == "se_grad" else K0
        vecs.append(np.einsum("oi,oix,i->xo", K, D, f))
    vecs.append(rout[1:4])
    return np.array(
        [np.einsum("xo,xo->o", vecs[j], vecs[k]) for j, k in settings.l1_feat_dots]
    )


def main():
    np.random.seed(0)
    mol = gto.M(atom="H 0 0 0; F 0 0 0.9", basis="def2-svp", verbose=0)
    ks = dft.RKS(mol)
    ks.xc = "PBE"
    ks.grids.level = 1
    ks.kernel()
    dm = ks.make_rdm1()
    settings = NLDFSettingsVI(
        "MGGA", [1.0, 0.0, 0.03125], "one", [], ["se_grad", "se_rvec"],
        [(0, 0), (-1, 1), (0, 1)],
    )
    grids = CiderGrids(mol, lmax=10)
    grids.level = 1
    grids.build(with_non0tab=False)
    rho = get_full_rho(NumInt(), mol, dm, grids, "MGGA")[0]
    sel = np.random.choice(np.where(rho[0] > 1e-3)[0], 80, replace=False)
    ref = quadrature(mol, dm, settings, grids.coords[sel])
    nfail = 0
    for itype in ["onsite_direct", "onsite_spline", "train_gen"]:
        try:
            gen = PyscfNLDFGenerator.from_mol_and_settings(
                mol, grids.grids_indexer, 1, settings, interpolator_type=itype
            )
            if itype == "train_gen":
                gen.interpolator.set_coords(grids.coords[sel])
                pred = gen.get_features_and_occ_derivs(
                    rho, np.empty(0), rho[:, sel], np.empty(0)
                )[0]
            else:
                gen.interpolator.set_coords(grids.coords)
                pred = gen.get_features(rho)[:, sel]
        except Exception:
            nfail += 1
            print("[%s] expected: l=1-only version-i features; observed exception:" % itype)
            print("    " + traceback.format_exc().strip().splitlines()[-3].strip())
            print("    " + traceback.format_exc().strip().splitlines()[-1])
            continue
        err = np.abs(pred - ref).max(axis=1) / np.abs(ref).max(axis=1)
        print("[%s] max rel. deviation from quadrature per feature:" % itype, err)
        if not np.all(err < 3e-2):
            nfail += 1
    if nfail:
        print("FAIL: %d of 3 interpolator back-ends cannot produce the features" % nfail)
        sys.exit(1)
    print("OK")


if __name__ == "__main__":
    main()
