#!/usr/bin/env python3
"""C06 -- invariance under rigid motions (decided part: two structural necessary conditions).

Static rules (DESIGN.md §C06, engine sa/tabchain.py):

 l1-order     The map between the l=1 real spherical harmonics (slots 1,2,3 of an (l,m)-ordered array)
              and the Cartesian axes is written down in four places; all must encode the same map.
                source   sph_harm.c recursive_sph_harm[_deriv]: which of r[0], r[1], r[2] each of res[1..3]
                         is proportional to (derived by abstract evaluation, complex parts tracked)
                site 1   grids_indexer.py  `dirs = ylm[:, [sx, sy, sz]]`
                site 2   fast_sdmx.c SDMXylm_yzx2xyz: net permutation of slots 1..3 (data flow, names ignored)
                site 3   sph_harm_coeff.py get_deriv_ylm_coeff: middle index of the Clebsch-Gordan tensor
                         used for the rows of the derivative table, against the axis that the C consumers
                         (fill_l1_coeff_fwd/bwd, SDMXylm_grad) give to each row
 xyz-slots    The three feature slots (ix+0, ix+1, ix+2) that lcao_interpolation.py passes to the
              add_lp1_* functions are paired in C with the Cartesian component of the same number
              (coords[3g+c], dirs[3d+c], tmp[3a+c]); fill_l1_coeff_* write component c to column offset+c.
 sph-twin     recursive_sph_harm and recursive_sph_harm_deriv, executed abstractly with their loops unrolled
              for lmax = 6 (literal bounds, input-independent control flow; products expanded, complex parts
              separated, FAC_LIST read from its initialiser, calloc'ed work arrays read as 0), store identical
              polynomials in r[0..2] and the recursion coefficients for all 49 (l, m)
 sph-harmonic every Y_lm produced by recursive_sph_harm with the coefficient tables of setup_sph_harm_buffer (both executed
              for lmax = 6; square roots of rationals kept exactly over square roots of primes; a double literal that is
              the double nearest to sqrt(k) is read as sqrt(k)) is, after restoring the powers of r^2 that equal 1 on the
              unit sphere, a homogeneous polynomial of degree l whose Laplacian (term-by-term) vanishes.  No reference
              table: a missing recursion term or a wrong coefficient breaks harmonicity.
 (l1-order also: the rows of the derivative table are read at multiples of the row length the caller passes, the
              parameter python binds to <table>.shape[1])
 sph-bounds   both generators executed for the buffers setup_sph_harm_buffer builds for nlm = 1, 4, 9 store only inside
              res[0..nlm) and inside the allocated tables, and fill res completely (a store at a fixed index needs
              a check that the buffer is that large)
 table-extent a file-scope constant table of fixed extent is indexed below its extent: constant loop bound, or a guard
              that rejects larger run-time bounds (clang AST; local scratch arrays sized by convention are not judged)
 unit-vector  `v[k] /= n` with n = sqrt(v[0]^2+v[1]^2+v[2]^2) is dominated by a test on n, in functions that python reaches
              and in which n is in no other denominator (derivative variants are singular at n = 0 by nature)
 setup-invariance  Python set-up code (pyscf/*.py, dft/lcao_*.py, grids_indexer.py): values derived from
              mol.atom_coords()/atom_coord() reach call arguments, returns, stores or branch conditions only
              through differences of positions reduced by norm / dot / sum of squares over the Cartesian axis
              (or cdist/pdist); single components, component-wise reductions over atoms and norms of absolute
              positions are frame dependent (sa/posflow.py).  Whole arrays handed to C / pyscf are not followed.
 key-domain   per-atom tables are filled, tested (`in`) and read with keys from one key function
              (atom_symbol vs atom_pure_symbol); a once-per-key block (`if k not in D:`) reads only tables of
              that key kind; tables returned by gen_atomic_grids_cider are looked up with the producer's key
              function in AtomicGridsIndexer.from_tabs
 key-domain-stale  in a loop over atoms, a variable advanced only inside a once-per-key block (`if key not in D:`:
              running array, running total, per-key temporary) is not read elsewhere in the loop body; a per-atom offset
              must be read back from a table indexed by the key
 array-order  for the SDMX entry points of fast_sdmx.c: a (n,3) coordinate array made C-contiguous in the calling python
              function is indexed 3*i+c in C, one made Fortran-contiguous c*n+i (argument lists built as literals /
              appends and splatted are followed)
 atom-order   in grids_indexer.py / gen_cider_grid.py every loop over atom indices that appends blocks is a top-level
              `for ia in range(natm)`; atom indices regrouped by a key and replayed group by group are reported
 mole-rebuild a pyscf Mole constructed from <mol>.atom (keyword or attribute style) also receives <mol>.unit
 translation  In every function of conv_interpolation.c / fast_sdmx.c that receives both grid coordinates and
              atom coordinates, each read of a coordinate is an operand of a subtraction whose other
              operand is the same Cartesian component of the other kind (or of the same kind), or a pure
              copy that is followed.
"""
import ast
import os
import sys
from fractions import Fraction as Fr

sys.path.insert(0, os.path.dirname(os.path.dirname(os.path.abspath(__file__))))
from sa import core, cfacts, pyfacts as pf, tabchain as tc  # noqa: E402
from sa.tabchain import Poly  # noqa: E402
from sa.selftest import Mutant  # noqa: E402

PROP = "C06"
GI = "ciderpress/dft/grids_indexer.py"
LI = "ciderpress/dft/lcao_interpolation.py"
SHC = "ciderpress/dft/sph_harm_coeff.py"
C_SDMX = "mod_cider/fast_sdmx.c"
C_INTERP = "mod_cider/conv_interpolation.c"
C_SPH = "mod_cider/sph_harm.c"
F = {k: cfacts.LIB + "/" + k for k in (C_SDMX, C_INTERP, C_SPH)}
AXES = "xyz"
# frozen parameter-name lists (DESIGN §C06-1): grid-coordinate and atom-coordinate pointer parameters
G_NAMES = {"coords", "coord", "gridx"}
A_NAMES = {"atm_coords", "atm_coord", "atom_coords", "atom_coord", "atomx"}
# convention read on the pinned tree (used only if the source cannot be derived): axis -> slot
PINNED_ORDER = [3, 1, 2]


# ----------------------------------------------------------------------------------------------
# l1-order
# ----------------------------------------------------------------------------------------------
def sph_source_order(tu, fname):
    """[slot of x, slot of y, slot of z] from the l<=1 seed of the recursion."""
    ps = tu.params(fname)
    rp = [p for p in ps if tc.ptype(p) == "double *"]
    if len(rp) < 2:
        raise core.AnalysisError("%s: expected (buf, r, res, ...) parameters" % fname)
    roles = {rp[0]["id"]: "R", rp[1]["id"]: "RES"}
    ev = tc.Ev(tu)
    ev.inline_calls = True
    env = tc.new_env(roles)
    for st in tc.stmts_of(tu.body(fname)):
        if st.get("kind") in ("ForStmt", "WhileStmt", "DoStmt"):
            # an initialisation loop before the seed is skipped; the recursion proper starts after the
            # seed (its stores have symbolic indices l*l+..., never the constant slots 1..3)
            if any(s["root"] == "RES" for s in env["stores"]):
                break
            continue
        ev.block(st, env)
    slot_axis = {}
    for s in env["stores"]:
        if s["root"] != "RES":
            continue
        k = s["index"].const_value()
        if k is None or k not in (1, 2, 3):
            continue
        v = env["mem"][("RES", s["index"].canon())]
        axes = set()
        for m in v.t:
            rs = [(a, e) for a, e in m if a[0] == "elem" and a[1] == "R"]
            if len(rs) != 1 or rs[0][1] != 1:
                raise core.AnalysisError("%s: res[%s] is not linear in one component of r: %s" % (fname, k, v.text()[:120]))
            c = Poly(dict(rs[0][0][2])).const_value()
            axes.add(None if c is None else int(c))
        if len(axes) != 1 or None in axes:
            raise core.AnalysisError("%s: res[%s] mixes components of r: %s" % (fname, k, v.text()[:120]))
        slot_axis[int(k)] = axes.pop()
    if sorted(slot_axis) != [1, 2, 3] or sorted(slot_axis.values()) != [0, 1, 2]:
        raise core.AnalysisError("%s: could not derive the l=1 slots from the seed of the recursion (%s)" % (fname, slot_axis))
    inv = {a: s for s, a in slot_axis.items()}
    return [inv[0], inv[1], inv[2]]


def py_dirs_order(tree):
    """grids_indexer.py: self.dirs = f(ylm[:, [a, b, c]]) -> ([a,b,c], node, function)"""
    mod = tree.py(GI)
    hits = []
    for n in ast.walk(mod):
        if isinstance(n, ast.Assign) and len(n.targets) == 1 and pf.is_self_attr(n.targets[0], "dirs"):
            for s in ast.walk(n.value):
                if isinstance(s, ast.Subscript) and isinstance(s.slice, ast.Tuple) and len(s.slice.elts) == 2 \
                        and isinstance(s.slice.elts[0], ast.Slice):
                    sel = s.slice.elts[1]
                    if isinstance(sel, ast.Name):
                        # a local / module constant holding the column list
                        scope = pf.enclosing_func(n) or mod
                        defs = [a.value for a in ast.walk(scope) if isinstance(a, ast.Assign) and len(a.targets) == 1
                                and isinstance(a.targets[0], ast.Name) and a.targets[0].id == sel.id]
                        if len(defs) != 1:
                            defs = [a.value for a in mod.body if isinstance(a, ast.Assign) and len(a.targets) == 1
                                    and isinstance(a.targets[0], ast.Name) and a.targets[0].id == sel.id]
                        if len(defs) != 1:
                            continue
                        sel = defs[0]
                    if not isinstance(sel, (ast.List, ast.Tuple)):
                        continue
                    try:
                        lst = pf.literal(sel)
                    except pf.NotLiteral:
                        continue
                    hits.append((list(lst), s, n))
    if len(hits) != 1:
        raise core.AnalysisError("grids_indexer.py: expected one `self.dirs = ...ylm[:, [..]]...`, found %d" % len(hits))
    lst, sub, asg = hits[0]
    if len(lst) != 3 or not all(isinstance(x, int) for x in lst):
        raise core.AnalysisError("grids_indexer.py: the column list of dirs is not three integers")
    fn = pf.enclosing_func(asg)
    # the array must be the ylm handed to the constructor (the same array that is stored as self.ylm)
    base = pf.base_name(sub.value)
    return lst, asg, pf.qualname(fn) if fn else "<module>", base


def c_reorder_perm(tu, fname):
    """SDMXylm_yzx2xyz: {destination slot: source slot} from the data flow of the element stores."""
    ps = tu.params(fname)
    roles = {}
    yrole = None
    for p in ps:
        t = tc.ptype(p)
        if t == "double *":
            roles[p["id"]] = "Y"
            yrole = p
        elif t == "int":
            roles[p["id"]] = "param:" + p.get("name", "?")
    if yrole is None or sum(1 for r in roles.values() if r == "Y") != 1:
        raise core.AnalysisError("%s: expected exactly one double* parameter" % fname)
    ev = tc.Ev(tu)
    ev.inline_calls = True
    env = tc.new_env(roles)
    ev.block(tu.body(fname), env)
    perm = {}
    strides = set()
    for s in env["stores"]:
        if s["root"] != "Y":
            continue
        v = s["value"]
        if not v.single():
            raise core.AnalysisError("%s stores a computed value %s; expected a pure reorder" % (fname, v.text()[:80]))
        (m, c), = v.t.items()
        if c != 1 or len(m) != 1 or m[0][1] != 1 or m[0][0][0] != "elem" or m[0][0][1] != "Y":
            raise core.AnalysisError("%s stores %s; expected an element of the same array" % (fname, v.text()[:80]))
        src = Poly(dict(m[0][0][2]))
        d = s["index"] - src
        # slots are multiples of one integer parameter (the grid stride)
        def slot(ix):
            out = None
            for mm, cc in ix.t.items():
                if len(mm) == 1 and mm[0][1] == 1 and mm[0][0][0] == "sym" and mm[0][0][1].startswith("param:"):
                    strides.add(mm[0][0][1])
                    out = cc
            return out
        kd, ks = slot(s["index"]), slot(src)
        if kd is None or ks is None or len(strides) != 1:
            raise core.AnalysisError("%s: element index is not slot*stride + offset" % fname)
        rest = d - Poly({((("sym", next(iter(strides))), Fr(1)),): kd - ks})
        if rest.t:
            raise core.AnalysisError("%s: source and destination differ by more than the slot (%s)" % (fname, rest.text()[:80]))
        if int(kd) in perm and perm[int(kd)] != int(ks):
            raise core.AnalysisError("%s writes slot %s twice" % (fname, kd))
        perm[int(kd)] = int(ks)
    return perm


def py_gaunt_rows(tree):
    """get_deriv_ylm_coeff: {row: middle index of the CG tensor it is filled from} (+ closed-form rows)"""
    mod = pf.Module(tree, SHC)
    fn = mod.func("get_deriv_ylm_coeff")
    rows, closed = {}, []
    cgvars = set()
    for n in pf.walk_no_nested(fn):
        if isinstance(n, ast.Assign) and len(n.targets) == 1 and isinstance(n.targets[0], ast.Name) \
                and isinstance(n.value, ast.Call) and pf.call_name(n.value) and "clebsch_gordan" in pf.call_name(n.value):
            a = n.value.args
            if len(a) != 3 or pf.src(a[1]) != "1":
                raise core.AnalysisError("get_deriv_ylm_coeff: the coupling is no longer (l, 1, l+1)")
            cgvars.add(n.targets[0].id)
    for n in pf.walk_no_nested(fn):
        if isinstance(n, ast.Assign) and len(n.targets) == 1 and isinstance(n.targets[0], ast.Subscript) \
                and isinstance(n.targets[0].slice, ast.Tuple) and len(n.targets[0].slice.elts) == 2 \
                and isinstance(n.targets[0].slice.elts[0], ast.Constant):
            row = n.targets[0].slice.elts[0].value
            mids = set()
            for s in ast.walk(n.value):
                if isinstance(s, ast.Subscript) and isinstance(s.value, ast.Name) and s.value.id in cgvars \
                        and isinstance(s.slice, ast.Tuple) and len(s.slice.elts) == 3:
                    mid = s.slice.elts[1]
                    if not isinstance(mid, ast.Constant):
                        raise core.AnalysisError("get_deriv_ylm_coeff: non-literal middle index in row %s" % row)
                    mids.add(mid.value)
            if len(mids) == 1:
                rows[row] = (mids.pop(), n)
            elif not mids:
                closed.append((row, n))
            else:
                raise core.AnalysisError("get_deriv_ylm_coeff: row %s mixes l=1 components %s" % (row, sorted(mids)))
    if len(rows) < 2:
        raise core.AnalysisError("get_deriv_ylm_coeff: rows filled from the Clebsch-Gordan tensor not found")
    return rows, closed, pf.qualname(fn)


class StrideMismatch(Exception):
    def __init__(self, fname, used, declared):
        Exception.__init__(self, fname)
        self.fname, self.used, self.declared = fname, used, declared


def py_stride_binding(tree, cfunc, table_pos):
    """python call `libcider.<cfunc>(..., T.ctypes.data_as(..), .., c_int(T.shape[1]), ..)` -> position of the argument
    that carries the row length of the table passed at `table_pos` (None if no such call is written that way)"""
    for rel in tree.glob("ciderpress/pyscf/*.py") + tree.glob("ciderpress/dft/lcao_*.py"):
        if "/tests/" in rel:
            continue
        mod = tree.py(rel)
        for call in ast.walk(mod):
            if isinstance(call, ast.Call) and _lib_func(call.func) == cfunc and len(call.args) > table_pos:
                t = call.args[table_pos]
                while isinstance(t, (ast.Call, ast.Attribute)):
                    t = t.func if isinstance(t, ast.Call) else t.value
                if not isinstance(t, ast.Name):
                    continue
                for i, a in enumerate(call.args):
                    if isinstance(a, ast.Call) and (pf.call_name(a) or "").endswith("c_int") and a.args \
                            and pf.src(a.args[0]) == "%s.shape[1]" % t.id:
                        return i, rel, call.lineno
    return None


def c_gaunt_row_axes(tu, fname, gaunt_idx, vec_idx, stride_names, plane_role=None):
    """{gaunt row: Cartesian component slot} for a C function that multiplies rows of the derivative
    table (parameter #gaunt_idx, row stride = an int parameter) into a 3-vector array (#vec_idx).
    The component of a vector element is the constant term of its index (interleaved layout,
    fill_l1_coeff_*) or, when plane_role is given, the multiple of the plane stride (SDMXylm_grad)."""
    ps = tu.params(fname)
    roles = {}
    if max(gaunt_idx, vec_idx) >= len(ps) or any(
            tc.ptype(ps[i]) != "double *" for i in (gaunt_idx, vec_idx)):
        raise core.AnalysisError("%s: parameters #%d / #%d are no longer the vector array and the derivative table" % (
            fname, vec_idx, gaunt_idx))
    for i, p in enumerate(ps):
        t = tc.ptype(p)
        if i == gaunt_idx:
            roles[p["id"]] = "GAUNT"
        elif i == vec_idx:
            roles[p["id"]] = "VEC"
        elif t in ("int", "size_t"):
            roles[p["id"]] = "param:" + p.get("name", "?")
        elif t == "double *":
            roles[p["id"]] = "arr%d" % i
    ev = tc.Ev(tu)
    ev.inline_calls = True
    env = tc.new_env(roles)
    ev.block(tu.body(fname), env)

    def grow(atom):
        ix = Poly(dict(atom[2]))
        r = Fr(0)
        for mm, cc in ix.t.items():
            if len(mm) == 1 and mm[0][1] == 1 and mm[0][0] == ("sym", "param:" + stride_names[0]):
                r = cc
        return int(r)

    def vcomp(ix):
        if plane_role is None:
            return ix.t.get((), Fr(0))
        # SDMXylm_grad: v * ylm_atom_loc[natm] * ngrids
        # the plane stride is (element of an int array at a parameter-only index) * plane_role
        out = Fr(0)
        for mm, cc in ix.t.items():
            if len(mm) == 2 and all(e == 1 for a, e in mm) and ("sym", "param:" + plane_role) in [a for a, e in mm]:
                els = [a for a, e in mm if a[0] == "elem"]
                if len(els) != 1:
                    continue
                eix = Poly(dict(els[0][2]))
                if eix.t and all(a[0] == "sym" and a[1].startswith("param:") for m2 in eix.t for a, _ in m2):
                    out = cc
        return out

    # the rows of the table are addressed as base + k * U: U must be the row length the caller allocated the table
    # with (the stride parameter), not any other quantity
    idxs = []
    for s in env["stores"]:
        for m, c in s["value"].t.items():
            for a, e in m:
                if a[0] == "elem" and a[1] == "GAUNT":
                    ix = Poly(dict(a[2]))
                    if ix not in idxs:
                        idxs.append(ix)
    if len(idxs) >= 2:
        base = min(idxs, key=lambda q: (len(q.t), len(q.text())))
        diffs = [q - base for q in idxs if (q - base).t]
        unit = min(diffs, key=lambda q: (len(q.t), len(q.text())))
        want = Poly.atom(("sym", "param:" + stride_names[0]))
        if all(any(d == unit.scale(k) for k in range(-8, 9) if k) for d in diffs):
            for sgn in (1, -1):
                for k in range(1, 9):
                    if unit == want.scale(sgn * k):
                        unit = want
            if unit != want:
                raise StrideMismatch(fname, unit.text(), stride_names[0])
    pairs = {}
    for s in env["stores"]:
        for m, c in s["value"].t.items():
            g = [a for a, e in m if a[0] == "elem" and a[1] == "GAUNT"]
            if len(g) != 1:
                continue
            row = grow(g[0])
            if s["root"] == "VEC":
                comp = vcomp(s["index"])
            else:
                vs = [a for a, e in m if a[0] == "elem" and a[1] == "VEC"]
                if len(vs) != 1:
                    continue
                comp = vcomp(Poly(dict(vs[0][2])))
            if comp.denominator != 1:
                raise core.AnalysisError("%s: non-integer component for gaunt row %s" % (fname, row))
            pairs.setdefault(row, set()).add(int(comp))
    if not pairs:
        raise core.AnalysisError("%s: no product of a derivative-table row with a vector element found" % fname)
    bad = {r: c for r, c in pairs.items() if len(c) != 1}
    if bad:
        raise core.AnalysisError("%s: gaunt rows used for several components: %s" % (fname, bad))
    return {r: next(iter(c)) for r, c in pairs.items()}


def rule_l1_order(chk, tus):
    tree = chk.tree
    # source of truth
    src_orders = {}
    for fn in ("recursive_sph_harm", "recursive_sph_harm_deriv"):
        if fn in tus[C_SPH].funcs:
            src_orders[fn] = sph_source_order(tus[C_SPH], fn)
    if "recursive_sph_harm" not in src_orders:
        raise core.AnalysisError("anchor recursive_sph_harm vanished from sph_harm.c")
    order = src_orders["recursive_sph_harm"]
    what = ", ".join("%s->slot %d" % (AXES[a], order[a]) for a in range(3))
    for fn, o in sorted(src_orders.items()):
        inst = "source %s: %s" % (fn, ", ".join("%s->%d" % (AXES[a], o[a]) for a in range(3)))
        if o == order:
            chk.ok("l1-order", inst)
        else:
            chk.violation("l1-order", F[C_SPH], fn, "res[1..3] seed", tus[C_SPH].line_of(tus[C_SPH].func(fn)),
                          "the two generators of real spherical harmonics disagree on the l=1 order: %s gives %s, "
                          "recursive_sph_harm gives %s" % (fn, o, order), instance=inst)
    chk.extra["l1_order_source"] = {"derived_from": "sph_harm.c:recursive_sph_harm", "axis_to_slot": dict(zip(AXES, order)),
                                    "pinned": dict(zip(AXES, PINNED_ORDER))}
    # site 1
    lst, asg, fnq, base = py_dirs_order(tree)
    inst = "grids_indexer dirs = %s[:, %s]" % (base, lst)
    if lst == order:
        chk.ok("l1-order", inst)
    else:
        chk.violation("l1-order", GI, fnq, pf.src(asg), asg.lineno,
                      "dirs must hold (x, y, z): sph_harm.c puts %s, but the columns taken are %s: the l=1 onsite "
                      "term multiplies features by the wrong Cartesian component" % (what, lst), instance=inst)
    # site 2
    tu = tus[C_SDMX]
    perm = c_reorder_perm(tu, "SDMXylm_yzx2xyz")
    inst = "SDMXylm_yzx2xyz slots %s" % sorted(perm.items())
    want = {1 + a: order[a] for a in range(3)}
    if perm == want:
        chk.ok("l1-order", inst)
    else:
        chk.violation("l1-order", F[C_SDMX], "SDMXylm_yzx2xyz", "net permutation %s" % sorted(perm.items()),
                      tu.line_of(tu.func("SDMXylm_yzx2xyz")),
                      "after the reorder slots (1,2,3) must hold (x,y,z), i.e. slot 1+a <- slot %s (sph_harm.c: %s); "
                      "the data flow gives %s" % (order, what, sorted(perm.items())), instance=inst)
    # site 3: derivative table rows
    rows, closed, pyfn = py_gaunt_rows(tree)
    consumers = [(tus[C_INTERP], C_INTERP, "fill_l1_coeff_fwd", 2, 1, ("nlm",), None),
                 (tus[C_INTERP], C_INTERP, "fill_l1_coeff_bwd", 2, 1, ("nlm",), None),
                 (tus[C_SDMX], C_SDMX, "SDMXylm_grad", 2, 1, ("gaunt_nlm",), "ngrids")]
    for tu_, rel, fn, gi, vi, strides, plane in consumers:
        ps = tu_.params(fn)
        if strides[0] not in [p.get("name") for p in ps]:
            raise core.AnalysisError("%s: row-stride parameter %s vanished" % (fn, strides[0]))
        if plane and plane not in [p.get("name") for p in ps]:
            raise core.AnalysisError("%s: plane-stride parameter %s vanished" % (fn, plane))
        bind = py_stride_binding(tree, fn, gi)
        if bind is not None and bind[0] < len(ps) and tc.ptype(ps[bind[0]]) == "int":
            strides = (ps[bind[0]].get("name"),)  # the parameter python binds to <table>.shape[1]
        inst_s = "%s addresses the rows of the derivative table with the row length it is given (%s)" % (fn, strides[0])
        try:
            ra = c_gaunt_row_axes(tu_, fn, gi, vi, strides, plane)
        except StrideMismatch as sm:
            chk.violation("l1-order", F[rel], fn, "gaunt rows at multiples of %s" % sm.used, tu_.line_of(tu_.func(fn)),
                          "%s reads row k of the derivative table at offset k * (%s); the table is a (5, %s) array whose row "
                          "length is the argument %s%s: every row but the first is read from the wrong place unless the two "
                          "happen to be equal" % (fn, sm.used, sm.declared, sm.declared,
                                                  " (bound to <table>.shape[1] at %s:%d)" % (bind[1], bind[2]) if bind else ""),
                          instance=inst_s)
            continue
        chk.ok("l1-order", inst_s)
        shift = 1 if plane else 0  # SDMXylm_grad: plane 0 is the value, planes 1..3 the derivatives
        for row, (mid, node) in sorted(rows.items()):
            inst = "%s row %d" % (fn, row)
            if row not in ra:
                raise core.AnalysisError("%s does not use derivative-table row %d" % (fn, row))
            axis = ra[row] - shift
            # python: middle CG index mid <-> l=1 slot mid+1 ; source: axis a <-> slot order[a]
            if 0 <= axis <= 2 and order[axis] == mid + 1:
                chk.ok("l1-order", inst, detail="row %d: CG index %d = slot %d = %s; C component %d" % (
                    row, mid, mid + 1, AXES[axis], axis))
            else:
                pyaxis = order.index(mid + 1) if (mid + 1) in order else None
                chk.violation("l1-order", F[rel], fn, "gaunt row %d -> component %d" % (row, axis),
                              tu_.line_of(tu_.func(fn)),
                              "%s fills row %d of the derivative table from l=1 component %d (slot %d = %s by sph_harm.c) "
                              "but %s uses that row for Cartesian component %s" % (
                                  pyfn, row, mid, mid + 1, AXES[pyaxis] if pyaxis is not None else "?", fn,
                                  AXES[axis] if 0 <= axis <= 2 else axis), instance=inst)
        for row, node in closed:
            inst = "%s row %d (closed form)" % (fn, row)
            used = {ra[r] - shift for r in rows if r in ra}
            if row in ra and (ra[row] - shift) not in used and 0 <= ra[row] - shift <= 2:
                chk.ok("l1-order", inst, nontrivial=False)
            else:
                chk.violation("l1-order", F[rel], fn, "gaunt row %d" % row, tu_.line_of(tu_.func(fn)),
                              "row %d (the remaining axis) is used for component %s, which rows from the Clebsch-Gordan "
                              "tensor already occupy" % (row, ra.get(row)), instance=inst)
    return order


# ----------------------------------------------------------------------------------------------
# sph-twin: the two generators of real spherical harmonics produce the same values
# ----------------------------------------------------------------------------------------------
SPH_LMAX = 6


def sph_unrolled(tu, fname, lmax, zero_roots, garrays):
    """res[0 .. (lmax+1)^2) of one generator as polynomials in r[0..2] and the (symbolic) recursion
    coefficients: the loops are executed concretely for buf.lmax = lmax (literal bounds, input-independent
    control flow), products are expanded so that real and imaginary parts stay separable."""
    ps = tu.params(fname)
    rp = [p for p in ps if tc.ptype(p) == "double *"]
    if len(rp) < 2 or "sphbuf" not in tc.ptype(ps[0]):
        raise core.AnalysisError("%s: expected (sphbuf buf, double *r, double *res, ...)" % fname)
    ev = tc.Ev(tu)
    ev.unroll = True
    ev.expand = True
    ev.inline_calls = True  # a seed / recursion step moved into a helper is followed
    ev.concrete = {"member:sphbuf.lmax": lmax, "member:sphbuf.lp1": lmax + 1, "member:sphbuf.nlm": (lmax + 1) ** 2}
    env = tc.new_env({rp[0]["id"]: "R", rp[1]["id"]: "RES"})
    env["zero_roots"] = set(zero_roots)
    for name, vals in garrays.items():
        for i, v in enumerate(vals):
            env["mem"][("ptr:" + name, Poly.const(i).canon())] = Poly.const(v)
    ev.block(tu.body(fname), env)
    out = {}
    for (root, idx), v in env["mem"].items():
        if root == "RES":
            k = Poly(dict(idx)).const_value()
            if k is None:
                raise core.AnalysisError("%s: store to res at a non-constant index after unrolling" % fname)
            out[int(k)] = v
    return out


def rule_sph_twin(chk, tus):
    tu = tus[C_SPH]
    for fn in ("recursive_sph_harm", "recursive_sph_harm_deriv", "setup_sph_harm_buffer"):
        tu.func(fn)
    # buffers that setup_sph_harm_buffer leaves zero (calloc'ed, only zeros stored): entries that a generator
    # never writes read as 0
    ev0 = tc.Ev(tu)
    ev0.lenient = True
    ev0.inline_calls = True  # the set-up may be split into helpers that take the buffer by pointer
    env0 = tc.new_env()
    ev0.block(tu.body("setup_sph_harm_buffer"), env0)
    nonzero = {st["root"].split("@")[0] for st in env0["stores"] if st["value"].t}
    zero = {k.split("@")[0] for k, how in env0["allocs"].items() if how == "calloc"} - nonzero
    ga = tc.global_const_arrays(tu)
    a = sph_unrolled(tu, "recursive_sph_harm", SPH_LMAX, zero, ga)
    b = sph_unrolled(tu, "recursive_sph_harm_deriv", SPH_LMAX, zero, ga)
    nlm = (SPH_LMAX + 1) ** 2
    if sorted(a) != list(range(nlm)) or sorted(b) != list(range(nlm)):
        raise core.AnalysisError("generators do not fill res[0..%d) for lmax=%d (%d / %d entries)" % (
            nlm, SPH_LMAX, len(a), len(b)))
    chk.count("(l,m) values compared", nlm)
    for k in range(nlm):
        l = int(k ** 0.5)
        while (l + 1) ** 2 <= k:
            l += 1
        while l * l > k:
            l -= 1
        m = k - l * l - l
        inst = "Y(l=%d, m=%+d): recursive_sph_harm == recursive_sph_harm_deriv" % (l, m)
        if not a[k].t and l > 0:
            raise core.AnalysisError("recursive_sph_harm: res[%d] evaluates to 0; the abstract evaluation lost the value" % k)
        if a[k] == b[k]:
            chk.ok("sph-twin", inst, nontrivial=l > 1)
        else:
            what = "opposite sign" if a[k] == -b[k] else "different value"
            chk.violation("sph-twin", F[C_SPH], "recursive_sph_harm", "res[%d] (l=%d, m=%+d)" % (k, l, m),
                          tu.line_of(tu.func("recursive_sph_harm")),
                          "the real spherical harmonic l=%d, m=%+d has %s in recursive_sph_harm and in "
                          "recursive_sph_harm_deriv (loops executed for lmax=%d): %s  vs  %s" % (
                              l, m, what, SPH_LMAX, a[k].text()[:110], b[k].text()[:110]), instance=inst)


# ----------------------------------------------------------------------------------------------
# sph-harmonic: every generated Y_lm is a harmonic polynomial of degree l
# ----------------------------------------------------------------------------------------------
def sph_exact(tu, lmax):
    """res[k] of recursive_sph_harm as polynomials in r[0..2] with NUMERIC recursion coefficients: the set-up
    routine is executed concretely too (literal loop bounds), square roots of rationals are kept exactly in a
    normal form over square roots of primes."""
    nlm = (lmax + 1) ** 2
    ev0 = tc.Ev(tu)
    ev0.unroll = ev0.expand = ev0.exact_roots = ev0.inline_calls = True
    ev0.lenient = True
    ps = tu.params("setup_sph_harm_buffer")
    if len(ps) != 1 or tc.ptype(ps[0]) != "int":
        raise core.AnalysisError("setup_sph_harm_buffer no longer takes the table size only")
    env0 = tc.new_env()
    env0["vals"][ps[0]["id"]] = Poly.const(nlm)
    ev0.block(tu.body("setup_sph_harm_buffer"), env0)
    tables = {}
    for (root, idx), v in env0["mem"].items():
        if root.startswith("member:") and Poly(dict(idx)).is_const():
            tables[(root.split("@")[0], idx)] = v
    if len(tables) < 4 * (lmax + 1):
        raise core.AnalysisError("setup_sph_harm_buffer: recursion coefficient tables were not evaluated (%d entries; %s)" % (
            len(tables), ev0.skipped[:1]))
    ga = tc.global_const_arrays(tu)
    fname = "recursive_sph_harm"
    ps = tu.params(fname)
    rp = [p for p in ps if tc.ptype(p) == "double *"]
    ev = tc.Ev(tu)
    ev.unroll = ev.expand = ev.exact_roots = ev.inline_calls = True
    ev.concrete = {"member:sphbuf.lmax": lmax, "member:sphbuf.lp1": lmax + 1, "member:sphbuf.nlm": nlm}
    env = tc.new_env({rp[0]["id"]: "R", rp[1]["id"]: "RES"})
    env["mem_by_type"] = tables
    for name, vals in ga.items():
        for i, v in enumerate(vals):
            env["mem"][("ptr:" + name, Poly.const(i).canon())] = Poly.const(v)
    ev.block(tu.body(fname), env)
    out = {}
    for (root, idx), v in env["mem"].items():
        if root == "RES":
            k = Poly(dict(idx)).const_value()
            if k is not None:
                out[int(k)] = v
    return out


def _xyz_split(p):
    """polynomial in R[0..2] -> {(a, b, c): coefficient Poly over the remaining (numeric) atoms}"""
    out = {}
    for m, c in p.t.items():
        ex = [0, 0, 0]
        rest = []
        for a, e in m:
            if a[0] == "elem" and a[1] == "R":
                i = Poly(dict(a[2])).const_value()
                if i is None or e.denominator != 1 or e < 0 or not (0 <= i <= 2):
                    raise core.AnalysisError("spherical harmonic is not a polynomial in r[0..2]")
                ex[int(i)] += int(e)
            elif a[0] == "num":
                rest.append((a, e))
            else:
                raise core.AnalysisError("spherical harmonic still contains the symbol %s" % tc.atom_text(a))
        key = tuple(ex)
        out[key] = out.get(key, Poly()) + Poly({tuple(rest): c})
    return {k: v for k, v in out.items() if v.t}


def _laplacian_of_homogenised(terms, l):
    """terms {(a,b,c): coef}: multiply every term of degree d < l by (x^2+y^2+z^2)^((l-d)/2) (the generators work on
    the unit sphere, where that factor is 1) and return the Laplacian, term by term"""
    hom = {}
    for (a, b, c), cf in terms.items():
        d = a + b + c
        if d > l or (l - d) % 2:
            return None
        k = (l - d) // 2
        # (x^2 + y^2 + z^2)^k expanded by the multinomial theorem
        from math import factorial
        for i in range(k + 1):
            for j in range(k - i + 1):
                h = k - i - j
                mult = factorial(k) // (factorial(i) * factorial(j) * factorial(h))
                key = (a + 2 * i, b + 2 * j, c + 2 * h)
                hom[key] = hom.get(key, Poly()) + cf.scale(mult)
    lap = {}
    for (a, b, c), cf in hom.items():
        for axis, e in enumerate((a, b, c)):
            if e >= 2:
                key = [a, b, c]
                key[axis] -= 2
                key = tuple(key)
                lap[key] = lap.get(key, Poly()) + cf.scale(e * (e - 1))
    return {k: v for k, v in lap.items() if v.t}


def rule_sph_harmonic(chk, tus):
    tu = tus[C_SPH]
    res = sph_exact(tu, SPH_LMAX)
    nlm = (SPH_LMAX + 1) ** 2
    if sorted(res) != list(range(nlm)):
        raise core.AnalysisError("recursive_sph_harm does not fill res[0..%d) for lmax=%d" % (nlm, SPH_LMAX))
    for k in range(nlm):
        l = 0
        while (l + 1) ** 2 <= k:
            l += 1
        m = k - l * l - l
        inst = "Y(l=%d, m=%+d) is a harmonic polynomial of degree %d" % (l, m, l)
        terms = _xyz_split(res[k])
        if not terms:
            raise core.AnalysisError("recursive_sph_harm: res[%d] evaluates to 0" % k)
        lap = _laplacian_of_homogenised(terms, l)
        if lap is None:
            degs = sorted({sum(key) for key in terms})
            chk.violation("sph-harmonic", F[C_SPH], "recursive_sph_harm", "res[%d] (l=%d, m=%+d)" % (k, l, m),
                          tu.line_of(tu.func("recursive_sph_harm")),
                          "Y(l=%d, m=%+d) contains terms of degree %s in (x,y,z); a spherical harmonic of order l restricted "
                          "to the unit sphere has degrees l, l-2, ... only" % (l, m, degs), instance=inst)
        elif lap:
            ex = sorted(lap.items())[0]
            chk.violation("sph-harmonic", F[C_SPH], "recursive_sph_harm", "res[%d] (l=%d, m=%+d)" % (k, l, m),
                          tu.line_of(tu.func("recursive_sph_harm")),
                          "the polynomial generated for Y(l=%d, m=%+d) (recursion coefficients taken from "
                          "setup_sph_harm_buffer, loops executed for lmax=%d) is not harmonic: its Laplacian has the term "
                          "%s * x^%d y^%d z^%d.  A recursion term is missing or a coefficient of the tables coef0/coef1/c0/c1 "
                          "is wrong, so the function is no longer an eigenfunction of rotations" % (
                              l, m, SPH_LMAX, ex[1].text()[:60], ex[0][0], ex[0][1], ex[0][2]), instance=inst)
        else:
            chk.ok("sph-harmonic", inst, nontrivial=l > 1)


# ----------------------------------------------------------------------------------------------
# table-extent / sph-bounds: indices stay inside fixed-size tables and inside the buffers of the smallest set-up
# ----------------------------------------------------------------------------------------------
def rule_table_extent(chk, tus, files=None):
    """a file-scope constant array of fixed extent N (a lookup table) indexed by an expression whose largest value is
    a loop bound: the bound must be a constant <= N-1, or the function must reject larger run-time bounds before the
    loop.  (FAC_LIST[24] indexed by m < buf.lmax was the instance.)"""
    n = 0
    for rel, tu in sorted(tus.items()):
        if files is not None and rel not in files:
            continue
        for fname in sorted(tu.funcs):
            for u in tc.const_table_uses(tu, fname):
                n += 1
                inst = "%s:%s %s[%s] (extent %d)" % (rel, fname, u["table"], u["index_text"], u["extent"])
                kind, val = u["bound"]
                line = tu.line_of(u["node"])
                if kind == "const":
                    if 0 <= val < u["extent"]:
                        chk.ok("table-extent", inst)
                    else:
                        chk.violation("table-extent", cfacts.LIB + "/" + rel, fname, "%s[%s]" % (u["table"], u["index_text"]), line,
                                      "index reaches %d but %s has %d entries" % (val, u["table"], u["extent"]), instance=inst)
                    continue
                # run-time bound: look for a rejecting guard that compares it with a constant not above the extent
                guarded = False
                for x in tc.walk_stmts(tu.body(fname)):
                    if x.get("kind") == "IfStmt":
                        ks = cfacts.kids(x)
                        ctext = tc.norm_c(tu.text_of(ks[0]))
                        consts = [tc.const_int(y) for y in cfacts.walk(ks[0]) if y.get("kind") == "IntegerLiteral"]
                        exits = any(y.get("kind") == "ReturnStmt" or (y.get("kind") == "CallExpr" and
                                    cfacts.strip(cfacts.kids(y)[0]).get("referencedDecl", {}).get("name") in ("exit", "abort"))
                                    for y in tc.walk_stmts(ks[1]))
                        if exits and val in ctext and any(c is not None and c <= u["extent"] + 1 for c in consts) \
                                and (">" in ctext):
                            guarded = True
                if guarded:
                    chk.ok("table-extent", inst + " [guarded]")
                else:
                    chk.violation("table-extent", cfacts.LIB + "/" + rel, fname, "%s[%s]" % (u["table"], u["index_text"]), line,
                                  "%s is a table of %d entries, but the index %s is bounded only by the run-time quantity %s "
                                  "(no check rejects larger values): for %s > %d the loop reads past the end of the table" % (
                                      u["table"], u["extent"], u["index_text"], val, val, u["extent"]), instance=inst)
    if n == 0:
        chk.ok("table-extent", "no file-scope constant table is indexed in the parsed files", nontrivial=False)
    chk.count("constant-table subscripts", n)


def sph_bounds(tu, fname, lmax):
    """stores of one generator for buf.lmax = lmax, with the allocation counts of setup_sph_harm_buffer:
    -> (indices stored into res, [(array, index, allocated)] for stores past the allocation)"""
    nlm = (lmax + 1) ** 2
    ev0 = tc.Ev(tu)
    ev0.unroll = ev0.expand = ev0.exact_roots = ev0.inline_calls = True
    ev0.lenient = True
    ps = tu.params("setup_sph_harm_buffer")
    env0 = tc.new_env()
    env0["vals"][ps[0]["id"]] = Poly.const(nlm)
    ev0.block(tu.body("setup_sph_harm_buffer"), env0)
    sizes = {}
    for key, cnt in env0.get("alloc_counts", {}).items():
        c = cnt.const_value()
        if c is not None:
            sizes[key.split("@")[0]] = int(c)
    if not sizes:
        raise core.AnalysisError("setup_sph_harm_buffer: allocation sizes not evaluated for nlm=%d" % nlm)
    fields = {k.split("@")[0]: v for k, v in env0["fields"].items() if v is not None}
    ps = tu.params(fname)
    rp = [p for p in ps if tc.ptype(p) == "double *"]
    ev = tc.Ev(tu)
    ev.unroll = ev.expand = ev.inline_calls = True
    ev.concrete = {}
    for tk in ("member:sphbuf.lmax", "member:sphbuf.lp1", "member:sphbuf.nlm"):
        c = fields.get(tk).const_value() if fields.get(tk) is not None else None
        if c is None:
            raise core.AnalysisError("setup_sph_harm_buffer does not fix %s for nlm=%d" % (tk, nlm))
        ev.concrete[tk] = int(c)
    env = tc.new_env({rp[0]["id"]: "R", rp[1]["id"]: "RES"})
    env["zero_roots"] = {k for k in sizes}
    ev.block(tu.body(fname), env)
    res_idx, over = [], []
    for st in env["stores"]:
        ci = st["index"].const_value()
        if st["root"] == "RES":
            if ci is None:
                raise core.AnalysisError("%s: non-constant res index after unrolling (lmax=%d)" % (fname, lmax))
            res_idx.append(int(ci))
        else:
            tk = st["root"].split("@")[0]
            if tk in sizes and ci is not None and not (0 <= ci < sizes[tk]):
                over.append((tk.split(".")[-1], int(ci), sizes[tk], st["node"]))
    return res_idx, over


def rule_sph_bounds(chk, tus):
    tu = tus[C_SPH]
    for fname in ("recursive_sph_harm", "recursive_sph_harm_deriv"):
        tu.func(fname)
        for lmax in (0, 1, 2):
            nlm = (lmax + 1) ** 2
            inst = "%s for the set-up with nlm=%d (lmax=%d): every store is inside its buffer" % (fname, nlm, lmax)
            res_idx, over = sph_bounds(tu, fname, lmax)
            bad = sorted({i for i in res_idx if not (0 <= i < nlm)})
            if bad or over:
                what = []
                if bad:
                    what.append("res[%s] although res has %d entr%s" % (",".join(map(str, bad)), nlm, "y" if nlm == 1 else "ies"))
                for arr, i, size, node in over[:3]:
                    what.append("buf.%s[%d] although %d were allocated" % (arr, i, size))
                chk.violation("sph-bounds", F[C_SPH], fname, "stores for nlm=%d" % nlm, tu.line_of(tu.func(fname)),
                              "executed for the buffer that setup_sph_harm_buffer(%d) builds (lmax=%d), %s writes %s: entries at "
                              "fixed indices are stored without a check that the buffer is that large" % (
                                  nlm, lmax, fname, "; ".join(what)), instance=inst)
            elif sorted(set(res_idx)) != list(range(nlm)):
                chk.violation("sph-bounds", F[C_SPH], fname, "coverage for nlm=%d" % nlm, tu.line_of(tu.func(fname)),
                              "for lmax=%d the generator fills res%s, not all %d entries" % (lmax, sorted(set(res_idx)), nlm),
                              instance=inst)
            else:
                chk.ok("sph-bounds", inst)


# ----------------------------------------------------------------------------------------------
# unit-vector: a direction normalised by its own Euclidean norm is guarded against norm == 0
# ----------------------------------------------------------------------------------------------
def python_entry_points(tree):
    """names of library functions referenced from (non-test) python code: libX.name / getattr(libX, "name")"""
    out = set()
    for rel in tree.glob("ciderpress/**/*.py"):
        if "/tests/" in rel:
            continue
        try:
            mod = tree.py(rel)
        except core.AnalysisError:
            continue
        for n in ast.walk(mod):
            f = _lib_func(n) if isinstance(n, (ast.Attribute, ast.Call)) else None
            if f:
                out.add(f)
    return out


def _refs(node, did):
    return any(x.get("kind") == "DeclRefExpr" and x.get("referencedDecl", {}).get("id") == did for x in cfacts.walk(node))


def _norm_defs(tu, fname):
    """scalars assigned sqrt(a*a + b*b [+ c*c]) -> {decl id: (name, set of operand spellings)}"""
    out = {}
    for n in tc.walk_stmts(tu.body(fname)):
        tgt = val = None
        if n.get("kind") == "BinaryOperator" and n.get("opcode") == "=":
            l, r = cfacts.kids(n)
            l = cfacts.strip(l)
            if l.get("kind") == "DeclRefExpr":
                tgt, val = l["referencedDecl"], r
        elif n.get("kind") == "VarDecl":
            ks = [c for c in cfacts.kids(n) if c.get("kind") != "FullComment"]
            if ks:
                tgt, val = {"id": n.get("id"), "name": n.get("name")}, ks[0]
        if tgt is None:
            continue
        v = cfacts.strip(val)
        if v.get("kind") != "CallExpr":
            continue
        callee = cfacts.strip(cfacts.kids(v)[0])
        if callee.get("referencedDecl", {}).get("name") != "sqrt" or len(cfacts.kids(v)) != 2:
            continue
        terms, todo = [], [cfacts.strip(cfacts.kids(v)[1])]
        while todo:
            x = cfacts.strip(todo.pop())
            if x.get("kind") == "BinaryOperator" and x.get("opcode") == "+":
                todo.extend(cfacts.kids(x))
            else:
                terms.append(x)
        ops = set()
        good = len(terms) >= 2
        for t_ in terms:
            if t_.get("kind") == "BinaryOperator" and t_.get("opcode") == "*":
                a, b = [tc.norm_c(tu.text_of(cfacts.strip(c))) for c in cfacts.kids(t_)]
                if a == b:
                    ops.add(a)
                    continue
            good = False
        if good and len(ops) == len(terms):
            out[tgt["id"]] = (tgt.get("name"), ops)
    return out


def _vec_base(text):
    return text.split("[")[0]


def _helper_summaries(tu):
    """same-file helpers: norm helpers  {name: index of the pointer parameter whose norm is returned}
                         normalise helpers {name: (vector param index, norm param index, guarded)}"""
    norm_h, normalise_h = {}, {}
    for fname in tu.funcs:
        body = tu.body(fname)
        if body is None:
            continue
        ps = tu.params(fname)
        pid = {p.get("id"): i for i, p in enumerate(ps)}
        pname = {p.get("name"): i for i, p in enumerate(ps)}
        nodes = list(tc.walk_stmts(body))
        # returns sqrt(sum of squares of P[i])
        for n in nodes:
            if n.get("kind") == "ReturnStmt" and cfacts.kids(n):
                fake = {"kind": "VarDecl", "id": "<ret>", "name": "<ret>", "inner": [cfacts.kids(n)[0]]}
                v = cfacts.strip(cfacts.kids(n)[0])
                if v.get("kind") == "DeclRefExpr":
                    nd = _norm_defs(tu, fname).get(v["referencedDecl"]["id"])
                else:
                    tmp = _norm_of_expr(tu, v)
                    nd = ("<ret>", tmp) if tmp else None
                if nd:
                    bases = {_vec_base(o) for o in nd[1]}
                    if len(bases) == 1 and next(iter(bases)) in pname:
                        norm_h[fname] = pname[next(iter(bases))]
        # divides V[k] by scalar parameter N
        parents = {}
        for x in nodes:
            for c in cfacts.kids(x):
                parents[id(c)] = x
        for x in nodes:
            if x.get("kind") == "CompoundAssignOperator" and x.get("opcode") == "/=":
                num, den = cfacts.kids(x)
                dn, nm = cfacts.strip(den), cfacts.strip(num)
                if dn.get("kind") == "DeclRefExpr" and dn["referencedDecl"]["id"] in pid and nm.get("kind") == "ArraySubscriptExpr":
                    b = cfacts.strip(cfacts.kids(nm)[0])
                    if b.get("kind") == "DeclRefExpr" and b["referencedDecl"]["id"] in pid:
                        did = dn["referencedDecl"]["id"]
                        g = _dominated(x, did, parents)
                        prev = normalise_h.get(fname)
                        normalise_h[fname] = (pid[b["referencedDecl"]["id"]], pid[did], g and (prev[2] if prev else True))
    return norm_h, normalise_h


def _norm_of_expr(tu, v):
    """operand spellings if v is sqrt(a*a + b*b [+ ...])"""
    v = cfacts.strip(v)
    if v.get("kind") != "CallExpr":
        return None
    callee = cfacts.strip(cfacts.kids(v)[0])
    if callee.get("referencedDecl", {}).get("name") != "sqrt" or len(cfacts.kids(v)) != 2:
        return None
    terms, todo = [], [cfacts.strip(cfacts.kids(v)[1])]
    while todo:
        x = cfacts.strip(todo.pop())
        if x.get("kind") == "BinaryOperator" and x.get("opcode") == "+":
            todo.extend(cfacts.kids(x))
        else:
            terms.append(x)
    ops = set()
    for t_ in terms:
        if t_.get("kind") == "BinaryOperator" and t_.get("opcode") == "*":
            a, b = [tc.norm_c(tu.text_of(cfacts.strip(c))) for c in cfacts.kids(t_)]
            if a == b:
                ops.add(a)
                continue
        return None
    return ops if len(terms) >= 2 and len(ops) == len(terms) else None


def _dominated(x, did, parents):
    """is node x executed only after a test on variable `did` (enclosing if / ?: on it, or an earlier
    `if (... did ...) continue/return/break` in an enclosing block)"""
    cur = x
    while id(cur) in parents:
        par = parents[id(cur)]
        if par.get("kind") in ("IfStmt", "ConditionalOperator") and _refs(cfacts.kids(par)[0], did) \
                and cur is not cfacts.kids(par)[0]:
            return True
        if par.get("kind") == "CompoundStmt":
            for sib in cfacts.kids(par):
                if sib is cur:
                    break
                if sib.get("kind") == "IfStmt" and _refs(cfacts.kids(sib)[0], did) and any(
                        y.get("kind") in ("ContinueStmt", "ReturnStmt", "BreakStmt")
                        for y in tc.walk_stmts(cfacts.kids(sib)[1])):
                    return True
        cur = par
    return False


def rule_unit_vector(chk, tus, files=(C_INTERP, C_SDMX)):
    """`v[k] /= n` (or v[k] / n) with n = sqrt(v[0]^2 + v[1]^2 + v[2]^2): when the grid point coincides with the
    centre the division is 0/0 = NaN, although r^l Y_lm (or a radial function finite at 0) has a limit there.  The
    division must be dominated by a test on n -- unless the function is singular at n = 0 anyway (n also occurs in
    another denominator: derivative variants), or is not reachable from python.  Same-file helpers are followed:
    `n = norm_helper(v, ...)` defines the norm of v, `normalise_helper(v, n)` is a normalisation site that is guarded
    iff the helper's own division is.  One obligation per (function, vector)."""
    entry = python_entry_points(chk.tree)
    n_sites = 0
    for rel in files:
        tu = tus[rel]
        norm_h, normalise_h = _helper_summaries(tu)
        reach = set()
        for f in tu.funcs:
            if f in entry:
                reach.add(f)
                reach |= {nm for nm, _, _ in tc.callees_of(tu, f, 3)}
        for fname in sorted(tu.funcs):
            body = tu.body(fname)
            if body is None or fname in normalise_h:
                continue
            nodes = list(tc.walk_stmts(body))
            parents = {}
            for x in nodes:
                for c in cfacts.kids(x):
                    parents[id(c)] = x
            # norms: direct sqrt(sum of squares) or returned by a norm helper
            norms = {did: (nm, {_vec_base(o) for o in ops}, ops) for did, (nm, ops) in _norm_defs(tu, fname).items()}
            for x in nodes:
                tgt = val = None
                if x.get("kind") == "BinaryOperator" and x.get("opcode") == "=":
                    l, r = cfacts.kids(x)
                    l = cfacts.strip(l)
                    if l.get("kind") == "DeclRefExpr":
                        tgt, val = l["referencedDecl"], cfacts.strip(r)
                elif x.get("kind") == "VarDecl":
                    ks = [c for c in cfacts.kids(x) if c.get("kind") != "FullComment"]
                    if ks:
                        tgt, val = {"id": x.get("id"), "name": x.get("name")}, cfacts.strip(ks[0])
                if tgt is not None and val.get("kind") == "CallExpr":
                    cal = cfacts.strip(cfacts.kids(val)[0]).get("referencedDecl", {}).get("name")
                    if cal in norm_h and len(cfacts.kids(val)) > 1 + norm_h[cal]:
                        vec = tc.norm_c(tu.text_of(cfacts.strip(cfacts.kids(val)[1 + norm_h[cal]])))
                        norms[tgt["id"]] = (tgt.get("name"), {_vec_base(vec)}, {vec + "[*]"})
            for did, (nname, bases, ops) in sorted(norms.items(), key=lambda kv: str(kv[1][0])):
                if len(bases) != 1:
                    continue
                vec = next(iter(bases))
                sites, other_denoms = [], []
                for x in nodes:
                    den = num = None
                    if x.get("kind") == "CompoundAssignOperator" and x.get("opcode") == "/=":
                        num, den = cfacts.kids(x)
                    elif x.get("kind") == "BinaryOperator" and x.get("opcode") == "/":
                        num, den = cfacts.kids(x)
                    if den is not None and _refs(den, did):
                        plain = cfacts.strip(den).get("kind") == "DeclRefExpr"
                        if plain and _vec_base(tc.norm_c(tu.text_of(cfacts.strip(num)))) == vec and \
                                cfacts.strip(num).get("kind") == "ArraySubscriptExpr":
                            sites.append((x, _dominated(x, did, parents)))
                        else:
                            other_denoms.append(x)
                    if x.get("kind") == "CallExpr":
                        cal = cfacts.strip(cfacts.kids(x)[0]).get("referencedDecl", {}).get("name")
                        if cal in normalise_h:
                            vi, ni, hg = normalise_h[cal]
                            args = cfacts.kids(x)[1:]
                            if len(args) > max(vi, ni) and _refs(args[ni], did) and \
                                    _vec_base(tc.norm_c(tu.text_of(cfacts.strip(args[vi])))) == vec:
                                sites.append((x, hg or _dominated(x, did, parents)))
                if not sites:
                    continue
                n_sites += 1
                first = sites[0][0]
                txt = " ".join(tu.text_of(first).split())
                inst = "%s:%s %s normalised by %s" % (rel, fname, vec, nname)
                unguarded = [x for x, g in sites if not g]
                if not unguarded:
                    chk.ok("unit-vector", inst + " [guarded, %d site(s)]" % len(sites))
                elif other_denoms:
                    chk.ok("unit-vector", inst + " [function singular at %s = 0: also %s]" % (
                        nname, " ".join(tu.text_of(other_denoms[0]).split())[:40]), nontrivial=False)
                elif fname not in reach:
                    chk.ok("unit-vector", inst + " [not reachable from python]", nontrivial=False)
                    chk.note("unit-vector", "%s:%s" % (rel, fname), "unguarded normalisation in a function no python code reaches")
                else:
                    x = unguarded[0]
                    chk.violation("unit-vector", F[rel], fname, " ".join(tu.text_of(x).split()), tu.line_of(x),
                                  "%s is the Euclidean norm of %s; for a grid point on the centre it is 0 and the division gives "
                                  "NaN (%d unguarded site(s)), although nothing else in %s is singular there (the harmonics are "
                                  "multiplied by r^l / radial functions finite at 0).  Test %s before dividing and use any unit "
                                  "vector when it is 0" % (nname, vec, len(unguarded), fname, nname), instance=inst)
    chk.count("vector normalisations", n_sites)


# ----------------------------------------------------------------------------------------------
# xyz-slots
# ----------------------------------------------------------------------------------------------
def _lib_func(v):
    """libcider.<name> or getattr(libcider, "<name>") -> name"""
    if isinstance(v, ast.Attribute) and isinstance(v.value, ast.Name) and v.value.id.startswith("lib") and v.value.id != "lib":
        return v.attr
    if isinstance(v, ast.Call) and pf.call_name(v) == "getattr" and len(v.args) >= 2 and isinstance(v.args[0], ast.Name) \
            and v.args[0].id.startswith("lib") and v.args[0].id != "lib" \
            and isinstance(v.args[1], ast.Constant) and isinstance(v.args[1].value, str):
        return v.args[1].value
    return None


def py_slot_calls(tree):
    """lcao_interpolation.py: calls that pass ctypes.c_int(V + a), c_int(V + b), c_int(V + c) in consecutive
    positions -> [(set of C function names, first position, (a,b,c), call node, enclosing function)]"""
    mod = tree.py(LI)
    out = []
    for call in ast.walk(mod):
        if not isinstance(call, ast.Call):
            continue
        offs = []
        encl = pf.enclosing_func(call)
        local = {}
        if encl is not None:
            for n_ in pf.walk_no_nested(encl):
                if isinstance(n_, ast.Assign) and len(n_.targets) == 1 and isinstance(n_.targets[0], ast.Name):
                    local.setdefault(n_.targets[0].id, []).append(n_.value)

        def base_off(e, depth=0):
            """V + c, V, or a local assigned once from such an expression -> (V, c)"""
            if isinstance(e, ast.BinOp) and isinstance(e.op, ast.Add) and isinstance(e.right, ast.Constant) \
                    and isinstance(e.right.value, int):
                b = base_off(e.left, depth + 1)
                return None if b is None else (b[0], b[1] + e.right.value)
            if isinstance(e, ast.Name):
                d = local.get(e.id, [])
                if len(d) == 1 and depth < 3 and isinstance(d[0], ast.BinOp) and isinstance(d[0].op, ast.Add) \
                        and isinstance(d[0].right, ast.Constant) and isinstance(d[0].left, ast.Name):
                    b = base_off(d[0], depth + 1)
                    if b is not None:
                        return b
                return (e.id, 0)
            return None

        for a in call.args:
            o = None
            if isinstance(a, ast.Call) and (pf.call_name(a) or "").split(".")[-1] in ("c_int", "c_int32") and len(a.args) == 1:
                o = base_off(a.args[0])
            offs.append(o)
        for i in range(len(offs) - 2):
            tri = offs[i:i + 3]
            if all(t is not None for t in tri) and len({t[0] for t in tri}) == 1 and \
                    sorted(t[1] for t in tri) == [0, 1, 2] and \
                    (i == 0 or offs[i - 1] is None or offs[i - 1][0] != tri[0][0]):
                fn = pf.enclosing_func(call)
                names = set()
                if _lib_func(call.func):
                    names.add(_lib_func(call.func))
                elif isinstance(call.func, ast.Name) and fn is not None:
                    for n in pf.walk_no_nested(fn):
                        if isinstance(n, ast.Assign) and len(n.targets) == 1 and isinstance(n.targets[0], ast.Name) \
                                and n.targets[0].id == call.func.id:
                            for v in ([n.value.body, n.value.orelse] if isinstance(n.value, ast.IfExp) else [n.value]):
                                if _lib_func(v):
                                    names.add(_lib_func(v))
                if not names:
                    raise core.AnalysisError("%s:%d: cannot resolve the libcider function of a call passing "
                                             "three consecutive slot indices" % (LI, call.lineno))
                out.append((names, i, tuple(t[1] for t in tri), call, pf.qualname(fn) if fn else "<module>"))
                break
    return out


def c_slot_components(tu, fname, pos):
    """{k: Cartesian component} for the three int parameters at positions pos..pos+2 of `fname`: the
    component of the interleaved xyz element (index 3*i + c) that shares a product, or a store, with
    the feature element indexed by parameter k."""
    ps = tu.params(fname)
    if pos + 2 >= len(ps) or any(tc.ptype(p) != "int" for p in ps[pos:pos + 3]):
        raise core.AnalysisError("%s: parameters #%d..#%d are not three ints" % (fname, pos, pos + 2))
    roles = {}
    for i, p in enumerate(ps):
        t = tc.ptype(p)
        if pos <= i < pos + 3:
            roles[p["id"]] = "SLOT%d" % (i - pos)
        elif t in ("int", "size_t"):
            roles[p["id"]] = "param:" + p.get("name", "?")
        elif t.endswith("*"):
            roles[p["id"]] = "arr%d" % i
    ev = tc.Ev(tu)
    ev.inline_calls = True
    env = tc.new_env(roles)
    ev.block(tu.body(fname), env)

    def slots_in(ix):
        out = set()
        for mm, cc in ix.t.items():
            for a, e in mm:
                if a[0] == "sym" and a[1].startswith("SLOT"):
                    out.add(int(a[1][4:]))
        return out

    def xyz_comp(ix):
        """component of an interleaved xyz index (some symbol or element has coefficient 3)"""
        has3 = any(cc == 3 and mm != () for mm, cc in ix.t.items())
        if not has3:
            return None
        c0 = ix.t.get((), Fr(0))
        if c0.denominator != 1 or not (0 <= c0 <= 2):
            return None
        return int(c0)

    pairs = {}
    for s in env["stores"]:
        st_slots = slots_in(s["index"])
        st_comp = xyz_comp(s["index"])
        for m, c in s["value"].t.items():
            sl = set(st_slots)
            comps = set() if st_comp is None else {st_comp}
            for a, e in m:
                if a[0] != "elem":
                    continue
                ix = Poly(dict(a[2]))
                sl |= slots_in(ix)
                xc = xyz_comp(ix)
                if xc is not None and not slots_in(ix):
                    comps.add(xc)
            if len(sl) == 1 and len(comps) == 1:
                pairs.setdefault(next(iter(sl)), set()).add(next(iter(comps)))
            elif len(sl) == 1 and len(comps) > 1:
                pairs.setdefault(next(iter(sl)), set()).update(comps)
    return pairs


def rule_xyz_slots(chk, tus):
    tu = tus[C_INTERP]
    calls = py_slot_calls(chk.tree)
    chk.count("python call sites with slot triples", len(calls))
    for names, pos, offs, call, pyfn in calls:
        for name in sorted(names):
            if name not in tu.funcs:
                raise core.AnalysisError("%s:%s calls libcider.%s, which is not defined in %s" % (LI, pyfn, name, C_INTERP))
            pairs = c_slot_components(tu, name, pos)
            for k in range(3):
                inst = "%s -> %s parameter #%d (slot +%d)" % (pyfn, name, pos + k, offs[k])
                got = pairs.get(k)
                if not got:
                    raise core.AnalysisError("%s: parameter #%d is never paired with a Cartesian component" % (name, pos + k))
                if got == {offs[k]}:
                    chk.ok("xyz-slots", inst, detail="component %s" % AXES[offs[k]])
                else:
                    pname = tu.params(name)[pos + k].get("name")
                    chk.violation("xyz-slots", F[C_INTERP], name, "%s <-> component %s" % (pname, sorted(got)),
                                  tu.line_of(tu.func(name)),
                                  "%s passes slot +%d as parameter %s of %s, which pairs it with Cartesian component(s) %s; "
                                  "slot +c must carry component c (fill_l1_coeff_* and the density-gradient contraction "
                                  "use that layout)" % (pyfn, offs[k], pname, name,
                                                        ",".join(AXES[c] for c in sorted(got))), instance=inst)
    # fill_l1_coeff_*: python passes column offset 3*i1; C must write component c to column offset+c with the
    # rows of component c (checked against the table in l1-order); here: the three components are distinct
    for fn in ("fill_l1_coeff_fwd", "fill_l1_coeff_bwd"):
        try:
            ra = c_gaunt_row_axes(tu, fn, 2, 1, ("nlm",), None)
        except StrideMismatch:
            continue  # reported by l1-order
        inst = "%s column offsets %s" % (fn, sorted(set(ra.values())))
        if sorted(set(ra.values())) == [0, 1, 2]:
            chk.ok("xyz-slots", inst)
        else:
            chk.violation("xyz-slots", F[C_INTERP], fn, "columns %s" % sorted(ra.items()), tu.line_of(tu.func(fn)),
                          "the three Cartesian derivative columns must be offset+0, +1, +2 (python allocates 3 per "
                          "feature); found %s" % sorted(ra.items()), instance=inst)


# ----------------------------------------------------------------------------------------------
# translation
# ----------------------------------------------------------------------------------------------
def coord_functions(tu):
    """functions with a grid-coordinate pointer and an atom-coordinate pointer (parameter names from the
    frozen lists; an atom pointer may also be a local computed from env + atm[PTR_COORD ...])"""
    out = []
    for fname, f in tu.funcs.items():
        ps = tu.params(fname)
        seeds = {}
        for p in ps:
            t = tc.ptype(p)
            if t == "double *":
                if p.get("name") in G_NAMES:
                    seeds[p["id"]] = "G"
                elif p.get("name") in A_NAMES:
                    seeds[p["id"]] = "A"
        if "G" not in seeds.values():
            continue
        body = tu.body(fname)
        if body is None:
            continue
        for n in tc.walk_stmts(body):
            src = None
            if n.get("kind") == "VarDecl" and tc.base_type(n.get("type", {}).get("qualType", "")) == "double *":
                ks = [c for c in cfacts.kids(n) if c.get("kind") != "FullComment"]
                if ks and "PTR_COORD" in tu.text_of(ks[0]):
                    seeds[n["id"]] = "A"
            elif n.get("kind") == "BinaryOperator" and n.get("opcode") == "=":
                l, r = cfacts.kids(n)
                l = cfacts.strip(l)
                if l.get("kind") == "DeclRefExpr" and tc.base_type(l.get("type", {}).get("qualType", "")) == "double *" \
                        and "PTR_COORD" in tu.text_of(r):
                    seeds[l["referencedDecl"]["id"]] = "A"
        if "A" in seeds.values():
            out.append((fname, seeds))
    return out


def rule_translation(chk, tus):
    nfun = 0
    for rel in (C_INTERP, C_SDMX):
        tu = tus[rel]
        for fname, seeds in sorted(coord_functions(tu)):
            nfun += 1
            cu = tc.CoordUse(tu, fname, seeds)
            uses = cu.uses()
            nread = 0
            # an output array that receives some components as differences and others as bare copies
            tkinds = {}
            for u in uses:
                if u.get("target") and u["kind"] in ("difference", "copy"):
                    tkinds.setdefault(u["target"], set()).add(u["kind"])
            mixed = {t for t, ks in tkinds.items() if len(ks) > 1}
            for u in uses:
                txt = " ".join(tu.text_of(u["node"]).split())
                line = tu.line_of(u["node"])
                kind_name = "grid" if u["role"] == "G" else "atom"
                inst = "%s:%s %s read %s" % (rel, fname, kind_name, txt)
                if u["comp"] is None:
                    raise core.AnalysisError("%s:%d %s: cannot tell the Cartesian component of %s" % (rel, line, fname, txt))
                nread += 1
                if u["kind"] == "difference":
                    orole, ocomp = u["other"]
                    if ocomp is None:
                        raise core.AnalysisError("%s:%d %s: cannot tell the component of the other operand" % (rel, line, fname))
                    if ocomp == u["comp"]:
                        chk.ok("translation", inst + " [%s-%s %s]" % (u["role"], orole, _axis(ocomp)))
                    else:
                        st = " ".join(tu.text_of(u["stmt"]).split())
                        chk.violation("translation", F[rel], fname, st, line,
                                      "%s component of a %s coordinate is subtracted from the %s component of a%s "
                                      "coordinate: a common shift of all positions does not cancel" % (
                                          _axis(u["comp"]), kind_name, _axis(ocomp), "n atom" if orole == "A" else " grid"),
                                      instance=inst)
                elif u["kind"] == "copy" and u.get("target") in mixed:
                    st = " ".join(tu.text_of(u["other"]).split())
                    chk.violation("translation", F[rel], fname, st, line,
                                  "%s coordinate %s is stored as it is into an array whose other components are stored as "
                                  "differences with the atom position: this component keeps the absolute position" % (
                                      kind_name, txt), instance=inst)
                elif u["kind"] == "copy":
                    if u.get("tracked"):
                        chk.ok("translation", inst + " [copy]", nontrivial=False)
                    else:
                        raise core.AnalysisError("%s:%d %s: coordinate %s is copied into a variable that is also "
                                                 "assigned otherwise; the copy cannot be followed" % (rel, line, fname, txt))
                else:
                    par = u["other"]
                    st = " ".join(tu.text_of(par).split())
                    chk.violation("translation", F[rel], fname, st, line,
                                  "%s coordinate %s enters `%s` on its own, not as a difference with the same component "
                                  "of an atom/grid coordinate: the result changes when molecule and grid are translated "
                                  "together" % (kind_name, txt, st[:90]), instance=inst)
            if not _mentions(tu, fname, seeds):
                chk.note("translation", "%s:%s" % (rel, fname), "coordinate parameters are never referenced (stub)")
                continue
            if not any(u["role"] == "G" for u in uses) and not _passes_pointer(tu, fname, seeds):
                raise core.AnalysisError("%s:%s has coordinate parameters but no recognised use of them" % (rel, fname))
    chk.count("functions with grid and atom coordinates", nfun)


def _axis(c):
    return AXES[c] if isinstance(c, int) and 0 <= c <= 2 else "[%s]" % c


def _mentions(tu, fname, seeds):
    return any(x.get("kind") == "DeclRefExpr" and x.get("referencedDecl", {}).get("id") in seeds
               for x in tc.walk_stmts(tu.body(fname)))


def _passes_pointer(tu, fname, seeds):
    for n in tc.walk_stmts(tu.body(fname)):
        if n.get("kind") == "CallExpr":
            for a in cfacts.kids(n)[1:]:
                for x in cfacts.walk(a):
                    if x.get("kind") == "DeclRefExpr" and x.get("referencedDecl", {}).get("id") in seeds:
                        return True
    return False


# ----------------------------------------------------------------------------------------------
# setup-invariance: python set-up quantities derived from atomic positions
# ----------------------------------------------------------------------------------------------
SETUP_GLOBS = ["ciderpress/pyscf/*.py", "ciderpress/dft/lcao_*.py", "ciderpress/dft/grids_indexer.py"]
POS_PARAMS = ("atom_coords", "atom_coord", "atm_coord", "atm_coords")


def rule_setup_invariance(chk):
    from sa import posflow
    rels = []
    for g in SETUP_GLOBS:
        rels += [r for r in chk.tree.glob(g) if "/tests/" not in r]
    if len(rels) < 8:
        raise core.AnalysisError("set-up modules not found (%d files)" % len(rels))
    nsrc = ninv = 0
    for rel in sorted(set(rels)):
        mod = chk.tree.py(rel)
        for fn in ast.walk(mod):
            if not isinstance(fn, (ast.FunctionDef, ast.AsyncFunctionDef)):
                continue
            mentions = any((isinstance(n, ast.Attribute) and n.attr in posflow.SOURCES) or
                           (isinstance(n, ast.arg) and n.arg in POS_PARAMS) for n in ast.walk(fn))
            if not mentions:
                continue
            ff = posflow.FunctionFlow(rel, fn, POS_PARAMS).run()
            q = pf.qualname(fn)
            bad_origins = {id(f[0]) for f in ff.findings}
            for src in ff.sources:
                nsrc += 1
                chk.ok("setup-invariance", "%s:%s positions from %s" % (rel, q, pf.src(src)[:60]), nontrivial=bool(ff.invariants))
            for inv in ff.invariants:
                ninv += 1
                chk.ok("setup-invariance", "%s:%s invariant reduction %s" % (rel, q, pf.src(inv)[:80]))
            for origin, why, sink, what in ff.findings:
                chk.violation("setup-invariance", rel, q, pf.src(origin), getattr(origin, "lineno", fn.lineno),
                              "`%s` %s; the result is %s (line %s).  A quantity derived from atomic positions must be "
                              "built from differences of positions reduced by norm / dot / sum of squares over the "
                              "Cartesian axis, otherwise it changes when the molecule is rotated or translated" % (
                                  pf.src(origin)[:90], why, what, getattr(sink, "lineno", "?")),
                              instance="%s:%s %s -> %s" % (rel, q, pf.src(origin)[:60], what))
    chk.count("position sources in set-up code", nsrc)
    chk.count("invariant reductions recognised", ninv)


# ----------------------------------------------------------------------------------------------
# array-order: memory order of coordinate arrays on the python side == the way the C entry point indexes them
# ----------------------------------------------------------------------------------------------
ORDER_PY = ["ciderpress/pyscf/sdmx.py", "ciderpress/pyscf/sdmx_slow.py"]


def _c_coord_layouts(tu):
    """{function: {param index: 'interleaved' | 'planar'}} for coordinate pointer parameters (frozen names) from the
    element indices the function uses: 3*i + c (C-ordered (n,3)) or c*n + i with n an integer parameter (F-ordered)"""
    out = {}
    for fname in tu.funcs:
        ps = tu.params(fname)
        seeds = {p["id"]: ("G" if p.get("name") in G_NAMES else "A") for p in ps
                 if tc.ptype(p) == "double *" and p.get("name") in (G_NAMES | A_NAMES)}
        if not seeds or tu.body(fname) is None:
            continue
        try:
            cu = tc.CoordUse(tu, fname, seeds)
        except core.AnalysisError:
            continue
        kinds = {}
        for n in cu.nodes:
            if n.get("kind") != "ArraySubscriptExpr":
                continue
            base, idx = cfacts.kids(n)
            r = cu._root(base)
            if r is None:
                continue
            root = r[0]
            while root in cu.alias:
                root = cu.alias[root][0]
            if root not in seeds:
                continue
            total = r[1] + cu._idx(idx)
            k = None
            for m, c in total.t.items():
                if len(m) == 1 and m[0][1] == 1 and m[0][0][0] == "sym":
                    if c == 3:
                        k = "interleaved"
                    elif m[0][0][1] in cu.int_params and k is None and c.denominator == 1 and 0 < c <= 2:
                        k = "planar"
            if k:
                kinds.setdefault(root, set()).add(k)
        pidx = {p["id"]: i for i, p in enumerate(ps)}
        lay = {pidx[r_]: next(iter(ks)) for r_, ks in kinds.items() if len(ks) == 1 and r_ in pidx}
        if lay:
            out[fname] = lay
    return out


def _py_order(e, fn, depth=0):
    """'C' / 'F' / None for the array behind a ctypes argument expression"""
    while isinstance(e, (ast.Call, ast.Attribute)) and not (isinstance(e, ast.Call) and (pf.call_name(e) or "").split(".")[-1] in (
            "asfortranarray", "ascontiguousarray", "asarray", "array", "require")):
        e = e.func if isinstance(e, ast.Call) else e.value
    if isinstance(e, ast.Call):
        nm = (pf.call_name(e) or "").split(".")[-1]
        if nm == "asfortranarray":
            return "F"
        if nm == "ascontiguousarray":
            return "C"
        for k in e.keywords:
            if k.arg == "order" and isinstance(k.value, ast.Constant):
                return str(k.value.value).upper() if str(k.value.value).upper() in ("C", "F") else None
        return None
    if isinstance(e, ast.Name) and depth < 3:
        defs = [st.value for st in pf.walk_no_nested(fn) if isinstance(st, ast.Assign) and len(st.targets) == 1
                and isinstance(st.targets[0], ast.Name) and st.targets[0].id == e.id]
        orders = {_py_order(d, fn, depth + 1) for d in defs}
        return orders.pop() if len(orders) == 1 else None
    return None


def rule_array_order(chk, tus):
    """A (n, 3) coordinate array is handed to C as a bare pointer: np.ascontiguousarray gives x0 y0 z0 x1 ... (the C side
    must index 3*i + c), np.asfortranarray gives all x, then all y ... (c*n + i).  For every call whose argument order can
    be read off in the calling function, it must match the indexing of that C entry point."""
    tu = tus[C_SDMX]
    lay = _c_coord_layouts(tu)
    n = 0
    for rel in ORDER_PY:
        mod = chk.tree.py(rel)
        for fn in [f for f in ast.walk(mod) if isinstance(f, ast.FunctionDef)]:
            # argument lists built as a list literal (+ appends) and splatted
            lists = {}
            for st in pf.walk_no_nested(fn):
                if isinstance(st, ast.Assign) and len(st.targets) == 1 and isinstance(st.targets[0], ast.Name) \
                        and isinstance(st.value, ast.List):
                    lists[st.targets[0].id] = list(st.value.elts)
            for st in sorted((x for x in pf.walk_no_nested(fn) if isinstance(x, ast.Call)), key=lambda x: x.lineno):
                if isinstance(st.func, ast.Attribute) and st.func.attr == "append" and isinstance(st.func.value, ast.Name) \
                        and st.func.value.id in lists and len(st.args) == 1:
                    lists[st.func.value.id].append(st.args[0])
            fnvars = {}
            for st in pf.walk_no_nested(fn):
                if isinstance(st, ast.Assign) and len(st.targets) == 1 and isinstance(st.targets[0], ast.Name) and _lib_func(st.value):
                    fnvars.setdefault(st.targets[0].id, set()).add(_lib_func(st.value))
            for call in pf.walk_no_nested(fn):
                if not isinstance(call, ast.Call):
                    continue
                names = {_lib_func(call.func)} if _lib_func(call.func) else fnvars.get(call.func.id, set()) \
                    if isinstance(call.func, ast.Name) else set()
                args = list(call.args)
                if len(args) == 1 and isinstance(args[0], ast.Starred) and isinstance(args[0].value, ast.Name) \
                        and args[0].value.id in lists:
                    args = lists[args[0].value.id]
                for cname in sorted(x for x in names if x in lay):
                    for pi, want in sorted(lay[cname].items()):
                        if pi >= len(args):
                            continue
                        order = _py_order(args[pi], fn)
                        if order is None:
                            continue
                        n += 1
                        pname = tu.params(cname)[pi].get("name")
                        inst = "%s:%s -> %s(%s): python order %s, C indexing %s" % (rel, pf.qualname(fn), cname, pname, order, want)
                        if (order == "C") == (want == "interleaved"):
                            chk.ok("array-order", inst)
                        else:
                            chk.violation("array-order", F[C_SDMX], cname, "%s indexed %s" % (pname, want), tu.line_of(tu.func(cname)),
                                          "%s passes `%s` in %s order (%s) but %s reads %s as %s" % (
                                              pf.qualname(fn), pf.src(args[pi])[:50], order,
                                              "x0 y0 z0 x1 ..." if order == "C" else "all x, all y, all z", cname, pname,
                                              "3*i + c" if want == "interleaved" else "c*n + i"), instance=inst)
    chk.count("coordinate arguments with known memory order", n)


# ----------------------------------------------------------------------------------------------
# mole-rebuild: a Mole made from mol.atom keeps the unit mol.atom is written in
# ----------------------------------------------------------------------------------------------
MOLE_GLOBS = ["ciderpress/pyscf/*.py", "ciderpress/dft/lcao_*.py"]
BOHR = {"bohr", "b", "au", "a.u."}


def rule_mole_rebuild(chk):
    """`mol.atom` is the geometry as the user typed it, in `mol.unit`.  A second Mole built from it (gto.M(atom=mol.atom,
    ...), or Mole(); x.atom = mol.atom; x.build()) re-parses those numbers: unless unit=mol.unit is forwarded too, a
    geometry given in Bohr is read as Angstrom and every position handed on is scaled by 1.89."""
    n = 0
    for g in MOLE_GLOBS:
        for rel in chk.tree.glob(g):
            if "/tests/" in rel:
                continue
            mod = chk.tree.py(rel)
            for fn in [f for f in ast.walk(mod) if isinstance(f, (ast.FunctionDef, ast.AsyncFunctionDef))]:
                q = pf.qualname(fn)
                # (a) constructor with atom=<X>.atom
                for call in pf.walk_no_nested(fn):
                    if not isinstance(call, ast.Call):
                        continue
                    kw = {k.arg: k.value for k in call.keywords if k.arg}
                    a = kw.get("atom")
                    if a is None or not (isinstance(a, ast.Attribute) and a.attr in ("atom", "_atom")):
                        continue
                    n += 1
                    src = pf.src(a.value)
                    inst = "%s:%s %s(atom=%s, ...)" % (rel, q, pf.src(call.func), pf.src(a))
                    u = kw.get("unit")
                    good = u is not None and ((a.attr == "atom" and pf.src(u) == src + ".unit") or
                                              (a.attr == "_atom" and isinstance(u, ast.Constant) and str(u.value).lower() in BOHR))
                    if good:
                        chk.ok("mole-rebuild", inst)
                    else:
                        chk.violation("mole-rebuild", rel, q, pf.src(call)[:140], call.lineno,
                                      "a Mole is built from %s but unit=%s is not passed (%s): the coordinates are re-read in the "
                                      "default unit (Angstrom)" % (pf.src(a), src + ".unit" if a.attr == "atom" else "'Bohr'",
                                                                   "unit=%s" % pf.src(u) if u is not None else "no unit keyword"),
                                      instance=inst)
                # (b) attribute style: new.atom = <X>.atom
                for st in pf.walk_no_nested(fn):
                    if isinstance(st, ast.Assign) and len(st.targets) == 1 and isinstance(st.targets[0], ast.Attribute) \
                            and st.targets[0].attr == "atom" and isinstance(st.value, ast.Attribute) and st.value.attr == "atom":
                        n += 1
                        new, old_ = pf.src(st.targets[0].value), pf.src(st.value.value)
                        inst = "%s:%s %s.atom = %s.atom" % (rel, q, new, old_)
                        ok_ = any(isinstance(x, ast.Assign) and len(x.targets) == 1 and pf.src(x.targets[0]) == new + ".unit"
                                  and pf.src(x.value) == old_ + ".unit" for x in pf.walk_no_nested(fn))
                        if ok_:
                            chk.ok("mole-rebuild", inst)
                        else:
                            chk.violation("mole-rebuild", rel, q, pf.src(st), st.lineno,
                                          "%s takes the geometry text of %s but not its unit (%s.unit = %s.unit is missing): the "
                                          "coordinates are re-read in the default unit (Angstrom)" % (new, old_, new, old_),
                                          instance=inst)
    if n == 0:
        chk.ok("mole-rebuild", "no Mole is rebuilt from another Mole's atom specification", nontrivial=False)
    chk.count("Mole reconstructions", n)


# ----------------------------------------------------------------------------------------------
# atom-order: per-atom blocks are concatenated in atom order
# ----------------------------------------------------------------------------------------------
def _is_natm_range(it):
    return isinstance(it, ast.Call) and pf.call_name(it) == "range" and len(it.args) == 1 and (
        (isinstance(it.args[0], ast.Attribute) and it.args[0].attr == "natm") or
        (isinstance(it.args[0], ast.Name) and it.args[0].id == "natm"))


def rule_atom_order(chk):
    """AtomicGridsIndexer.from_tabs and its siblings in the key-domain files build flat arrays by appending one block per
    atom; the consumers (grid coordinates, ar_loc/ra_loc look-ups) assume block i belongs to atom i.  Every statement
    that appends inside a loop over atom indices must therefore run in a `for ia in range(natm)` loop that is not nested
    in another loop; a loop over atom indices regrouped by some key (for key, atoms in groups.items(): for ia in atoms)
    appends in first-appearance order of the keys."""
    n = 0
    for rel in KEY_FILES:
        mod = chk.tree.py(rel)
        for fn in [f for f in ast.walk(mod) if isinstance(f, ast.FunctionDef)]:
            loops = [x for x in pf.walk_no_nested(fn) if isinstance(x, ast.For)]
            atom_vars = {x.target.id for x in loops if _is_natm_range(x.iter) and isinstance(x.target, ast.Name)}
            if not atom_vars:
                continue
            # containers that collect atom indices: D.setdefault(k, []).append(ia) / D[k].append(ia) / L.append(ia)
            idx_lists = set()
            for c in pf.walk_no_nested(fn):
                if isinstance(c, ast.Call) and isinstance(c.func, ast.Attribute) and c.func.attr == "append" and len(c.args) == 1 \
                        and isinstance(c.args[0], ast.Name) and c.args[0].id in atom_vars:
                    b = pf.base_name(c.func.value)
                    if b is None and isinstance(c.func.value, ast.Call):
                        b = pf.base_name(c.func.value.func)
                    if b:
                        idx_lists.add(b)
            regrouped = {}  # loop node -> text
            for x in loops:
                it = x.iter
                # for k, atoms in D.items() / for atoms in D.values(): names bound to lists of atom indices
                if isinstance(it, ast.Call) and isinstance(it.func, ast.Attribute) and it.func.attr in ("items", "values") \
                        and pf.base_name(it.func.value) in idx_lists:
                    tgt = x.target.elts[-1] if isinstance(x.target, ast.Tuple) else x.target
                    if isinstance(tgt, ast.Name):
                        regrouped[tgt.id] = x
            sec_loops = [x for x in loops if (isinstance(x.iter, ast.Name) and (x.iter.id in regrouped or x.iter.id in idx_lists))
                         or (isinstance(x.iter, ast.Subscript) and pf.base_name(x.iter) in idx_lists)]
            for x in loops:
                is_atom = _is_natm_range(x.iter) or x in sec_loops
                if not is_atom:
                    continue
                appends = [c for c in ast.walk(x) if (isinstance(c, ast.Call) and isinstance(c.func, ast.Attribute)
                                                      and c.func.attr in ("append", "extend") and pf.base_name(c.func.value) not in idx_lists
                                                      and not (isinstance(c.func.value, ast.Call)))
                           or (isinstance(c, ast.Call) and (pf.call_name(c) or "").endswith("np.append"))]
                if not appends:
                    continue
                n += 1
                q = pf.qualname(fn)
                inst = "%s:%s blocks appended in `for %s in %s`" % (rel, q, pf.src(x.target), pf.src(x.iter)[:40])
                outer = pf.enclosing(x, (ast.For, ast.While))
                while outer is not None and pf.enclosing_func(outer) is not fn:
                    outer = None
                if _is_natm_range(x.iter) and outer is None:
                    chk.ok("atom-order", inst)
                else:
                    chk.violation("atom-order", rel, q, "for %s in %s" % (pf.src(x.target), pf.src(x.iter)[:60]), x.lineno,
                                  "per-atom blocks are appended while iterating %s%s, i.e. grouped by key in first-appearance "
                                  "order, not in atom order 0..natm-1: the flat arrays (radial locations, atom-of-radial-shell "
                                  "maps) no longer line up with the atom-ordered grids for molecules like H-O-H" % (
                                      pf.src(x.iter)[:40], " inside `for %s in %s`" % (pf.src(outer.target), pf.src(outer.iter)[:40])
                                      if outer is not None else ""), instance=inst)
    chk.count("per-atom accumulation loops", n)
    if n == 0:
        raise core.AnalysisError("no per-atom accumulation loop found in %s" % KEY_FILES)


# ----------------------------------------------------------------------------------------------
# key-domain: per-atom tables are written and read with the same kind of key
# ----------------------------------------------------------------------------------------------
KEY_FUNCS = ("atom_symbol", "atom_pure_symbol")
KEY_FILES = ["ciderpress/pyscf/gen_cider_grid.py", "ciderpress/dft/grids_indexer.py"]


def _key_kinds(fn):
    """{local name: key function} for names assigned (only) from mol.<key function>(...)"""
    kinds = {}
    assigns = sorted((n for n in pf.walk_no_nested(fn) if isinstance(n, ast.Assign)), key=lambda n: (n.lineno, n.col_offset))
    for n in assigns:
        if len(n.targets) == 1 and isinstance(n.targets[0], ast.Name):
            v = n.value
            k = v.func.attr if isinstance(v, ast.Call) and isinstance(v.func, ast.Attribute) and v.func.attr in KEY_FUNCS else None
            if k is None and isinstance(v, ast.Name) and kinds.get(v.id):
                k = kinds[v.id]  # plain copy of a key
            nm = n.targets[0].id
            if nm in kinds and kinds[nm] != k:
                kinds[nm] = "<mixed>"
            elif nm not in kinds:
                kinds[nm] = k
    # dictionaries keyed by a classified key, and loop variables that run over their keys
    dkind = {}
    for n in pf.walk_no_nested(fn):
        k = t = None
        if isinstance(n, ast.Call) and isinstance(n.func, ast.Attribute) and n.func.attr == "setdefault" and n.args \
                and isinstance(n.func.value, ast.Name):
            t, k = n.func.value.id, _kind_of(n.args[0], kinds)
        elif isinstance(n, ast.Subscript) and isinstance(n.ctx, ast.Store) and isinstance(n.value, ast.Name):
            t, k = n.value.id, _kind_of(n.slice, kinds)
        if t and k and k != "<mixed>":
            dkind.setdefault(t, k)
    for n in pf.walk_no_nested(fn):
        if isinstance(n, ast.For):
            it, tg = n.iter, n.target
            d = None
            if isinstance(it, ast.Call) and isinstance(it.func, ast.Attribute) and it.func.attr in ("items", "keys") \
                    and isinstance(it.func.value, ast.Name):
                d = it.func.value.id
                tg = tg.elts[0] if (it.func.attr == "items" and isinstance(tg, ast.Tuple) and tg.elts) else tg
            elif isinstance(it, ast.Name):
                d = it.id
            if d in dkind and isinstance(tg, ast.Name) and tg.id not in kinds:
                kinds[tg.id] = dkind[d]
    return {a: b for a, b in kinds.items() if b}


def _kind_of(e, kinds):
    if isinstance(e, ast.Name):
        return kinds.get(e.id)
    if isinstance(e, ast.Call) and isinstance(e.func, ast.Attribute) and e.func.attr in KEY_FUNCS:
        return e.func.attr
    return None


def _table_accesses(fn, kinds):
    """[(table name, key kind, node, 'store'|'load'|'member')] for T[k] and `k in T` with a classified key"""
    out = []
    for n in pf.walk_no_nested(fn):
        if isinstance(n, ast.Subscript) and isinstance(n.value, ast.Name):
            k = _kind_of(n.slice, kinds)
            if k:
                out.append((n.value.id, k, n, "store" if isinstance(n.ctx, ast.Store) else "load"))
        if isinstance(n, ast.Compare) and len(n.ops) == 1 and isinstance(n.ops[0], (ast.In, ast.NotIn)) \
                and isinstance(n.comparators[0], ast.Name):
            k = _kind_of(n.left, kinds)
            if k:
                out.append((n.comparators[0].id, k, n, "member"))
    return out


MUTATORS = ("append", "add", "extend", "update", "insert", "setdefault", "pop", "remove")


def _assigned_names(stmts):
    out = set()
    for st in stmts:
        for x in ast.walk(st):
            tgts = []
            if isinstance(x, ast.Assign):
                tgts = x.targets
            elif isinstance(x, (ast.AugAssign, ast.AnnAssign)):
                tgts = [x.target]
            elif isinstance(x, ast.For):
                tgts = [x.target]
            elif isinstance(x, ast.Call) and isinstance(x.func, ast.Attribute) and x.func.attr in MUTATORS \
                    and isinstance(x.func.value, ast.Name):
                out.add(x.func.value.id)
            for t in tgts:
                for y in ast.walk(t):
                    if isinstance(y, ast.Name) and isinstance(y.ctx, ast.Store):
                        out.add(y.id)
    return out


def _stale_reads(chk, rel, q, fn, ifnode, block, other, kind):
    """`for atom ...: if key not in D: <block>`: a variable that, inside the loop, is advanced only in the
    once-per-key block (running array / total / per-key temporary) holds, for every later atom of an already
    seen key, the state left by the LAST appended key.  Reading it elsewhere in the loop body gives that atom a
    value that belongs to another key; per-key state has to be read back from a table indexed by the key."""
    loop = pf.enclosing(ifnode, (ast.For, ast.While))
    encl = pf.enclosing_func(ifnode)
    if loop is None or encl is not fn:
        return
    container = ifnode.test.comparators[0].id if isinstance(ifnode.test.comparators[0], ast.Name) else None
    local_names = {a.arg for a in fn.args.args + fn.args.kwonlyargs} | {
        y.id for y in ast.walk(fn) if isinstance(y, ast.Name) and isinstance(y.ctx, ast.Store)}
    adv = (_assigned_names(block) & local_names) - {container}  # (np.append(...) does not mutate `np`)
    if isinstance(loop, ast.For):
        adv -= {y.id for y in ast.walk(loop.target) if isinstance(y, ast.Name)}
    in_if = {id(x) for x in ast.walk(ifnode)}
    outside_stmts = [st for st in ast.walk(loop) if isinstance(st, ast.stmt) and id(st) not in in_if and st is not loop]
    adv -= _assigned_names(other)
    adv -= _assigned_names([st for st in outside_stmts if not any(id(c) in in_if for c in ast.walk(st))])
    in_block = {id(x) for st in block for x in ast.walk(st)}
    inst = "%s:%s state advanced only under `%s` is not read elsewhere in the loop" % (rel, q, pf.src(ifnode.test))
    bad = []
    for x in ast.walk(loop):
        if isinstance(x, ast.Name) and isinstance(x.ctx, ast.Load) and x.id in adv and id(x) not in in_block:
            bad.append(x)
    if not bad:
        chk.ok("key-domain-stale", inst, nontrivial=bool(adv))
        return
    x = bad[0]
    st = x
    while st is not None and not isinstance(st, ast.stmt):
        st = pf.parent(st)
    chk.violation("key-domain-stale", rel, q, pf.src(st)[:140] if st is not None else x.id, x.lineno,
                  "`%s` is advanced only inside the block executed once per %s key (`%s`), but it is read here for every "
                  "atom: for an atom whose key was already seen it still holds the state left by the most recently "
                  "appended key (two atoms of one kind separated by another kind get the other kind's offset). Record the "
                  "per-key value in a table indexed by the key when the block runs and read it back" % (
                      x.id, kind, pf.src(ifnode.test)), instance=inst)


def rule_key_domain(chk):
    funcs = {}
    for rel in KEY_FILES:
        mod = chk.tree.py(rel)
        for fn in ast.walk(mod):
            if isinstance(fn, (ast.FunctionDef, ast.AsyncFunctionDef)):
                funcs.setdefault(fn.name, []).append((rel, fn))
    table_kind = {}  # (rel, qualname, table) -> kind
    n_tabs = 0
    for name, lst in sorted(funcs.items()):
        for rel, fn in lst:
            kinds = _key_kinds(fn)
            acc = _table_accesses(fn, kinds)
            q = pf.qualname(fn)
            by_tab = {}
            for t, k, node, how in acc:
                by_tab.setdefault(t, []).append((k, node, how))
            for t, lst2 in sorted(by_tab.items()):
                ks = sorted({k for k, _, _ in lst2})
                inst = "%s:%s table %s keyed by %s" % (rel, q, t, "/".join(ks))
                n_tabs += 1
                if len(ks) == 1 and ks[0] != "<mixed>":
                    chk.ok("key-domain", inst)
                    table_kind[(rel, q, t)] = ks[0]
                else:
                    node = lst2[-1][1]
                    chk.violation("key-domain", rel, q, "%s accessed with %s" % (t, ", ".join(ks)), node.lineno,
                                  "table %s is indexed with keys produced by different key functions (%s): atoms whose "
                                  "label differs from the element symbol ('O1', 'O2') hit the wrong entry or none" % (
                                      t, ", ".join(ks)), instance=inst)
            # memo guards: `if k2 not in D:` body (or the else of `if k2 in D:`) reading T[k1] with another key kind
            for n in pf.walk_no_nested(fn):
                if not isinstance(n, ast.If) or not isinstance(n.test, ast.Compare) or len(n.test.ops) != 1:
                    continue
                op = n.test.ops[0]
                if not isinstance(op, (ast.In, ast.NotIn)):
                    continue
                k2 = _kind_of(n.test.left, kinds)
                if not k2:
                    continue
                block = n.body if isinstance(op, ast.NotIn) else n.orelse
                inst = "%s:%s once-per-%s block at `%s`" % (rel, q, k2, pf.src(n.test))
                bad = []
                for st in block:
                    for x in ast.walk(st):
                        if isinstance(x, ast.Subscript) and isinstance(x.ctx, ast.Load):
                            k1 = _kind_of(x.slice, kinds)
                            if k1 and k1 != k2:
                                bad.append((x, k1))
                # state that only this block advances must not be read elsewhere in the same loop body
                _stale_reads(chk, rel, q, fn, n, block, n.orelse if isinstance(op, ast.NotIn) else n.body, k2)
                if bad:
                    x, k1 = bad[0]
                    chk.violation("key-domain", rel, q, "%s under `%s`" % (pf.src(x), pf.src(n.test)), x.lineno,
                                  "a block executed once per %s key reads %s, which is keyed by %s: atoms that share the "
                                  "%s but not the %s (labelled atoms with their own grids) get the data of the first one" % (
                                      k2, pf.src(x), k1, k2, k1), instance=inst)
                else:
                    chk.ok("key-domain", inst)
    # producer -> consumer: names unpacked from a call of a scoped function and passed on to another one
    n_links = 0
    for name, lst in sorted(funcs.items()):
        for rel, fn in lst:
            q = pf.qualname(fn)
            origin = {}  # local name -> (producer rel, producer qualname, returned name)
            for n in pf.walk_no_nested(fn):
                if isinstance(n, ast.Assign) and len(n.targets) == 1 and isinstance(n.targets[0], ast.Tuple) \
                        and isinstance(n.value, ast.Call):
                    cn = (pf.call_name(n.value) or "").split(".")[-1]
                    if cn in funcs and len(funcs[cn]) == 1:
                        prel, pfn = funcs[cn][0]
                        rets = [r for r in pf.walk_no_nested(pfn) if isinstance(r, ast.Return) and isinstance(r.value, ast.Tuple)]
                        if len(rets) == 1 and len(rets[0].value.elts) == len(n.targets[0].elts):
                            for t, r in zip(n.targets[0].elts, rets[0].value.elts):
                                if isinstance(t, ast.Name) and isinstance(r, ast.Name):
                                    origin[t.id] = (prel, pf.qualname(pfn), r.id)
            if not origin:
                continue
            for n in pf.walk_no_nested(fn):
                if not isinstance(n, ast.Call):
                    continue
                cn = (pf.call_name(n) or "").split(".")[-1]
                if cn not in funcs or len(funcs[cn]) != 1:
                    continue
                crel, cfn = funcs[cn][0]
                params = [a.arg for a in cfn.args.args]
                if params and params[0] in ("self", "cls"):
                    params = params[1:]
                for i, a in enumerate(n.args):
                    if isinstance(a, ast.Name) and a.id in origin and i < len(params):
                        pk = table_kind.get(origin[a.id])
                        ck = table_kind.get((crel, pf.qualname(cfn), params[i]))
                        if pk is None or ck is None:
                            continue
                        n_links += 1
                        inst = "%s.%s (%s) -> %s.%s (%s)" % (origin[a.id][1], origin[a.id][2], pk, pf.qualname(cfn), params[i], ck)
                        if pk == ck:
                            chk.ok("key-domain", inst)
                        else:
                            chk.violation("key-domain", crel, pf.qualname(cfn), "%s[...] keyed by %s" % (params[i], ck),
                                          cfn.lineno,
                                          "%s fills table %s with %s keys, but %s (called from %s) looks it up with %s keys" % (
                                              origin[a.id][1], origin[a.id][2], pk, pf.qualname(cfn), q, ck), instance=inst)
    chk.count("per-atom tables classified", n_tabs)
    chk.count("producer/consumer table links", n_links)
    if n_links < 1:
        raise core.AnalysisError("no producer -> consumer link between the per-symbol tables was found")


# ----------------------------------------------------------------------------------------------
def _analyse_own(chk):
    chk.rule("l1-order", "l=1 slot <-> Cartesian axis map agrees between sph_harm.c (source), grids_indexer.dirs, "
                         "SDMXylm_yzx2xyz and the derivative-table rows")
    chk.rule("sph-twin", "recursive_sph_harm and recursive_sph_harm_deriv give identical polynomials for every (l,m), l <= %d "
                         "(loops executed concretely)" % SPH_LMAX)
    chk.rule("sph-harmonic", "each Y_lm generated by recursive_sph_harm with the tables of setup_sph_harm_buffer (both executed "
                             "for lmax = %d, exact arithmetic over square roots) is a harmonic polynomial of degree l" % SPH_LMAX)
    chk.rule("sph-bounds", "both generators, executed for the buffers of nlm = 1, 4, 9, store only inside res[0..nlm) and "
                           "inside the allocated tables, and fill every entry of res")
    chk.rule("table-extent", "a file-scope constant table of fixed extent is indexed below its extent (constant loop bound "
                             "or a rejecting guard on the run-time bound)")
    chk.floor("sph-bounds", 3, "2 generators x 3 configurations")
    chk.rule("unit-vector", "a vector divided by its own Euclidean norm is guarded against norm == 0 in functions that are "
                            "regular there and reachable from python")
    chk.floor("unit-vector", 3, "one per (function, vector): 5 today")
    chk.rule("xyz-slots", "feature slots ix+c are paired with Cartesian component c in the add_lp1_* / fill_l1_coeff_* functions")
    chk.rule("setup-invariance", "python set-up values derived from mol.atom_coords() reach scalars only through "
                                 "rotation/translation-invariant reductions of position differences")
    chk.rule("key-domain-stale", "a variable advanced only inside a once-per-key block of a loop over atoms is not read "
                                 "elsewhere in the loop body (per-key offsets are read back from a table indexed by the key)")
    chk.rule("key-domain", "per-atom tables are filled, tested and read with keys from one key function; once-per-key "
                           "blocks read only tables of that key kind; producer and consumer agree")
    chk.rule("atom-order", "per-atom blocks are appended in a top-level `for ia in range(natm)` loop (atom order)")
    chk.rule("mole-rebuild", "a Mole rebuilt from <mol>.atom receives unit=<mol>.unit")
    chk.floor("atom-order", 1, "from_tabs and gen_atomic_grids_cider (2 today)")
    chk.rule("translation", "grid and atom coordinates enter only as differences of equal components")
    tus = cfacts.load_all(chk.tree, [C_SDMX, C_INTERP, C_SPH], jobs=3)
    chk.count("C translation units", 3)
    chk.guard(rule_l1_order, tus)
    chk.guard(rule_sph_twin, tus)
    chk.guard(rule_sph_harmonic, tus)
    chk.guard(rule_sph_bounds, tus)
    chk.guard(rule_table_extent, tus)
    chk.guard(rule_unit_vector, tus)
    chk.guard(rule_array_order, tus)
    chk.rule("array-order", "memory order of coordinate arrays passed from python matches the C entry point's indexing")
    chk.floor("array-order", 2, "atom / grid coordinates of the SDMX entry points (several today)")
    chk.guard(rule_xyz_slots, tus)
    chk.guard(rule_translation, tus)
    chk.guard(rule_setup_invariance)
    chk.guard(rule_key_domain)
    chk.guard(rule_atom_order)
    chk.guard(rule_mole_rebuild)
    chk.floor("l1-order", 9, "2 generators + dirs + reorder + 3 consumers x 5 rows = 19")
    chk.floor("sph-twin", 25, "(6+1)^2 values")
    chk.floor("sph-harmonic", 25, "(6+1)^2 = 49 values")
    chk.floor("xyz-slots", 8, "5 C functions x 3 slots + 2 column layouts")
    chk.floor("setup-invariance", 6, "15 position sources + 2 invariant reductions")
    chk.floor("key-domain", 8, "12 tables + 1 once-per-key block + 4 producer/consumer links")
    chk.floor("translation", 60, "coordinate reads in 18 functions with uses (124 today)")
    chk.assumptions += [
        "clebsch_gordan_e3nn orders the real l=1 basis as m=-1,0,+1 (Wikipedia real form, the order sph_harm.c "
        "produces); read on the pinned tree",
        "r[0], r[1], r[2] and coords[3g+0..2] are the x, y, z Cartesian components (PySCF convention)",
        "sph-twin compares the two generators up to lmax = %d only (FAC_LIST has 24 entries; the recursion is uniform "
        "in l, but a defect that first shows at l > %d is not seen)" % (SPH_LMAX, SPH_LMAX),
        "setup-invariance is intraprocedural: positions stored on an object and reduced in another method are not followed",
        "coordinate parameters are recognised by type double* and the frozen name lists %s / %s" % (
            sorted(G_NAMES), sorted(A_NAMES)),
    ]
    chk.not_decided += [
        "rotations and reflections (quadrature-level statements)",
        "atom permutations (need the run-time contents of the index arrays)",
        "translation invariance of code that receives coordinates already made relative (SDMXcontract_*, "
        "SDMXshell_eval_grid_cart*), of the PySCF grid generator and of the Python layers",
        "energies and matrices",
    ]


def analyse(chk):
    _analyse_own(chk)
    chk.guard(lambda c_: core.include_findings(c_, 'C09', files=['ciderpress/pyscf/numint.py', 'ciderpress/pyscf/dft.py'], rules=['reinit'],
                                               why='a generator kept for a molecule whose geometry/orientation changed evaluates the rotated molecule with the old positions'))
    chk.guard(lambda c_: core.include_findings(c_, 'C18', files=['ciderpress/dft/sph_harm_coeff.py', 'ciderpress/pyscf/sdmx.py', 'ciderpress/pyscf/sdmx_slow.py', 'ciderpress/dft/lcao_interpolation.py', 'ciderpress/dft/grids_indexer.py'], rules=['noncontig'],
                                               why='a strided view of the Gaunt / harmonic tables handed to C as a bare pointer makes the l=1 terms read the wrong rows'))
    chk.guard(lambda c_: core.include_findings(c_, 'C10', files=['ciderpress/lib/mod_cider/sph_harm.c', 'ciderpress/lib/mod_cider/conv_interpolation.c', 'ciderpress/lib/mod_cider/fast_sdmx.c'], rules=None,
                                               why='schedule-dependent harmonics/kernels break every invariance'))
    chk.guard(lambda c_: core.include_findings(c_, 'C19', files=['ciderpress/dft/grids_indexer.py'], rules=['owner-map'],
                                               why='a grid point attributed to the wrong atom breaks the on-site/off-site split, which depends on atom order'))


def mutants(tree):
    return [
        Mutant("dirs columns [3,1,2] -> [1,2,3]", GI, "ylm[:, [3, 1, 2]]", "ylm[:, [1, 2, 3]]", expect="l1-order"),
        Mutant("dirs columns [3,1,2] -> [3,2,1]", GI, "ylm[:, [3, 1, 2]]", "ylm[:, [3, 2, 1]]", expect="l1-order"),
        Mutant("swap tmpx/tmpy stores in SDMXylm_yzx2xyz", F[C_SDMX],
               "y[1 * ngrids + g] = tmpx;\n                        y[2 * ngrids + g] = tmpy;",
               "y[1 * ngrids + g] = tmpy;\n                        y[2 * ngrids + g] = tmpx;", expect="l1-order"),
        Mutant("swap source slots in SDMXylm_yzx2xyz", F[C_SDMX],
               "tmpz = y[2 * ngrids + g];\n                        tmpx = y[3 * ngrids + g];",
               "tmpz = y[3 * ngrids + g];\n                        tmpx = y[2 * ngrids + g];", expect="l1-order"),
        Mutant("seed of recursion swaps x and y", F[C_SPH], "res[1] = fac * cimag(ylm[1 * lp1 + 1]);\n    res[3] = fac * creal(ylm[1 * lp1 + 1]);",
               "res[1] = fac * creal(ylm[1 * lp1 + 1]);\n    res[3] = fac * cimag(ylm[1 * lp1 + 1]);", expect="l1-order"),
        Mutant("derivative table row from other l=1 component", SHC, "gaunt_coeff[0, lm] = fac * fe[im, 2, im]",
               "gaunt_coeff[0, lm] = fac * fe[im, 0, im]", expect="l1-order"),
        Mutant("fill_l1_coeff_fwd: dx/dy columns swapped", F[C_INTERP],
               "double *dx_u = d_uv + offset2;\n        double *dy_u = d_uv + offset2 + 1;",
               "double *dx_u = d_uv + offset2 + 1;\n        double *dy_u = d_uv + offset2;", expect="l1-order"),
        Mutant("SDMXylm_grad: x/y planes swapped", F[C_SDMX],
               "double *ylmx_lg = ylm_vlg + 1 * ylm_atom_loc[natm] * ngrids;\n        double *ylmy_lg = ylm_vlg + 2 * ylm_atom_loc[natm] * ngrids;",
               "double *ylmx_lg = ylm_vlg + 2 * ylm_atom_loc[natm] * ngrids;\n        double *ylmy_lg = ylm_vlg + 1 * ylm_atom_loc[natm] * ngrids;",
               expect="l1-order"),
        Mutant("add_lp1_term_fwd pairs ix with dy", F[C_INTERP],
               "f_q[ix] += dx * f_q[ig];\n            f_q[iy] += dy * f_q[ig];\n            f_q[iz] += dz * f_q[ig];\n            f_q[ig] = 0.0;\n        }\n    }\n}\n\nvoid add_lp1_term_grad",
               "f_q[ix] += dy * f_q[ig];\n            f_q[iy] += dx * f_q[ig];\n            f_q[iz] += dz * f_q[ig];\n            f_q[ig] = 0.0;\n        }\n    }\n}\n\nvoid add_lp1_term_grad",
               expect="xyz-slots"),
        Mutant("onsite bwd reads dirs component 2 for dy", F[C_INTERP], "dy = rads[ir] * dirs[3 * curr_dloc + 1];",
               "dy = rads[ir] * dirs[3 * curr_dloc + 2];", count=2, expect="xyz-slots"),
        Mutant("python passes slots in other order", LI,
               "ctypes.c_int(ix + 0),\n                ctypes.c_int(ix + 1),\n                ctypes.c_int(ix + 2),\n                ctypes.c_int(f_gq.shape[1]),\n            )\n\n    def _call_l1_fill_grad",
               "ctypes.c_int(ix + 1),\n                ctypes.c_int(ix + 0),\n                ctypes.c_int(ix + 2),\n                ctypes.c_int(f_gq.shape[1]),\n            )\n\n    def _call_l1_fill_grad",
               expect="xyz-slots"),
        Mutant("add_lp1_term_grad accumulates iy into x", F[C_INTERP], "fac = f0_q[ig] * f1_q[iy];\n            tmp[3 * ib + 1] += fac;",
               "fac = f0_q[ig] * f1_q[iy];\n            tmp[3 * ib + 0] += fac;", expect="xyz-slots"),
        Mutant("drop the subtraction in add_lp1_term_fwd", F[C_INTERP], "dx = coords[3 * g + 0] - atom_coord[0];",
               "dx = coords[3 * g + 0];", expect="translation"),
        Mutant("drop the subtraction in compute_spline_bas", F[C_INTERP], "diffr[0] = coords[3 * g + 0] - atm_coords[3 * at + 0];",
               "diffr[0] = coords[3 * g + 0];", expect="translation"),
        Mutant("mismatched components in a difference", F[C_INTERP], "diffr[1] = coords[3 * g + 1] - atm_coords[3 * at + 1];",
               "diffr[1] = coords[3 * g + 1] - atm_coords[3 * at + 2];", expect="translation"),
        Mutant("_fill_grid2atm drops the atom position", F[C_SDMX], "coord[1 * ngrids + ig] - r_atm[1];", "coord[1 * ngrids + ig];",
               expect="translation"),
        Mutant("SDMX l1 term uses absolute grid coordinate", F[C_SDMX], "_vbas0[g] * (_gridy[g] - atomy[ia]);", "_vbas0[g] * (_gridy[g]);",
               expect="translation"),
        Mutant("recursive_sph_harm: sign of the sine-type harmonics flipped", F[C_SPH],
               "res[lm - m - 1] = FAC_LIST(m) * cimag(ylm[ind + lp1 + 1]);", "res[lm - m - 1] = -FAC_LIST(m) * cimag(ylm[ind + lp1 + 1]);",
               expect="sph-twin"),
        Mutant("sign factor with the wrong parity", F[C_SPH], "#define FAC_LIST(m) (((m)&1) ? SQRT2 : -SQRT2)",
               "#define FAC_LIST(m) (((m)&2) ? SQRT2 : -SQRT2)", expect="sph-twin"),
        Mutant("deriv generator never flips fac", F[C_SPH], "            dresz[indp1] = fac * creal(dylmz[ind]);\n            fac = -fac;",
               "            dresz[indp1] = fac * creal(dylmz[ind]);", expect="sph-twin"),
        Mutant("alpha0 from the bounding box", "ciderpress/pyscf/sdmx.py",
               "dist = np.linalg.norm(coords[:, None, :] - coords[None, :, :], axis=2)\n            max_dist = np.max(dist)",
               "extent = np.max(coords, axis=0) - np.min(coords, axis=0)\n            max_dist = np.linalg.norm(extent)", expect="setup-invariance"),
        Mutant("norm taken over the atom axis", "ciderpress/pyscf/sdmx_slow.py",
               "dist = np.linalg.norm(coords[:, None, :] - coords[None, :, :], axis=2)",
               "dist = np.linalg.norm(coords[:, None, :] - coords[None, :, :], axis=0)", expect="setup-invariance"),
        Mutant("alpha0 from the extent along x", "ciderpress/pyscf/sdmx_slow.py", "max_dist = np.max(dist)", "max_dist = np.ptp(coords[:, 0])",
               expect="setup-invariance"),
        Mutant("indexer looks tables up by element", GI, "symb = mol.atom_symbol(ia)", "symb = mol.atom_pure_symbol(ia)", expect="key-domain"),
        Mutant("grid tables filled per element", "ciderpress/pyscf/gen_cider_grid.py", "        symb = mol.atom_symbol(ia)\n",
               "        symb = mol.atom_pure_symbol(ia)\n", expect="key-domain"),
        Mutant("ylm tables shared per element", GI, fn=_share_ylm, expect="key-domain"),
        Mutant("deduplicated ylm blocks, offset from the running total", GI, fn=_dedup_stale, expect="key-domain-stale"),
        Mutant("deduplicated ylm blocks, per-key temporary reused", GI, fn=_dedup_temp, expect="key-domain-stale"),
        Mutant("coef0 table loses its last admissible entry", F[C_SPH], "if (m + 2 <= l) {", "if (m + 2 < l) {", expect="sph-harmonic"),
        Mutant("c1 recursion coefficient wrong", F[C_SPH], "sqrt((double)(2 * l + 3) / (2 * l - 1)) * (double)l / (l + 1);",
               "sqrt((double)(2 * l + 3) / (2 * l + 1)) * (double)l / (l + 1);", expect="sph-harmonic"),
        Mutant("Gaunt rows addressed with the atom's nlm", F[C_SDMX], fn=_atom_stride, expect="l1-order"),
        Mutant("sign factors back in a 24-entry table", F[C_SPH], fn=_fac_table, expect="table-extent"),
        Mutant("generator stores the l=1 entries without checking lmax", F[C_SPH],
               "    if (buf.lmax < 1) {\n        return; // nlm == 1: there is no room for the l=1 entries\n    }\n    ylm[1 * lp1 + 0]",
               "    ylm[1 * lp1 + 0]", expect="sph-bounds"),
        Mutant("compute_spline_bas_separate normalises without a guard", F[C_INTERP], fn=_unguard_spline, expect="unit-vector"),
        Mutant("indexer appends per element instead of per atom", GI, fn=_per_element_order, expect="atom-order"),
        Mutant("auxiliary Mole rebuilt without the unit", "ciderpress/pyscf/nldf_convolutions.py", "            unit=mol.unit,\n", "",
               expect="mole-rebuild"),
        Mutant("atom positions passed C-ordered to the planar-indexing l1 contraction", "ciderpress/pyscf/sdmx.py",
               'atom_coords = np.asfortranarray(mol.atom_coords(unit="Bohr"))', 'atom_coords = np.ascontiguousarray(mol.atom_coords(unit="Bohr"))',
               expect="array-order"),
        Mutant("SDMXylm_loop: atom y taken from z", F[C_SDMX], "gridy[g] - atom_coords[3 * ia + 1];", "gridy[g] - atom_coords[3 * ia + 2];",
               expect="translation"),
    ]


_YLM_OLD = ("            full_ylm_loc = np.append(\n                full_ylm_loc, ylm_loc_tab[symb] + full_ylm.shape[0]\n            )\n"
            "            full_ylm = np.append(full_ylm, ylm_tab[symb], axis=0)\n")


def _dedup_stale(text):
    if _YLM_OLD not in text:
        return None
    new = ("            if symb not in ylm_done:\n"
           "                full_ylm = np.append(full_ylm, ylm_tab[symb], axis=0)\n"
           "                ylm_done.add(symb)\n"
           "            full_ylm_loc = np.append(\n"
           "                full_ylm_loc, ylm_loc_tab[symb] + full_ylm.shape[0] - ylm_tab[symb].shape[0]\n"
           "            )\n")
    return text.replace(_YLM_OLD, new, 1).replace("        full_ylm = np.empty((0, nlm), dtype=np.float64)\n",
                                                  "        full_ylm = np.empty((0, nlm), dtype=np.float64)\n        ylm_done = set()\n", 1)


def _dedup_temp(text):
    if _YLM_OLD not in text:
        return None
    new = ("            if symb not in ylm_done:\n"
           "                ystart = full_ylm.shape[0]\n"
           "                full_ylm = np.append(full_ylm, ylm_tab[symb], axis=0)\n"
           "                ylm_done.add(symb)\n"
           "            full_ylm_loc = np.append(full_ylm_loc, ylm_loc_tab[symb] + ystart)\n")
    return text.replace(_YLM_OLD, new, 1).replace("        full_ylm = np.empty((0, nlm), dtype=np.float64)\n",
                                                  "        full_ylm = np.empty((0, nlm), dtype=np.float64)\n        ylm_done = set()\n", 1)


def _per_element_order(text):
    a = "        for ia in range(mol.natm):\n            symb = mol.atom_symbol(ia)\n            nrad = rad_loc_tab[symb].size - 1\n"
    if a not in text:
        return None
    i = text.index(a)
    j = text.find("        return cls(", i)
    if j < 0:
        return None
    body = text[i + len(a) - len("            nrad = rad_loc_tab[symb].size - 1\n"):j]
    new = ("        groups = {}\n        for ia in range(mol.natm):\n            groups.setdefault(mol.atom_symbol(ia), []).append(ia)\n"
           "        for symb, atoms in groups.items():\n            for ia in atoms:\n")
    new += "".join("    " + ln + "\n" if ln.strip() else "\n" for ln in body.split("\n")[:-1])
    return text[:i] + new + text[j:]


def _unguard_spline(text):
    k = text.find("void compute_spline_bas_separate(")
    if k < 0:
        return None
    a = "            if (dr > 0) {\n"
    i = text.find(a, k)
    if i < 0:
        return None
    j = text.find("            }\n", text.find("} else {", i))
    if j < 0:
        return None
    new = "            diffr[0] /= dr;\n            diffr[1] /= dr;\n            diffr[2] /= dr;\n"
    return text[:i] + new + text[j + len("            }\n"):]


def _fac_table(text):
    a = "#define FAC_LIST(m) (((m)&1) ? SQRT2 : -SQRT2)"
    if a not in text:
        return None
    tab = ("static const double FAC_TAB[24] = {-SQRT2, SQRT2, -SQRT2, SQRT2, -SQRT2, SQRT2,\n"
           "    -SQRT2, SQRT2, -SQRT2, SQRT2, -SQRT2, SQRT2, -SQRT2, SQRT2, -SQRT2, SQRT2, -SQRT2, SQRT2,\n"
           "    -SQRT2, SQRT2, -SQRT2, SQRT2, -SQRT2, SQRT2};\n#define FAC_LIST(m) FAC_TAB[m]")
    return text.replace(a, tab, 1)


def _atom_stride(text):
    a = "        double *gauntxp_l = gaunt_vl + 1 * gaunt_nlm;\n"
    i = text.find("void SDMXylm_grad(")
    if i < 0 or a not in text[i:]:
        return None
    head, tail = text[:i], text[i:]
    for k, nm in ((1, "xp"), (2, "ym"), (3, "yp"), (4, "z")):
        tail = tail.replace("double *gaunt%s_l = gaunt_vl + %d * gaunt_nlm;" % (nm, k),
                            "double *gaunt%s_l = gaunt_vl + %d * (ylm_atom_loc[1] - ylm_atom_loc[0]);" % (nm, k), 1)
    return head + tail


def _share_ylm(text):
    a = "            full_ylm = np.append(full_ylm, ylm_tab[symb], axis=0)\n"
    b = "            symb = mol.atom_symbol(ia)\n"
    if a not in text or b not in text or "full_ylm = np.empty((0, nlm), dtype=np.float64)\n" not in text:
        return None
    t = text.replace("full_ylm = np.empty((0, nlm), dtype=np.float64)\n",
                     "full_ylm = np.empty((0, nlm), dtype=np.float64)\n        seen = set()\n", 1)
    t = t.replace(b, b + "            elem = mol.atom_pure_symbol(ia)\n", 1)
    return t.replace(a, "            if elem not in seen:\n                seen.add(elem)\n    " + a, 1)


if __name__ == "__main__":
    sys.exit(core.main(PROP, analyse, mutants, __doc__))
