"""
C01: the PySCF integrator with the low-memory SDMX generator
(ciderpress.pyscf.sdmx_slow, lowmem=True) and an SDMX feature set without l=1
terms.  Expected: same (nelec, exc, vmat) as with lowmem=False and
vmat == dE/dP.  Observed: ValueError inside _eval_crho_terms.
"""
import os
import sys
import traceback

sys.path.insert(0, os.path.dirname(os.path.abspath(__file__)))
import cider_build  # noqa

import numpy as np
from pyscf import dft, gto

from ciderpress.dft.baselines import BASELINE_CODES
from ciderpress.dft.settings import FeatureSettings, SDMXGSettings, SemilocalSettings
from ciderpress.dft.transform_data import FeatureList, LMap
from ciderpress.dft.xc_evaluator import GlobalLinearEvaluator, MappedDFTKernel, MappedXC
from ciderpress.pyscf.dft import make_cider_calc
from ciderpress.pyscf.sdmx_slow import PySCFSDMXInitializer

mol = gto.M(atom="O 0 0 0; H 0 0.757 0.587; H 0 -0.757 0.587", basis="def2-svp", verbose=0)
settings = FeatureSettings(
    sl_settings=SemilocalSettings("npa"), sdmx_settings=SDMXGSettings([0, 1, 2], 2)
)
settings.assign_reasonable_normalizer()
n = settings.nfeat
model = MappedXC(
    [
        MappedDFTKernel(
            GlobalLinearEvaluator(np.linspace(0.3, 1.0, n)),
            FeatureList([LMap(i) for i in range(n)]),
            "SEP",
            BASELINE_CODES["LDA_X"],
        )
    ],
    settings,
)
dm = dft.RKS(mol).get_init_guess(key="minao")


def run(lowmem):
    ks = dft.RKS(mol)
    ks.grids.level = 1
    init = PySCFSDMXInitializer(settings.sdmx_settings, lowmem=lowmem)
    ks = make_cider_calc(ks, model, sdmx_init=init)
    ks.build()
    ni = ks._numint
    f = lambda p: ni.nr_rks(mol, ks.grids, ks.xc, p)
    nelec, exc, vmat = f(dm)
    rng = np.random.RandomState(0)
    D = rng.normal(size=dm.shape) * 0.05
    D = D + D.T
    h = 1e-4
    fd = (f(dm + h * D)[1] - f(dm - h * D)[1]) / (2 * h)
    return nelec, exc, vmat, fd, np.sum(vmat * D)


ref = run(False)
print("lowmem=False: nelec %.8f exc %.10f  FD %.9f analytic %.9f" % (ref[0], ref[1], ref[3], ref[4]))
try:
    res = run(True)
except Exception:
    traceback.print_exc()
    print("OBSERVED: lowmem=True raises; EXPECTED: the same result as lowmem=False")
    sys.exit(1)
print("lowmem=True : nelec %.8f exc %.10f  FD %.9f analytic %.9f" % (res[0], res[1], res[3], res[4]))
ok = abs(res[1] - ref[1]) < 1e-9 and abs(res[2] - ref[2]).max() < 1e-9
ok = ok and abs(res[3] - res[4]) < 1e-6 * max(1, abs(res[3]))
print("agree" if ok else "DISAGREE")
sys.exit(0 if ok else 1)
