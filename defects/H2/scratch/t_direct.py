from ref import *
import ref, sys
from ciderpress.pyscf.gen_cider_grid import CiderGrids
from ciderpress.pyscf.nldf_convolutions import PyscfNLDFGenerator
np.random.seed(0)
atom = sys.argv[1] if len(sys.argv)>1 else "H 0 0 0; F 0 0 0.9"
spin = int(sys.argv[2]) if len(sys.argv)>2 else 0
mol = gto.M(atom=atom, basis="def2-svp", spin=spin, verbose=0)
if spin==0:
    ks = dft.RKS(mol)
else:
    ks = dft.UKS(mol)
ks.xc='PBE'; ks.grids.level=1; ks.kernel()
dm = ks.make_rdm1()
grids = CiderGrids(mol, lmax=10); grids.level=1; grids.build(with_non0tab=False)
ni = NumInt()
if spin == 0:
    rho = get_full_rho(ni, mol, dm, grids, 'MGGA')  # (1,5,ng)
    rho_list = [rho[0]]; dms=[dm]; nspin=1
else:
    rho = get_full_rho(ni, mol, dm, grids, 'MGGA')
    rho_list = [rho[0], rho[1]]; dms=[2*dm[0], 2*dm[1]]; nspin=2
sel0 = np.where(rho_list[0][0] > 1e-3)[0]
sel = np.random.choice(sel0, 150, replace=False)
coords = grids.coords[sel]
def run(settings, itype, plan_type, **kw):
    gen = PyscfNLDFGenerator.from_mol_and_settings(mol, grids.grids_indexer, nspin, settings, plan_type=plan_type, interpolator_type=itype, **kw)
    gen.interpolator.set_coords(grids.coords)
    out = []
    for s in range(nspin):
        pred = gen.get_features(rho_list[s], spin=s)[:, sel]
        refv = reference(mol, dms[s], settings, coords)
        err = np.abs(pred - refv).max(axis=1)
        scale = np.abs(refv).max(axis=1)
        out.append(err/scale)
    return out
level='MGGA'; rm='one'
th=[1.0,0.0,0.03125]; fp=[[2.0,0.0,0.04],[1.0,0.01,0.03],[0.5,0.0,0.02],[2.0,0.0,0.04,2.0]]
kp=[[1.0,0.0,0.02],[2.0,0.01,0.04],[4.0,0.0,0.08]]
l0 = ["se","se_r2","se_apr2","se_ap","se_ap2r2","se_lapl"]
l1 = ["se_grad","se_rvec"]
dots=[(-1,0),(-1,1),(0,1),(0,0),(1,1)]
for rm in ['expnt']:
  vj = NLDFSettingsVJ(level, th, rm, ["se","se_ar2","se_a2r4","se_erf_rinv"], fp)
  vi = NLDFSettingsVI(level, th, rm, l0, l1, dots)
  vij = NLDFSettingsVIJ(level, th, rm, l0, l1, dots, ["se","se_ar2","se_a2r4","se_erf_rinv"], fp)
  vk = NLDFSettingsVK(level, th, rm, kp, "exponential")
  for itype in ['onsite_direct']:
    for plan in ['gaussian','spline']:
      for name,s in [('j',vj),('i',vi),('ij',vij),('k',vk)]:
        for e in run(s, itype, plan):
            print(rm, itype, plan, name, ' '.join('%.0e'%x for x in e))
