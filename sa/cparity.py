"""Swap parity of C kernels that carry two spin channels as paired pointers (clang JSON AST via sa.cfacts).

A *channel pair* is two local pointer variables initialised from the same pointer parameter, one with no
offset (`xin_a = xin`) and one with an offset (`xin_b = xin + n * nfeat`).  The exchange a<->b swaps the two
members of every pair.  Every *effect* of the kernel body (a store through a pointer: `p[i] op= e`, directly or
inside a helper function of the same translation unit, which is inlined with its parameters replaced by the
call's arguments) is put into a canonical text: locals are replaced by their initialisers, operands of `+`
and `*` are sorted.  The multiset of effects must be invariant under the exchange: each effect's image must be
the canonical text of another effect.  No algebra beyond inlining and commutative sorting is performed.

API:  analyse(tu, fname) -> dict(pairs=[(a_name, b_name, param)], effects=[(line, text, canon, image)],
                                 unmatched=[(line, text, image)])
"""
from sa import cfacts
from sa.core import AnalysisError


def _is_ptr(t):
    return "*" in (t or {}).get("qualType", "")


def analyse(tu, fname, max_depth=12):
    body = tu.body(fname)
    params = {p["id"]: p for p in tu.params(fname)}
    decls = {}
    for n in cfacts.walk(body):
        if n.get("kind") == "VarDecl":
            ks = cfacts.kids(n)
            decls[n["id"]] = (n, ks[0] if ks else None)

    def base_param(e):
        """(param id, has_offset) of a pointer expression `P` or `P + off`"""
        e = cfacts.strip(e)
        if e.get("kind") == "DeclRefExpr":
            rid = e["referencedDecl"]["id"]
            if rid in params and _is_ptr(params[rid].get("type")):
                return rid, False
            return None
        if e.get("kind") == "BinaryOperator" and e.get("opcode") == "+":
            for c in cfacts.kids(e):
                b = base_param(c)
                if b is not None:
                    return b[0], True
        return None

    by_param = {}
    for vid, (n, init) in decls.items():
        if _is_ptr(n.get("type")) and init is not None:
            b = base_param(init)
            if b is not None:
                by_param.setdefault(b[0], []).append((vid, b[1]))
    partner, label, pairs = {}, {}, []
    for pid, vs in by_param.items():
        plain = [v for v, off in vs if not off]
        shifted = [v for v, off in vs if off]
        if len(plain) == 1 and len(shifted) == 1:
            a, b = plain[0], shifted[0]
            partner[a], partner[b] = b, a
            label[a] = "%s#0" % params[pid]["name"]
            label[b] = "%s#1" % params[pid]["name"]
            pairs.append((decls[a][0]["name"], decls[b][0]["name"], params[pid]["name"]))

    def canon(e, swap, subst, depth=0):
        e = cfacts.strip(e)
        k = e.get("kind")
        if depth > max_depth:
            return tu.text_of(e)
        if k == "DeclRefExpr":
            rid = e["referencedDecl"]["id"]
            if rid in subst:
                return subst[rid]
            if rid in partner:
                return label[partner[rid] if (swap is True or (swap and rid in swap)) else rid]
            if rid in decls and decls[rid][1] is not None and \
                    cfacts.strip(decls[rid][1]).get("kind") != "IntegerLiteral":      # loop indices stay symbolic
                return canon(decls[rid][1], swap, subst, depth + 1)
            return e["referencedDecl"].get("name", "?")
        if k in ("IntegerLiteral", "FloatingLiteral"):
            return str(e.get("value", tu.text_of(e)))
        if k == "BinaryOperator":
            l, r = [canon(c, swap, subst, depth + 1) for c in cfacts.kids(e)]
            op = e.get("opcode")
            if op in ("+", "*"):
                l, r = sorted((l, r))
            return "(%s %s %s)" % (l, op, r)
        if k == "CompoundAssignOperator":
            l, r = [canon(c, swap, subst, depth + 1) for c in cfacts.kids(e)]
            return "%s %s %s" % (l, e.get("opcode"), r)
        if k == "UnaryOperator":
            return "%s(%s)" % (e.get("opcode"), canon(cfacts.kids(e)[0], swap, subst, depth + 1))
        if k == "ArraySubscriptExpr":
            b, i = cfacts.kids(e)
            return "%s[%s]" % (canon(b, swap, subst, depth + 1), canon(i, swap, subst, depth + 1))
        if k == "CallExpr":
            ks = cfacts.kids(e)
            name = (cfacts.strip(ks[0]).get("referencedDecl") or {}).get("name", "?")
            return "%s(%s)" % (name, ", ".join(canon(a, swap, subst, depth + 1) for a in ks[1:]))
        return " ".join(tu.text_of(e).split())

    def stores(node):
        """store expressions (assignment through an array element) below `node`, not descending into calls"""
        out = []
        todo = [node]
        while todo:
            x = todo.pop()
            k = x.get("kind")
            if k == "CompoundAssignOperator" or (k == "BinaryOperator" and x.get("opcode") == "="):
                lhs = cfacts.strip(cfacts.kids(x)[0])
                if lhs.get("kind") in ("ArraySubscriptExpr", "UnaryOperator"):
                    out.append(x)
                    continue
            todo.extend(reversed(cfacts.kids(x)))
        return out

    def helper_calls(node):
        out = []
        for x in cfacts.walk(node):
            if x.get("kind") == "CallExpr":
                ks = cfacts.kids(x)
                name = (cfacts.strip(ks[0]).get("referencedDecl") or {}).get("name")
                if name in tu.funcs and name != fname and \
                        tu.func(name).get("type", {}).get("qualType", "").startswith("void"):
                    out.append((x, name, ks[1:]))
        return out

    effects = []

    def is_skip(stmt):
        """then-branch that only leaves the iteration: continue / break / return (possibly in braces)"""
        k = stmt.get("kind")
        if k in ("ContinueStmt", "BreakStmt", "ReturnStmt"):
            return True
        if k == "CompoundStmt":
            ks = cfacts.kids(stmt)
            return bool(ks) and all(is_skip(x) for x in ks)
        return False

    def own_stores(stmt):
        """stores / helper calls of one simple statement (no nested control flow inside)"""
        return stores(stmt), helper_calls(stmt)

    def walk_stmts(stmt, guards, out):
        k = stmt.get("kind")
        ks = cfacts.kids(stmt)
        if k == "CompoundStmt":
            g = list(guards)
            for x in ks:
                if x.get("kind") == "IfStmt":
                    xs = cfacts.kids(x)
                    if len(xs) >= 2 and is_skip(xs[1]) and len(xs) == 2:
                        g = g + [("not", xs[0])]        # the rest of the block runs only if the test fails
                        continue
                walk_stmts(x, g, out)
            return
        if k == "IfStmt":
            walk_stmts(ks[1], guards + [("if", ks[0])], out)
            if len(ks) > 2:
                walk_stmts(ks[2], guards + [("not", ks[0])], out)
            return
        if k in ("ForStmt", "WhileStmt", "DoStmt"):
            walk_stmts(ks[-1], guards, out)
            return
        if k in ("DeclStmt", "NullStmt") or k is None:
            return
        if k.startswith("OMP") or k in ("CapturedStmt", "CapturedDecl", "AttributedStmt", "LabelStmt"):
            for x in ks:
                walk_stmts(x, guards, out)
            return
        st_, hc_ = own_stores(stmt)
        for st in st_:
            out.append(("store", st, guards))
        for call, name, args in hc_:
            out.append(("call", (call, name, args), guards))

    plan_ = []
    walk_stmts(body, [], plan_)

    def gcanon(guards, swap):
        return " && ".join(sorted("%s(%s)" % (pol, canon(c, swap, {})) for pol, c in guards))

    def add_effects(swap):
        res = []
        for kind, item, guards in plan_:
            g = gcanon(guards, swap)
            pre = ("[" + g + "] ") if g else ""
            if kind == "store":
                res.append((item, pre + canon(item, swap, {})))
                continue
            call, name, args = item
            hp = tu.params(name)
            if len(hp) != len(args):
                raise AnalysisError("%s: call of %s with %d arguments for %d parameters" % (fname, name, len(args), len(hp)))
            sub = {p["id"]: canon(a, swap, {}) for p, a in zip(hp, args)}
            hb = tu.body(name)
            hdecl = {}
            for n in cfacts.walk(hb):
                if n.get("kind") == "VarDecl":
                    ks = cfacts.kids(n)
                    hdecl[n["id"]] = ks[0] if ks else None
            inner = stores(hb)
            if not inner:
                raise AnalysisError("%s: helper %s has no store to inline" % (fname, name))
            if helper_calls(hb):
                raise AnalysisError("%s: helper %s calls further helpers (not inlined)" % (fname, name))
            for st in inner:
                # helper locals keep their names (loop indices); parameters are substituted
                res.append((call, pre + canon_helper(st, sub, hdecl)))
        return res

    def canon_helper(e, sub, hdecl, depth=0):
        e = cfacts.strip(e)
        k = e.get("kind")
        if k == "DeclRefExpr":
            rid = e["referencedDecl"]["id"]
            if rid in sub:
                return sub[rid]
            if rid in hdecl and hdecl[rid] is not None and depth < max_depth and \
                    cfacts.strip(hdecl[rid]).get("kind") not in ("IntegerLiteral",):
                return canon_helper(hdecl[rid], sub, hdecl, depth + 1)
            return e["referencedDecl"].get("name", "?")
        if k in ("IntegerLiteral", "FloatingLiteral"):
            return str(e.get("value", tu.text_of(e)))
        if k in ("BinaryOperator", "CompoundAssignOperator"):
            l, r = [canon_helper(c, sub, hdecl, depth + 1) for c in cfacts.kids(e)]
            op = e.get("opcode")
            if k == "BinaryOperator" and op in ("+", "*"):
                l, r = sorted((l, r))
            return "(%s %s %s)" % (l, op, r) if k == "BinaryOperator" else "%s %s %s" % (l, op, r)
        if k == "UnaryOperator":
            return "%s(%s)" % (e.get("opcode"), canon_helper(cfacts.kids(e)[0], sub, hdecl, depth + 1))
        if k == "ArraySubscriptExpr":
            b, i = cfacts.kids(e)
            return "%s[%s]" % (canon_helper(b, sub, hdecl, depth + 1), canon_helper(i, sub, hdecl, depth + 1))
        if k == "CallExpr":
            ks = cfacts.kids(e)
            name = (cfacts.strip(ks[0]).get("referencedDecl") or {}).get("name", "?")
            return "%s(%s)" % (name, ", ".join(canon_helper(a, sub, hdecl, depth + 1) for a in ks[1:]))
        return " ".join(tu.text_of(e).split())

    # which pairs are only summed over (their addresses never involve an index that selects the output slot)?
    out_vars = set()
    for kind, item, guards in plan_:
        if kind == "store":
            lhs = cfacts.strip(cfacts.kids(item)[0])
            if lhs.get("kind") == "ArraySubscriptExpr":
                b_, i_ = cfacts.kids(lhs)
                bb_ = cfacts.strip(b_)
                if bb_.get("kind") == "DeclRefExpr" and bb_["referencedDecl"]["id"] in params:
                    for x in cfacts.walk(i_):
                        if x.get("kind") == "DeclRefExpr":
                            out_vars.add(x["referencedDecl"]["id"])

    def mentions(e, depth=0):
        ids = set()
        for x in cfacts.walk(e):
            if x.get("kind") == "DeclRefExpr":
                rid = x["referencedDecl"]["id"]
                ids.add(rid)
                if rid in decls and decls[rid][1] is not None and depth < 6 and rid not in partner:
                    ids |= mentions(decls[rid][1], depth + 1)
        return ids
    coupled = set()
    for x in cfacts.walk(body):
        if x.get("kind") == "BinaryOperator" and x.get("opcode") == "+":
            ks = [cfacts.strip(c) for c in cfacts.kids(x)]
            for p_, o_ in ((ks[0], ks[1]), (ks[1], ks[0])):
                if p_.get("kind") == "DeclRefExpr" and p_["referencedDecl"]["id"] in partner:
                    if mentions(o_) & out_vars:
                        coupled.add(p_["referencedDecl"]["id"])
                        coupled.add(partner[p_["referencedDecl"]["id"]])
    summed = set(partner) - coupled
    exchanges = [("all channel pairs", True)]
    if summed and coupled:
        exchanges.append(("the summed (reference) pair(s) %s only" % sorted(
            {label[i].split("#")[0] for i in summed}), frozenset(summed)))
    plain = add_effects(False)
    unmatched = []
    for what, swap in exchanges:
        swapped = add_effects(swap)
        have = {}
        for node, c in plain:
            have[c] = have.get(c, 0) + 1
        for (node, c), (_, img) in zip(plain, swapped):
            if swap is True:
                effects.append((tu.line_of(node), " ".join(tu.text_of(node).split()), c, img))
            if have.get(img, 0) > 0:
                have[img] -= 1
            else:
                unmatched.append((tu.line_of(node), " ".join(tu.text_of(node).split()), "under exchange of %s: %s" % (what, img)))
    return {"pairs": pairs, "effects": effects, "unmatched": unmatched, "exchanges": [w for w, _ in exchanges]}
