import sys, os
sys.path.insert(0, os.path.dirname(__file__))
import cider_env; cider_env.install()
import numpy as np
from ciderpress.dft.xc_evaluator import RBFEvaluator, KernelEvaluator
from ciderpress.models.kernels import DiffRBF, SubsetRBF, DiffConstantKernel
rng = np.random.default_rng(1)
N=5; nctrl=6; n=4
X1ctrl = rng.normal(size=(nctrl,N)); alpha = rng.normal(size=nctrl); X1 = rng.normal(size=(n,N))
k = DiffConstantKernel(2.0)*DiffRBF(length_scale=np.array([1.,2.,3.,1.5,0.7]))
r0 = KernelEvaluator(k, X1ctrl, alpha)(X1)
r1 = RBFEvaluator(k, X1ctrl, alpha)(X1)
print(np.abs(r0[0]-r1[0]).max(), np.abs(r0[1]-r1[1]).max())
idx=[0,2,3]
k = DiffConstantKernel(2.0)*SubsetRBF(idx, length_scale=np.array([1.,2.,3.]))
r0 = KernelEvaluator(k, X1ctrl, alpha)(X1)
print(r0[0], r0[1].shape)
r1 = RBFEvaluator(k, X1ctrl[:, idx], alpha)(X1)
print(r1[0], r1[1].shape)
big = np.zeros((n+3, len(idx)))
r2 = RBFEvaluator(k, X1ctrl, alpha)(X1, dres=big[:n])
print(r2[0]); print(big)
