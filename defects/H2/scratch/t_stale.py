from ref import *
import ref, sys
from ciderpress.pyscf.gen_cider_grid import CiderGrids
from ciderpress.pyscf.nldf_convolutions import PySCFNLDFInitializer
from ciderpress.pyscf.numint import NLDFNumInt
from pyscf.dft import gen_grid
class FakeXC:
    def __init__(self, settings): self.settings = settings
mol = gto.M(atom="H 0 0 0; F 0 0 0.9", basis="def2-svp", spin=0, verbose=0)
ks = dft.RKS(mol); ks.xc='PBE'; ks.grids.level=1; ks.kernel()
dm = ks.make_rdm1()
th=[1.0,0.0,0.03125]
vj = NLDFSettingsVJ('MGGA', th, 'one', ["se"], [[2.0,0.0,0.04]])
fs = FeatureSettings(sl_settings=SemilocalSettings('npa'), nldf_settings=vj)
def make_ni():
    ni = NLDFNumInt(FakeXC(fs), 'PBE', PySCFNLDFInitializer(vj), None)
    ni.build(mol)
    return ni
nint = NumInt()
grids = CiderGrids(mol); grids.level = 1; grids.build()
ni = make_ni()
ni.initialize_feature_generators(mol, grids, 1)
rho = get_full_rho(nint, mol, dm, grids, 'MGGA')[0]
f1 = ni.nldfgen.get_features(rho)
# user changes partitioning and rebuilds same grids object
for change in ['becke', 'level']:
    if change == 'becke':
        grids.becke_scheme = gen_grid.stratmann
    else:
        grids.level = 2
    grids.build()
    ni.initialize_feature_generators(mol, grids, 1)
    rho = get_full_rho(nint, mol, dm, grids, 'MGGA')[0]
    try:
        f2 = ni.nldfgen.get_features(rho)
    except Exception as e:
        print(change, 'EXC', type(e).__name__, e); continue
    ni_fresh = make_ni(); ni_fresh.initialize_feature_generators(mol, grids, 1)
    f3 = ni_fresh.nldfgen.get_features(rho)
    w = grids.weights
    print(change, 'stale vs fresh max rel diff', np.abs(f2-f3).max()/np.abs(f3).max(), ' integral', (f2*w).sum(), (f3*w).sum())
