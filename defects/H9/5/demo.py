"""
C15 -- _SpinSymMixin.k_and_deriv (SpinSymRBF / SpinSymARBF / SpinSymPoly):
when a column belongs to both alpha_ind and beta_ind (a feature shared by the
two spin channels, e.g. the total density), the gradient for that column is
overwritten by the beta contribution instead of being the sum of the alpha
and beta contributions.

Expected: k_and_deriv(X, Y)[1] == d kernel(X, Y) / dX for all index subsets.
"""
import sys

import numpy as np

from ciderpress.models import kernels as K

rng = np.random.default_rng(0)
X = rng.uniform(size=(6, 3))
Y = rng.uniform(size=(4, 3))
alpha_ind, beta_ind = [0, 1], [0, 2]  # column 0 is shared by both spins
fails = []

cases = {
    "SpinSymRBF": K.SpinSymRBF(alpha_ind, beta_ind, np.array([0.5, 0.8])),
    "SpinSymARBF": K.SpinSymARBF(
        alpha_ind, beta_ind, 2, np.array([0.5, 0.8]), [0.2, 0.5, 1.0]
    ),
    "SpinSymPoly": K.SpinSymPoly(alpha_ind, beta_ind, 0.6),
}
for name, kern in cases.items():
    # value side of the property is fine: PSD and symmetric under spin exchange
    kxx = kern(X)
    Xswap = X[:, [0, 2, 1]]
    assert np.linalg.eigvalsh(kxx).min() > -1e-10
    assert np.allclose(kern(Xswap, Y), kern(X, Y))
    k, dk = kern.k_and_deriv(X, Y)
    ref = np.zeros_like(dk)
    d = 1e-6
    for i in range(X.shape[1]):
        Xp = X.copy()
        Xm = X.copy()
        Xp[:, i] += d
        Xm[:, i] -= d
        ref[:, :, i] = (kern(Xp, Y) - kern(Xm, Y)) / (2 * d)
    err = np.abs(dk - ref).max(axis=(0, 1))
    print("[%s] per-column max|dk - finite difference| = %s" % (name, err))
    print("    dk[0, 0] = %s, finite difference = %s" % (dk[0, 0], ref[0, 0]))
    if err.max() > 1e-6:
        fails.append(name)

if fails:
    print("FAIL:", fails)
    sys.exit(1)
print("OK")
