#!/usr/bin/env python3
"""Re-confirm seeded changes whose patch was re-done on top of a later /repo fix
(seeded/<id>/patch_rebased.diff): on a scratch copy of /repo's working tree the
demonstration must exit 0 without the patch and non-zero with it, and the
pinned suite must still report 143 passed with it.

usage: tools/verify_rebased.py <seed-id> ...
"""
import os
import re
import shutil
import subprocess
import sys
import tempfile

VERIF = os.path.dirname(os.path.dirname(os.path.abspath(__file__)))


def sh(cmd, cwd=None, timeout=1800):
    p = subprocess.run(cmd, shell=True, cwd=cwd, capture_output=True, text=True, timeout=timeout)
    return p.returncode, p.stdout + p.stderr


def main():
    for sid in sys.argv[1:]:
        d = os.path.join(VERIF, "seeded", sid)
        scratch = tempfile.mkdtemp(prefix="verif_rb_")
        try:
            sh("git -C /repo ls-files -z | xargs -0 -I{} cp --parents {} %s/" % scratch, cwd="/repo")
            demo = "demo.py" if os.path.exists(os.path.join(d, "demo.py")) else \
                [f for f in os.listdir(d) if f.startswith(("demo", "test")) and f.endswith(".py")][0]
            env = "PYTHONPATH=%s OMP_NUM_THREADS=8 " % scratch
            rc0, _ = sh(env + "/venv/bin/python %s" % demo, cwd=d)
            pf = os.path.join(d, "patch_rebased.diff")
            if not os.path.exists(pf):
                pf = os.path.join(d, "patch.diff")
            rc, out = sh("patch -s -p1 -d %s < %s" % (scratch, pf))
            if rc != 0:
                print(sid, "PATCH-DOES-NOT-APPLY", out[-200:])
                continue
            rc1, _ = sh(env + "/venv/bin/python %s" % demo, cwd=d)
            _, out = sh(env + "/venv/bin/python -m pytest -q -p no:cacheprovider --timeout=900 "
                        "--continue-on-collection-errors ciderpress 2>&1 | tail -3", cwd=scratch)
            m = re.search(r"(\d+) passed", out)
            f = re.search(r"(\d+) failed", out)
            ok = rc0 == 0 and rc1 != 0 and m and int(m.group(1)) == 143 and not f
            print(sid, "CONFIRMED" if ok else "NOT-CONFIRMED", "demo clean rc=%s patched rc=%s suite=%s" % (
                rc0, rc1, m.group(0) if m else out[-100:]))
        finally:
            shutil.rmtree(scratch, ignore_errors=True)


if __name__ == "__main__":
    main()
