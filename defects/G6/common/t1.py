import sys, os, itertools, warnings
sys.path.insert(0, os.path.dirname(os.path.abspath(__file__)))
import cbuild
lib = cbuild.build(["mod_cider/cider_coefs.c"])
cbuild.patch_loader(lib)
import numpy as np
from ciderpress.dft import plans, settings as S

def mk_settings(ver, lvl, rho_mult):
    th = [1.0, 0.0, 0.03125] if lvl == "MGGA" else [1.0, 0.03125]
    fp = [2.0, 0.0, 0.04] if lvl == "MGGA" else [2.0, 0.04]
    fpe = fp + [0.5]
    if ver == "i":
        return S.NLDFSettingsVI(lvl, th, rho_mult, ["se", "se_r2", "se_lapl"], ["se_grad", "se_rvec"], [(0,0),(-1,1),(0,1)])
    if ver == "j":
        return S.NLDFSettingsVJ(lvl, th, rho_mult, ["se", "se_ar2", "se_a2r4", "se_erf_rinv"], [fp, fp, fp, fpe])
    if ver == "ij":
        return S.NLDFSettingsVIJ(lvl, th, rho_mult, ["se"], ["se_grad"], [(0,0),(-1,0)], ["se", "se_erf_rinv"], [fp, fpe])
    if ver == "k":
        return S.NLDFSettingsVK(lvl, th, rho_mult, [fp, [4.0]+fp[1:]], "exponential")

rng = np.random.default_rng(0)
rhovals = np.array([0, 5e-324, 1e-300, 1e-20, 0.5e-10, 0.99999e-10, 1e-10, 1.00001e-10, 2e-10, 1e-9, 1e-6, 1e-3, 1.0, 10.0])
ng = len(rhovals)
bad = 0
for ver, lvl, rm, cls, af, co, nspin in itertools.product(["i","j","ij","k"], ["GGA","MGGA"], ["one","expnt"], ["G","S"], ["etb","zexp"], ["gq","qg"], [1,2]):
    st = mk_settings(ver, lvl, rm)
    kw = dict(coef_order=co, alpha_formula=af)
    try:
        with warnings.catch_warnings():
            warnings.simplefilter("ignore")
            if cls == "G":
                plan = plans.NLDFGaussianPlan(st, nspin, 0.01, 1.8, 20, **kw)
            else:
                plan = plans.NLDFSplinePlan(st, nspin, 0.01, 1.8, 20, spline_size=60, **kw)
    except Exception as e:
        print("CTOR FAIL", ver, lvl, rm, cls, af, co, nspin, repr(e)); bad += 1; continue
    for grad_kind in ["zero", "small", "big"]:
        rho_data = np.zeros((5 if lvl=="MGGA" else 4, ng))
        rho_data[0] = rhovals
        if grad_kind == "small":
            rho_data[1] = rhovals
        elif grad_kind == "big":
            rho_data[1] = 1e3
        if lvl == "MGGA":
            rho_data[4] = 0.0 if grad_kind != "big" else rho_data[1]**2/(8*np.maximum(rhovals,1e-300))
            rho_data[4] = np.minimum(rho_data[4], 1e300)
        nq = plan.nalpha + plan.num_vi_ints if ver != "i" else plan.num_vi_ints
        f = rng.normal(size=(nq, ng))
        if co == "gq":
            f = np.ascontiguousarray(f.T)
        try:
            with warnings.catch_warnings():
                warnings.simplefilter("ignore")
                plan._raise_large_expnt_error = False
                feat, dfeat = plan.eval_rho_full(f, rho_data, spin=0)
                rt = plan.get_rho_tuple(rho_data)
                fc, dfc = plan.get_function_to_convolve(rt)
                vfeat = rng.normal(size=feat.shape)
                vrho = np.zeros_like(rho_data)
                vf = plan.eval_vxc_full(vfeat, vrho, dfeat, rho_data, spin=0)
            ok = np.isfinite(feat).all() and np.isfinite(dfeat).all() and np.isfinite(fc).all() and all(np.isfinite(d).all() for d in dfc) and np.isfinite(vrho).all() and np.isfinite(vf).all()
            if not ok:
                bad += 1
                print("NONFINITE", ver, lvl, rm, cls, af, co, nspin, grad_kind,
                      "feat", np.argwhere(~np.isfinite(feat))[:3].tolist(), "dfeat", np.argwhere(~np.isfinite(dfeat))[:3].tolist(),
                      "vrho", np.argwhere(~np.isfinite(vrho))[:3].tolist(), "vf", np.isfinite(vf).all(), "fc", np.isfinite(fc).all())
        except Exception as e:
            bad += 1
            print("EXC", ver, lvl, rm, cls, af, co, nspin, grad_kind, repr(e)[:200])
print("bad", bad)
