import cider_build
import numpy as np, sys
from pyscf import gto, dft
from ciderpress.pyscf.nldf_convolutions import PyscfNLDFGenerator
from ciderpress.pyscf.gen_cider_grid import CiderGrids
from ciderpress.dft.settings import NLDFSettingsVJ

theta_params = [1.0, 0.0, 0.03125]
vj = NLDFSettingsVJ("MGGA", theta_params, "one", ["se"], [[2.0, 0.0, 0.04]])

def run(shift, symmetry):
    atom = [["H", (0+shift[0], 0+shift[1], 0+shift[2])], ["F", (0+shift[0], 0+shift[1], 0.9+shift[2])]]
    mol = gto.M(atom=atom, basis="def2-svp", verbose=0, symmetry=symmetry)
    grids = CiderGrids(mol, lmax=6)
    grids.level = 1
    grids.build()
    ks = dft.RKS(mol); ks.xc = "PBE"; ks.grids = grids
    dm = ks.get_init_guess(key="minao")
    ni = dft.numint.NumInt()
    ao = ni.eval_ao(mol, grids.coords, deriv=1)
    rho = ni.eval_rho(mol, ao, dm, xctype="MGGA", with_lapl=False)
    gen = PyscfNLDFGenerator.from_mol_and_settings(mol, grids.grids_indexer, 1, vj)
    gen.interpolator.set_coords(grids.coords)
    feat = gen.get_features(rho)
    return feat, grids.weights, rho

for sym in [False, True]:
    f0, w0, r0 = run((0,0,0), sym)
    f1, w1, r1 = run((0.3,-0.2,0.5), sym)
    print(sym, np.abs(r0-r1).max(), np.dot(f0[0], w0*r0[0]), np.dot(f1[0], w1*r1[0]), np.abs(f0-f1).max())
