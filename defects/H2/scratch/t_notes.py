import sys
sys.path.insert(0, '/tmp/hunt/H2/hunt_out/common')
import shim
import numpy as np
from ciderpress.dft.plans import FracLaplPlan
from ciderpress.dft.settings import FracLaplSettings
# nk1=0, nd1=2 with ld_dots
s = FracLaplSettings([0.0, 0.5], nk0=1, nk1=0, l1_dots=[], nd1=2, ld_dots=[(0,1),(-1,0)], ndd=0)
plan = FracLaplPlan(s, 1)
ng = 5
rho = np.random.default_rng(0).normal(size=(1, 5 + s.nrho, ng))
try:
    f = plan.get_feat(rho)
    d0 = rho[0, 5+1:5+4]; d1 = rho[0, 5+4:5+7]; g = rho[0,1:4]
    print('feat ld(0,1):', f[0,1], 'expected', (d0*d1).sum(0))
    print('feat ld(-1,0):', f[0,2], 'expected', (g*d0).sum(0))
except Exception as e:
    print('EXC', type(e).__name__, e)
print(np.einsum('xg,xg', np.ones((3,4)), np.ones((3,4))))
