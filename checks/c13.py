#!/usr/bin/env python3
"""C13 -- uniform-electron-gas reference values match the computed features.
Static rules (DESIGN.md §C13).  NOT decided: equality with actually computed nonlocal / SDMX
features, the hard-coded SDMX constants, the closed-form integrals themselves; the scaling
degree of the UEG formulas is C03's.

 guarded-param  constant subscripts on theta_params / feat_params[i] / params beyond the length that
                _check_params guarantees for every sl_level are dominated by `sl_level == "MGGA"`
 spec-total     every spec / rho_mult ladder that ends in `raise` lists every value its constructor admits
 norm-ueg       get_ueg(rho) == fill_fwd(x=1, rho, inh=0) as canonical monomials (4 normaliser classes);
                FeatNormalizerList.ueg_vector mirrors the None -> identity convention
 vmap-heg       get_vmap_heg_value(heg, gamma) == VMap.fill_feat_ at x=heg, scale=1, center=0
 compose        FeatureSettings.{nfeat, get_feat_loc, get_feat_usps, ueg_vector, get_reasonable_normalizer}
                concatenate the five feature families in one order
 rho-forward    every ueg routine passes its own rho on to the ueg routines it calls
 emit-order     per-feature lists of one settings class built from the same generators nest them identically
"""
import ast
import os
import sys

sys.path.insert(0, os.path.dirname(os.path.dirname(os.path.abspath(__file__))))
sys.path.insert(0, os.path.dirname(os.path.abspath(__file__)))
from sa import core, pyfacts as pf, cfg as cfgm, mono, hinline  # noqa: E402
from sa.mono import Poly, Evaluator, NotComparable  # noqa: E402
from sa.selftest import Mutant  # noqa: E402
import c12 as C12  # noqa: E402  (method_evaluator / normalizer_classes)

PROP = "C13"
ST = "ciderpress/dft/settings.py"
FN = "ciderpress/dft/feat_normalizer.py"
TD = "ciderpress/dft/transform_data.py"


def family(prog, base):
    mod = prog.module(ST)
    out = [c for m, c in prog.subclasses(base) if m.rel == ST]
    if not out:
        raise core.AnalysisError("no subclasses of %s in %s" % (base, ST))
    return mod, out


def asserted_tests(fn):
    """conditions a routine enforces:  assert c  ==  if not c: raise  ==  if <negated comparison>: raise"""
    inv = {ast.NotEq: ast.Eq, ast.Eq: ast.NotEq, ast.Lt: ast.GtE, ast.GtE: ast.Lt, ast.Gt: ast.LtE, ast.LtE: ast.Gt}
    out = []
    for n in pf.walk_no_nested(fn):
        if isinstance(n, ast.Assert):
            out.append(n.test)
        elif isinstance(n, ast.If) and not n.orelse and cfgm._raises(n.body):
            t = n.test
            if isinstance(t, ast.UnaryOp) and isinstance(t.op, ast.Not):
                out.append(t.operand)
            elif isinstance(t, ast.Compare) and len(t.ops) == 1 and type(t.ops[0]) in inv:
                c = ast.Compare(left=t.left, ops=[inv[type(t.ops[0])]()], comparators=t.comparators)
                out.append(ast.copy_location(c, t))
    return out


def facts_at(node):
    """conditions_at with negations unfolded and conjunctions split: list of (test, polarity)"""
    out = []
    todo = [(t, pol) for t, pol, _ in cfgm.conditions_at(node)]
    while todo:
        t, pol = todo.pop()
        if isinstance(t, ast.UnaryOp) and isinstance(t.op, ast.Not):
            todo.append((t.operand, not pol))
        elif isinstance(t, ast.BoolOp) and ((isinstance(t.op, ast.And) and pol) or (isinstance(t.op, ast.Or) and not pol)):
            todo += [(v, pol) for v in t.values]
        else:
            out.append((t, pol))
    return out


def inlined_methods(prog, mod, cls, pred=None, cache={}):
    """methods of cls (own body) with private helpers inlined (one/two levels)"""
    key = (id(prog), cls.name, pred)
    if key not in cache:
        res = hinline.class_resolver(prog, mod, cls)
        if pred is not None:
            base = res

            def res(call, base=base):
                r = base(call)
                return r if r is not None and pred(r[0]) else None
        cache[key] = {nm: hinline.inline_helpers(fn, res) for nm, fn in pf.methods(cls).items()}
    return cache[key]


def is_sl_attr(node):
    return pf.is_self_attr(node) and node.attr in ("sl_level", "_sl_level")


# ----------------------------------------------------------------------------
# guarded-param
# ----------------------------------------------------------------------------
def param_lengths(mod):
    """from NLDFSettings._check_params: (guard literal, guarded length, unguarded length)"""
    fn = mod.func("NLDFSettings._check_params")
    found = None
    for n in pf.walk_no_nested(fn):
        if isinstance(n, ast.Assign) and isinstance(n.value, ast.IfExp):
            t = n.value.test
            if isinstance(t, ast.Compare) and is_sl_attr(t.left) and len(t.ops) == 1 and isinstance(t.ops[0], ast.Eq) \
                    and isinstance(t.comparators[0], ast.Constant) and isinstance(n.value.body, ast.Constant) \
                    and isinstance(n.value.orelse, ast.Constant) and isinstance(n.targets[0], ast.Name):
                found = (n.targets[0].id, t.comparators[0].value, n.value.body.value, n.value.orelse.value)
    if found is None:
        for n in pf.walk_no_nested(fn):  # if self.sl_level == "MGGA": n = 3 / else: n = 2
            if isinstance(n, ast.If) and isinstance(n.test, ast.Compare) and is_sl_attr(n.test.left) \
                    and len(n.test.ops) == 1 and isinstance(n.test.ops[0], ast.Eq) \
                    and isinstance(n.test.comparators[0], ast.Constant) and len(n.body) == 1 and len(n.orelse) == 1:
                a, b = n.body[0], n.orelse[0]
                if isinstance(a, ast.Assign) and isinstance(b, ast.Assign) and pf.src(a.targets[0]) == pf.src(b.targets[0]) \
                        and isinstance(a.targets[0], ast.Name) and isinstance(a.value, ast.Constant) \
                        and isinstance(b.value, ast.Constant) and isinstance(a.value.value, int) \
                        and not isinstance(a.value.value, bool):
                    found = (a.targets[0].id, n.test.comparators[0].value, a.value.value, b.value.value)
    if found is None:
        raise core.AnalysisError("_check_params: `n = 3 if self.sl_level == \"MGGA\" else 2` idiom not found")
    nname, lit, n_true, n_false = found
    # the length really is asserted against n (or n + 1)
    asserted = False
    pname = fn.args.args[1].arg
    for t in asserted_tests(fn):
        if isinstance(t, ast.Compare) and pf.src(t.left) == "len(%s)" % pname \
                and isinstance(t.ops[0], ast.Eq) and nname in pf.src(t.comparators[0]):
            asserted = True
    if not asserted:
        raise core.AnalysisError("_check_params no longer asserts len(%s) against %s" % (pname, nname))
    if not (isinstance(n_true, int) and isinstance(n_false, int) and n_true > n_false):
        raise core.AnalysisError("_check_params: unexpected lengths %r/%r" % (n_true, n_false))
    return lit, n_true, n_false


def params_like(node, fn, cls_is_family):
    """is `node` (the value of a Subscript) a parameter list whose length _check_params fixed?"""
    if pf.is_self_attr(node, "theta_params"):
        return "self.theta_params"
    if isinstance(node, ast.Subscript) and pf.is_self_attr(node.value, "feat_params") \
            and not isinstance(node.slice, ast.Slice):
        return "self.feat_params[.]"
    if isinstance(node, ast.Name):
        # loop variable over self.feat_params (directly, via zip or enumerate)
        p = pf.parent(node)
        cur = node
        while p is not None and p is not fn:
            if isinstance(p, (ast.For, ast.comprehension)):
                pos = _target_pos(p.target, node.id)
                if pos is not None and _iter_elem(p.iter, pos, "feat_params"):
                    return "element of self.feat_params"
            cur, p = p, pf.parent(p)
        if fn.name == "_check_params" and len(fn.args.args) > 1 and fn.args.args[1].arg == node.id:
            return "params of _check_params"
    return None


def _target_pos(target, name):
    """path of `name` inside a loop target: () for the target itself, (i,) / (i, j) for tuple elements"""
    if isinstance(target, ast.Name):
        return () if target.id == name else None
    if isinstance(target, (ast.Tuple, ast.List)):
        for i, e in enumerate(target.elts):
            r = _target_pos(e, name)
            if r is not None:
                return (i,) + r
    return None


def _iter_elem(it, pos, attr):
    """does position `pos` of the loop target iterate over self.<attr>?"""
    if pf.is_self_attr(it, attr):
        return pos == ()
    name = pf.call_name(it)
    if name == "zip" and len(pos) >= 1 and pos[0] < len(it.args):
        return _iter_elem(it.args[pos[0]], pos[1:], attr)
    if name == "enumerate" and len(pos) >= 1 and pos[0] == 1 and it.args:
        return _iter_elem(it.args[0], pos[1:], attr)
    return False


def iter_source(it, pos):
    """self attribute iterated at position pos of the loop target, or None"""
    if pf.is_self_attr(it):
        return it.attr if pos == () else None
    name = pf.call_name(it)
    if name == "zip" and len(pos) >= 1 and pos[0] < len(it.args):
        return iter_source(it.args[pos[0]], pos[1:])
    if name == "enumerate" and len(pos) >= 1 and pos[0] == 1 and it.args:
        return iter_source(it.args[0], pos[1:])
    return None


def mgga_guarded(node, lit):
    for t, pol in facts_at(node):
        if isinstance(t, ast.Compare) and len(t.ops) == 1 and is_sl_attr(t.left) \
                and isinstance(t.comparators[0], ast.Constant):
            v = t.comparators[0].value
            if isinstance(t.ops[0], ast.Eq) and v == lit and pol:
                return True
            if isinstance(t.ops[0], ast.NotEq) and v == lit and not pol:
                return True
    return False


def rule_guarded_param(chk, prog):
    mod, classes = family(prog, "NLDFSettings")
    lit, n_guard, n_min = param_lengths(mod)
    chk.extra["param_lengths"] = {"guard": "sl_level == %r" % lit, "guarded_len": n_guard, "min_len": n_min}
    def takes_list(callee):
        ps = {a.arg for a in callee.args.args[1:]}
        return any(isinstance(x, ast.Subscript) and isinstance(x.value, ast.Name) and x.value.id in ps
                   and not isinstance(x.slice, ast.Slice) for x in ast.walk(callee))

    def callers_guarded(cls, fn):
        """fn is a helper: every call self.<fn>() in the family is under the MGGA test"""
        sites = []
        for c2 in classes:
            for f2 in pf.methods(c2).values():
                for x in pf.walk_no_nested(f2):
                    if isinstance(x, ast.Call) and isinstance(x.func, ast.Attribute) and x.func.attr == fn.name \
                            and isinstance(x.func.value, ast.Name) and x.func.value.id == "self":
                        sites.append(x)
        return bool(sites) and all(mgga_guarded(x, lit) for x in sites)

    for cls in classes:
        # helpers that receive the parameter list as an argument are judged where they are called
        for fn in inlined_methods(prog, mod, cls, takes_list).values():
            for n in pf.walk_no_nested(fn):
                if not isinstance(n, ast.Subscript):
                    continue
                what = params_like(n.value, fn, True)
                if what is None:
                    continue
                k = None
                if isinstance(n.slice, ast.Constant) and isinstance(n.slice.value, int):
                    k = n.slice.value
                elif isinstance(n.slice, ast.UnaryOp) and isinstance(n.slice.op, ast.USub) \
                        and isinstance(n.slice.operand, ast.Constant) and isinstance(n.slice.operand.value, int):
                    k = -n.slice.operand.value
                if k is None:
                    continue
                qn = "%s.%s" % (cls.name, fn.name)
                inst = "%s %s" % (qn, pf.src(n))
                need = k + 1 if k >= 0 else -k
                if need <= n_min:
                    chk.ok("guarded-param", inst + " (within the length every sl_level guarantees)", nontrivial=False)
                elif k >= 0 and need <= n_guard:
                    if mgga_guarded(n, lit):
                        chk.ok("guarded-param", inst + " under sl_level == %r" % lit)
                    elif callers_guarded(cls, pf.methods(cls)[fn.name]):
                        chk.ok("guarded-param", inst + " (helper only called under sl_level == %r)" % lit)
                    else:
                        chk.violation("guarded-param", ST, qn, pf.src(n), n.lineno,
                                      "%s has length %d unless sl_level == %r (enforced by _check_params), but index %d "
                                      "is read without that test: IndexError for a %s-level settings object (the "
                                      "sibling routines use `if self.sl_level == %r: p[%d] else: p[%d]`)" % (
                                          what, n_min, lit, k, "GGA", lit, k, k - 1), instance=inst)
                else:
                    chk.violation("guarded-param", ST, qn, pf.src(n), n.lineno,
                                  "%s: index %d is beyond the length _check_params guarantees (%d, or %d for %s)" % (
                                      what, k, n_min, n_guard, lit), instance=inst)


# ----------------------------------------------------------------------------
# spec-total
# ----------------------------------------------------------------------------
def resolve_table(mod, node, depth=0):
    """literal list of strings named by `node` (module table, alias of a table, or literal)"""
    if isinstance(node, (ast.List, ast.Tuple)):
        try:
            return list(pf.literal(node))
        except pf.NotLiteral:
            return None
    if isinstance(node, ast.Name) and node.id in mod.assigns and depth < 4:
        return resolve_table(mod, mod.assigns[node.id], depth + 1)
    return None


def admitted_values(prog, mod, cls):
    """self attribute -> list of admitted literal values, from the constructors along the MRO:
    self._check_specs(self.A, TABLE)  /  if self.A not in TABLE: raise"""
    out = {}
    for m, c in prog.mro(mod, cls):
        init = pf.methods(c).get("__init__")
        if init is None:
            continue
        for n in pf.walk_no_nested(init):
            if isinstance(n, ast.Call) and isinstance(n.func, ast.Attribute) and n.func.attr == "_check_specs" \
                    and len(n.args) == 2 and pf.is_self_attr(n.args[0]):
                t = resolve_table(m, n.args[1])
                if t is None:
                    raise core.AnalysisError("%s.__init__: table %s is not a literal list" % (c.name, pf.src(n.args[1])))
                out.setdefault(n.args[0].attr, t)
            if isinstance(n, ast.If) and isinstance(n.test, ast.Compare) and len(n.test.ops) == 1 \
                    and isinstance(n.test.ops[0], ast.NotIn) and pf.is_self_attr(n.test.left) and cfgm._raises(n.body):
                t = resolve_table(m, n.test.comparators[0])
                if t is not None:
                    out.setdefault(n.test.left.attr, t)
    return out


def ladders(fn):
    """if-ladders `v == 'a' [or v == 'b'] / elif ... / else` -> (head If, var node, [literals], else block|None)"""
    out = []
    for n in pf.walk_no_nested(fn):
        if not isinstance(n, ast.If):
            continue
        p = pf.parent(n)
        if isinstance(p, ast.If) and len(p.orelse) == 1 and p.orelse[0] is n:
            continue  # not a head
        lits, var, cur = [], None, n
        ok = True
        while True:
            r = _eq_lits(cur.test)
            if r is None:
                ok = False
                break
            v, ls = r
            if var is None:
                var = v
            elif pf.src(var) != pf.src(v):
                ok = False
                break
            lits += ls
            if len(cur.orelse) == 1 and isinstance(cur.orelse[0], ast.If):
                cur = cur.orelse[0]
                continue
            break
        if ok and var is not None and len(lits) >= 2:
            out.append((n, var, lits, cur.orelse or None))
    return out


def dict_ladders(fn, mod, cls, prog):
    """D[v] with D a dict literal (local, class or module level) keyed by strings is a ladder over v whose
    `else` raises KeyError; D.get(v[, d]) is a total one."""
    def as_dict(e, depth=0):
        if isinstance(e, ast.Dict) and e.keys and all(isinstance(k, ast.Constant) and isinstance(k.value, str) for k in e.keys):
            return [k.value for k in e.keys]
        if depth > 3:
            return None
        if isinstance(e, ast.Name):
            defs = [n.value for n in pf.walk_no_nested(fn) if isinstance(n, ast.Assign) and len(n.targets) == 1
                    and isinstance(n.targets[0], ast.Name) and n.targets[0].id == e.id]
            if len(defs) == 1:
                return as_dict(defs[0], depth + 1)
            if not defs and e.id in mod.assigns:
                return as_dict(mod.assigns[e.id], depth + 1)
        if pf.is_self_attr(e):
            r = prog.find_class_attr(mod, cls, e.attr)
            if r is not None:
                return as_dict(r[2], depth + 1)
        return None

    out = []
    for n in pf.walk_no_nested(fn):
        if isinstance(n, ast.Subscript) and isinstance(n.ctx, ast.Load) and isinstance(n.slice, ast.Name):
            keys = as_dict(n.value)
            if keys is not None and len(keys) >= 2:
                out.append((n, n.slice, keys, [ast.Raise(exc=None, cause=None)]))
        elif isinstance(n, ast.Call) and isinstance(n.func, ast.Attribute) and n.func.attr == "get" and n.args \
                and isinstance(n.args[0], ast.Name):
            keys = as_dict(n.func.value)
            if keys is not None and len(keys) >= 2:
                out.append((n, n.args[0], keys, [ast.Pass()]))
    return out


def _eq_lits(t):
    if isinstance(t, ast.BoolOp) and isinstance(t.op, ast.Or):
        var, lits = None, []
        for v in t.values:
            r = _eq_lits(v)
            if r is None or (var is not None and pf.src(var) != pf.src(r[0])):
                return None
            var = r[0]
            lits += r[1]
        return var, lits
    if isinstance(t, ast.Compare) and len(t.ops) == 1 and isinstance(t.ops[0], ast.Eq) \
            and isinstance(t.comparators[0], ast.Constant) and isinstance(t.comparators[0].value, str) \
            and (isinstance(t.left, ast.Name) or pf.is_self_attr(t.left)):
        return t.left, [t.comparators[0].value]
    return None


def ladder_source(var, head, fn):
    """self attribute whose admitted values the ladder variable ranges over"""
    if pf.is_self_attr(var):
        return var.attr
    p = pf.parent(head)
    while p is not None and p is not fn:
        if isinstance(p, ast.For):
            pos = _target_pos(p.target, var.id)
            if pos is not None:
                return iter_source(p.iter, pos)
        p = pf.parent(p)
    return None


def delegated(prog, mod, cls, fn, seen=None):
    """fn plus the methods it runs on the same object: self.m(...) and Other.m(self, ...)"""
    seen = seen if seen is not None else []
    if any(f is fn for f in seen):
        return seen
    seen.append(fn)
    for n in pf.walk_no_nested(fn):
        if isinstance(n, ast.Call) and isinstance(n.func, ast.Attribute):
            f = n.func
            if isinstance(f.value, ast.Name) and f.value.id == "self":
                r = prog.find_method(mod, cls, f.attr)
                if r is not None:
                    delegated(prog, mod, cls, r[2], seen)
            elif isinstance(f.value, ast.Name) and f.value.id in mod.classes and n.args \
                    and isinstance(n.args[0], ast.Name) and n.args[0].id == "self":
                r = prog.find_method(mod, mod.classes[f.value.id], f.attr)
                if r is not None:
                    delegated(prog, mod, cls, r[2], seen)
    return seen


def rule_spec_total(chk, prog):
    mod, classes = family(prog, "NLDFSettings")
    for cls in classes:
        if cls.name == "NLDFSettings":
            continue
        adm = admitted_values(prog, mod, cls)
        r = prog.find_method(mod, cls, "ueg_vector")
        if r is None or r[1].name in ("BaseSettings",):
            raise core.AnalysisError("%s has no ueg_vector" % cls.name)
        for fn0 in delegated(prog, mod, cls, r[2]):
            owner = pf.enclosing_class(fn0)
            ocls = owner if owner is not None else cls
            fn = hinline.inline_helpers(fn0, hinline.class_resolver(prog, mod, ocls))
            for head, var, lits, els in ladders(fn) + dict_ladders(fn, mod, ocls, prog):
                src_attr = ladder_source(var, head, fn)
                qn = "%s via %s" % (cls.name, pf.qualname(fn))
                if src_attr is None or src_attr not in adm:
                    chk.note("spec-total", "%s:%s" % (ST, qn), "ladder over %s: admitted values unknown" % pf.src(var))
                    continue
                inst = "%s ladder over %s (self.%s) %s" % (qn, pf.src(var), src_attr, lits)
                total = els is not None and not cfgm._raises(els)
                missing = [v for v in adm[src_attr] if v not in lits]
                if total:
                    chk.ok("spec-total", inst + " (non-raising else)", nontrivial=False)
                elif missing:
                    chk.violation("spec-total", ST, pf.qualname(fn), "ladder over %s in %s" % (pf.src(var), cls.name),
                                  head.lineno,
                                  "%s.__init__ admits self.%s values %s but the UEG ladder over `%s` has no branch for "
                                  "%s (%s): ueg_vector fails for a settings object the constructor accepted" % (
                                      cls.name, src_attr, adm[src_attr], pf.src(var), missing,
                                      "falls into the raising else" if els is not None else "silently skipped"),
                                  instance=inst)
                else:
                    chk.ok("spec-total", inst)


# ----------------------------------------------------------------------------
# norm-ueg, vmap-heg  (E-mono)
# ----------------------------------------------------------------------------
def ueg_semilocal_by_mode(prog):
    """slmode -> (rho, inh) of the uniform gas as canonical forms, derived from the source:
    SemilocalSettings.ueg_vector(rho) under self.mode == m gives the raw semilocal rows, which
    FeatNormalizerList._get_rho_and_inh maps (under self.slmode == m) to (rho, inh).  The UEG density
    is taken to lie above the normaliser cutoff (max(rho, self.cutoff) -> rho)."""
    st = prog.module(ST)
    fnm = prog.module(FN)
    # the two mode attributes are the same value: FeatNormalizerList(..., slmode=self.sl_settings.mode)
    fs = st.cls("FeatureSettings")
    sites = [n for m_ in pf.methods(fs).values() for n in pf.walk_no_nested(m_)
             if isinstance(n, ast.Call) and pf.call_name(n) == "FeatNormalizerList"]
    if not sites:
        raise core.AnalysisError("FeatureSettings no longer constructs a FeatNormalizerList")
    for n in sites:
        kw = {k.arg: k.value for k in n.keywords}
        v = kw.get("slmode", n.args[1] if len(n.args) > 1 else None)
        if v is None or pf.src(v) != "self.sl_settings.mode":
            raise core.AnalysisError("FeatNormalizerList is built with slmode=%s, expected self.sl_settings.mode" % (
                pf.src(v) if v is not None else None))
    lst = fnm.cls("FeatNormalizerList")
    init = pf.methods(lst).get("__init__")
    modes = None
    for n in pf.walk_no_nested(init) if init else []:
        if isinstance(n, ast.Compare) and len(n.ops) == 1 and isinstance(n.ops[0], (ast.NotIn, ast.In)) \
                and isinstance(n.left, ast.Name) and n.left.id == "slmode":
            modes = resolve_table(fnm, n.comparators[0])
    if not modes:
        modes = C12.slmode_literals([pf.methods(lst)["_get_rho_and_inh"]]) + [mono.ELSE]
    sl = st.cls("SemilocalSettings")
    uv = pf.methods(sl).get("ueg_vector")
    gri = pf.methods(lst).get("_get_rho_and_inh")
    if uv is None or gri is None:
        raise core.AnalysisError("SemilocalSettings.ueg_vector / FeatNormalizerList._get_rho_and_inh vanished")
    out = {}
    for mode in modes:
        ev = C12.method_evaluator(prog, st, sl, uv, ["RHO"], {"self.mode": mode})
        rows = ev.run_function(uv)
        if not (isinstance(rows, tuple) and all(isinstance(r, Poly) for r in rows)):
            raise core.AnalysisError("SemilocalSettings.ueg_vector(mode=%r) is not a literal row vector: %r" % (mode, rows))
        ev2 = C12.method_evaluator(prog, fnm, lst, gri, ["X"], {"self.slmode": mode})
        ev2.env[gri.args.args[1].arg] = rows
        r = ev2.run_function(gri)
        if not (isinstance(r, tuple) and len(r) == 2 and all(isinstance(v, Poly) for v in r)):
            raise core.AnalysisError("_get_rho_and_inh(slmode=%r) at the UEG is outside the monomial fragment: %r" % (mode, r))
        rho, inh = r
        # UEG density above the cutoff: max(RHO, self.cutoff) == RHO
        RHO = Poly.name("RHO")
        clamp = {a: RHO for a in (rho.atoms() | inh.atoms())
                 if a[0] == "f" and a[1] == "max" and RHO.key in a[2] and len(a[2]) == 2}
        try:
            rho, inh = rho.subst(clamp), inh.subst(clamp)
        except NotComparable as e:
            raise core.AnalysisError("cannot remove the density clamp at the UEG: %s" % e)
        out["<else>" if mode is mono.ELSE else mode] = (rho, inh)
    return out


def rule_norm_ueg(chk, prog):
    mod, classes = C12.normalizer_classes(prog)
    ueg = ueg_semilocal_by_mode(prog)
    chk.extra["ueg_rho_inh_by_slmode"] = {m: {"rho": mono.show(r), "inh": mono.show(i)} for m, (r, i) in ueg.items()}
    lst = mod.cls("FeatNormalizerList")
    uvl = pf.methods(lst).get("ueg_vector")
    if uvl is None:
        raise core.AnalysisError("FeatNormalizerList.ueg_vector vanished")
    calls = [n for n in pf.walk_no_nested(uvl) if isinstance(n, ast.Call) and isinstance(n.func, ast.Attribute)
             and n.func.attr == "get_ueg"]
    if len(calls) != 1:
        raise core.AnalysisError("FeatNormalizerList.ueg_vector: expected one get_ueg call, found %d" % len(calls))
    gcall = calls[0]
    for cls in classes:
        cname = cls.name
        rf = prog.find_method(mod, cls, "fill_fwd")
        ru = prog.find_method(mod, cls, "get_ueg")
        if rf is None or ru is None or rf[1].name == "FeatNormalizer" or ru[1].name == "FeatNormalizer":
            raise core.AnalysisError("%s lacks fill_fwd/get_ueg" % cname)
        bad, good, nc = [], [], []
        for mname, (rho_u, inh_u) in ueg.items():
            mode = mono.ELSE if mname == "<else>" else mname
            ev = C12.method_evaluator(prog, mod, cls, rf[2], C12.FWD_ROLES)
            params = [a.arg for a in rf[2].args.args[1:]]
            ev.env[params[0]] = mono.ONE  # x = 1
            ev.env[params[1]] = rho_u
            ev.env[params[2]] = inh_u
            ev.run_function(rf[2])
            st = [s_ for s_ in ev.stores if isinstance(s_.target, mono.Buf) and s_.target.role == "xn"]
            # the arguments FeatNormalizerList.ueg_vector passes to get_ueg under this slmode
            uparams = [a.arg for a in ru[2].args.args[1:]]
            evl = C12.method_evaluator(prog, mod, lst, uvl, ["RHO"], {"self.slmode": mode})
            evl.elementwise_index = True  # `[0, 0]` of an elementwise expression on a 1-point vector is that expression
            evl.run_function(uvl)  # locals such as a mode-dependent `inh` (possibly computed by pushing a
            # constructed UEG vector through _get_rho_and_inh) are bound before the call

            def at_ueg(v):
                # the UEG density lies above the cutoff: max(RHO, self.cutoff) == RHO
                if not isinstance(v, Poly):
                    return v
                RHO = Poly.name("RHO")
                clamp = {a: RHO for a in v.atoms() if a[0] == "f" and a[1] == "max" and RHO.key in a[2] and len(a[2]) == 2}
                try:
                    return v.subst(clamp) if clamp else v
                except NotComparable:
                    return v

            vals = [at_ueg(evl._safe(lambda a=a: evl.ev(a))) for a in gcall.args]
            kws = {k.arg: at_ueg(evl._safe(lambda k=k: evl.ev(k.value))) for k in gcall.keywords}
            ev2 = C12.method_evaluator(prog, mod, cls, ru[2], ["RHO"] + ["P%d" % i for i in range(len(uparams) - 1)])
            benv = mono.bind_params(ru[2], vals)
            for k, v in kws.items():
                if k in uparams:
                    benv[k] = v
            ev2.env.update(benv)
            U = ev2.run_function(ru[2])
            if len(st) != 1 or st[0].op != "=" or st[0].depth != 0 or not isinstance(st[0].value, Poly) \
                    or not isinstance(U, Poly):
                nc.append((mname, "stores %r, get_ueg %r" % (st, U)))
                continue
            verdict = mono.definitely_different(st[0].value, U)
            if verdict == "equal":
                good.append((mname, U))
            elif verdict == "different":
                bad.append((mname, st[0].value, U, inh_u))
            else:
                nc.append((mname, "%s vs %s" % (mono.show(st[0].value), mono.show(U))))
        inst = "%s get_ueg vs fill_fwd at the UEG, slmodes %s" % (cname, sorted(ueg))
        for mname, why in nc:
            chk.note("norm-ueg", "%s:%s" % (FN, cname), "slmode=%s not comparable: %s" % (mname, why))
            chk.count("norm-ueg not-comparable")
        if bad:
            parts = ["slmode=%s (UEG inh = %s): forward pass multiplies by  %s , reported  %s" % (
                m_, mono.show(i_), mono.show(p_), mono.show(u_)) for m_, p_, u_, i_ in bad]
            chk.violation("norm-ueg", FN, cname + ".get_ueg", "get_ueg vs fill_fwd at the UEG for slmode %s" % (
                "/".join(sorted(m_ for m_, _, _, _ in bad))), ru[2].lineno,
                          "the UEG factor FeatNormalizerList.ueg_vector reports through get_ueg differs from what "
                          "fill_fwd applies to the uniform gas for %s; agrees for %s.  "
                          "FeatureSettings.ueg_vector(with_normalizers=True) is then not the normalised UEG feature" % (
                              "; ".join(parts), [m_ for m_, _ in good] or "no slmode"), instance=inst)
        elif good:
            chk.ok("norm-ueg", inst + " = " + mono.show(good[0][1])[:50])
    # FeatNormalizerList.ueg_vector: None -> 1.0 mirrors None -> identity of get_normalized_feature_vector
    lst = mod.cls("FeatNormalizerList")
    ms = pf.methods(lst)
    if "ueg_vector" not in ms or "get_normalized_feature_vector" not in ms:
        raise core.AnalysisError("FeatNormalizerList.ueg_vector / get_normalized_feature_vector vanished")
    fn = ms["ueg_vector"]
    found = False

    def is_none_test(t):
        return isinstance(t, ast.Compare) and len(t.ops) == 1 and isinstance(t.ops[0], (ast.Is, ast.IsNot)) \
            and isinstance(t.comparators[0], ast.Constant) and t.comparators[0].value is None

    values = []  # (value expression used for a missing normaliser, node)
    for n in pf.walk_no_nested(fn):
        if isinstance(n, ast.If) and is_none_test(n.test):
            none_blk = n.body if isinstance(n.test.ops[0], ast.Is) else n.orelse
            apps = [c for st in none_blk for c in ast.walk(st) if isinstance(c, ast.Call) and
                    isinstance(c.func, ast.Attribute) and c.func.attr == "append" and len(c.args) == 1]
            if len(apps) == 1:
                values.append((apps[0].args[0], apps[0]))
        elif isinstance(n, ast.IfExp) and is_none_test(n.test):
            values.append((n.body if isinstance(n.test.ops[0], ast.Is) else n.orelse, n))
    for a, node in values:
        found = True
        inst = "FeatNormalizerList.ueg_vector: None -> %s" % pf.src(a)
        if isinstance(a, ast.Constant) and not isinstance(a.value, bool) and a.value == 1:
            chk.ok("norm-ueg", inst)
        else:
            chk.violation("norm-ueg", FN, "FeatNormalizerList.ueg_vector", pf.src(node), node.lineno,
                          "a missing normaliser leaves the feature unchanged (get_normalized_feature_vector "
                          "copies it), so its UEG factor must be 1, found %s" % pf.src(a), instance=inst)
    if not found:
        raise core.AnalysisError("FeatNormalizerList.ueg_vector: no `n is None` case (statement or conditional "
                                 "expression) found")


def rule_vmap_heg(chk, prog):
    mod = prog.module(TD)
    fn = mod.func("get_vmap_heg_value")
    names = [a.arg for a in fn.args.args]
    if len(names) != 2:
        raise core.AnalysisError("get_vmap_heg_value: expected (heg, gamma)")
    ev = Evaluator(env={names[0]: Poly.name("HEG"), names[1]: Poly.name("GAMMA")}, module_consts=mod.assigns)
    H = ev.run_function(fn)
    cls = mod.cls("VMap")
    feat = pf.methods(cls).get("fill_feat_")
    if feat is None:
        raise core.AnalysisError("VMap.fill_feat_ vanished")
    y, x = C12.routine_params(feat, 2)
    consts = {"gamma": Poly.name("GAMMA"), "scale": mono.ONE, "center": mono.ZERO}

    def leaf(node):
        if isinstance(node, ast.Subscript) and isinstance(node.value, ast.Name) and node.value.id == x:
            return Poly.name("HEG")
        if pf.is_self_attr(node) and node.attr in consts:
            return consts[node.attr]
        return None

    ev2 = Evaluator(env={y: mono.Buf("y")}, leaf=leaf, module_consts=mod.assigns)
    ev2.run_function(feat)
    st = [s for s in ev2.stores if isinstance(s.target, mono.Buf)]
    inst = "get_vmap_heg_value vs VMap.fill_feat_(x=heg, scale=1, center=0)"
    if len(st) != 1 or not isinstance(st[0].value, Poly) or not isinstance(H, Poly):
        chk.note("vmap-heg", TD, "not comparable: %r / %r" % (st, H))
        chk.count("vmap-heg not-comparable")
        return
    verdict = mono.definitely_different(st[0].value, H)
    if verdict == "equal":
        chk.ok("vmap-heg", inst + " = " + mono.show(H))
    elif verdict == "different":
        chk.violation("vmap-heg", TD, "get_vmap_heg_value", pf.src(fn.body[-1]), fn.lineno,
                      "get_vmap_heg_value returns  %s  but VMap.fill_feat_ with scale=1, center=0 gives  %s  at x=heg: "
                      "a VMap centred with this value is not zero for the uniform gas" % (
                          mono.show(H), mono.show(st[0].value)), instance=inst)
    else:
        chk.note("vmap-heg", TD, "not comparable: %s vs %s" % (mono.show(H), mono.show(st[0].value)))
        chk.count("vmap-heg not-comparable")


# ----------------------------------------------------------------------------
# compose
# ----------------------------------------------------------------------------
def settings_sequence(fn):
    """self.<x>_settings receivers in source order"""
    out = []

    def visit(n):  # depth-first in field order == source order (inlined code carries no positions)
        if pf.is_self_attr(n) and n.attr.endswith("_settings") and isinstance(n.ctx, ast.Load):
            out.append(n.attr)
            return
        for c in ast.iter_child_nodes(n):
            if not isinstance(c, (ast.FunctionDef, ast.AsyncFunctionDef, ast.ClassDef, ast.Lambda)):
                visit(c)

    for st in fn.body:
        visit(st)
    return out


def rule_compose(chk, prog):
    mod = prog.module(ST)
    cls = mod.cls("FeatureSettings")
    ms = inlined_methods(prog, mod, cls)
    names = ["ueg_vector", "get_feat_usps", "get_reasonable_normalizer", "get_feat_loc", "nfeat"]
    seqs = {}
    for nm in names:
        if nm not in ms:
            raise core.AnalysisError("FeatureSettings.%s vanished" % nm)
        seqs[nm] = settings_sequence(ms[nm])
    ref = seqs["ueg_vector"]
    if len(ref) < 5 or len(set(ref)) != len(ref):
        raise core.AnalysisError("FeatureSettings.ueg_vector: expected five distinct *_settings families, found %s" % ref)
    for nm in names[1:]:
        inst = "FeatureSettings.%s order %s" % (nm, [a.replace("_settings", "") for a in seqs[nm]])
        if seqs[nm] == ref:
            chk.ok("compose", inst)
        elif sorted(seqs[nm]) != sorted(ref):
            raise core.AnalysisError("FeatureSettings.%s no longer names the five *_settings families directly (%s); "
                                     "cannot compare its order with ueg_vector" % (nm, seqs[nm]))
        else:
            chk.violation("compose", ST, "FeatureSettings." + nm, "family order", ms[nm].lineno,
                          "%s concatenates the feature families as %s but ueg_vector as %s: entries of the UEG "
                          "vector no longer line up with the entries of %s" % (nm, seqs[nm], ref, nm), instance=inst)
    # get_feat_loc: cumsum of [0, families...]
    fl = ms["get_feat_loc"]
    okc = False
    for n in pf.walk_no_nested(fl):
        if isinstance(n, ast.Call) and pf.call_name(n) in ("np.cumsum", "numpy.cumsum") and n.args \
                and isinstance(n.args[0], (ast.List, ast.Tuple)) and n.args[0].elts \
                and isinstance(n.args[0].elts[0], ast.Constant) and n.args[0].elts[0].value == 0:
            okc = True
    if okc:
        chk.ok("compose", "get_feat_loc = cumsum([0, families...])")
    else:
        chk.violation("compose", ST, "FeatureSettings.get_feat_loc", "cumsum([0, ...])", fl.lineno,
                      "get_feat_loc is no longer the cumulative sum starting at 0 of the family sizes")
    # with_normalizers: elementwise product with normalizers.ueg_vector(rho)
    uv = ms["ueg_vector"]
    hit = [n for n in pf.walk_no_nested(uv) if isinstance(n, ast.AugAssign) and isinstance(n.op, ast.Mult)
           and "normalizers.ueg_vector" in pf.src(n.value)]
    if hit:
        chk.ok("compose", "ueg_vector(with_normalizers) multiplies by normalizers.ueg_vector")
    else:
        chk.note("compose", ST, "with_normalizers branch of FeatureSettings.ueg_vector has an unrecognised shape")


# ----------------------------------------------------------------------------
# rho-forward
# ----------------------------------------------------------------------------
UEG_ROUTINES = ("ueg_vector", "get_ueg", "_ueg_rho_mult", "_get_ueg_expnt")


def rule_rho_forward(chk, prog):
    defs = {}  # routine name -> list of FunctionDef (to find the position of rho)
    for rel in (ST, FN):
        mod = prog.module(rel)
        for f in mod.functions.values():
            if f.name in UEG_ROUTINES:
                defs.setdefault(f.name, []).append(f)
        for c in mod.classes.values():
            for f in pf.methods(c).values():
                if f.name in UEG_ROUTINES:
                    defs.setdefault(f.name, []).append(f)
    for rel in (ST, FN):
        mod = prog.module(rel)
        fns = [(None, f) for f in mod.functions.values()]
        for c in mod.classes.values():
            fns += [(c, f) for f in pf.methods(c).values()]
        for c, fn in fns:
            if fn.name not in UEG_ROUTINES:
                continue
            pnames = [a.arg for a in fn.args.args]
            if "rho" not in pnames:
                continue
            # rho must not be rebound before use
            for n in pf.walk_no_nested(fn):
                if not isinstance(n, ast.Call):
                    continue
                f = n.func
                cal = f.attr if isinstance(f, ast.Attribute) else (f.id if isinstance(f, ast.Name) else None)
                if cal not in UEG_ROUTINES or cal not in defs:
                    continue
                # position of rho in the callee (all definitions agree?)
                poss = set()
                for d in defs[cal]:
                    dn = [a.arg for a in d.args.args]
                    if "rho" in dn:
                        poss.add(dn.index("rho") - (1 if dn and dn[0] in ("self", "cls") else 0))
                if len(poss) != 1:
                    continue
                pos = poss.pop()
                args = list(n.args)
                explicit_self = isinstance(f, ast.Attribute) and isinstance(f.value, ast.Name) \
                    and f.value.id in mod.classes and args and isinstance(args[0], ast.Name) and args[0].id == "self"
                if explicit_self:
                    args = args[1:]
                val = None
                for kw in n.keywords:
                    if kw.arg == "rho":
                        val = kw.value
                if val is None and pos < len(args):
                    val = args[pos]
                qn = pf.qualname(fn)
                inst = "%s -> %s" % (qn, pf.src(n)[:70])
                if val is not None and any(isinstance(x, ast.Name) and x.id == "rho" for x in ast.walk(val)):
                    chk.ok("rho-forward", inst)
                else:
                    chk.violation("rho-forward", rel, qn, pf.src(n), n.lineno,
                                  "%s(rho) calls %s %s: the callee evaluates the uniform gas at %s instead of the "
                                  "requested density" % (
                                      fn.name, cal, "without rho" if val is None else "with `%s`" % pf.src(val),
                                      "its default rho=1.0" if val is None else pf.src(val)), instance=inst)


# ----------------------------------------------------------------------------
# emit-order
# ----------------------------------------------------------------------------
def emission_tree(fn):
    """For methods that build one list by `.append` in for-loops and/or list comprehensions
    (`L = [..]`, `L += [..]`, `L.extend([..])`, `return [..]`) and return it: canonical nested
    tuple of (iteration source, children) with 'E' leaves; None otherwise."""
    rets = [n for n in pf.walk_no_nested(fn) if isinstance(n, ast.Return)]
    if len(rets) != 1:
        return None

    def canon_iter(it, ren):
        if pf.call_name(it) == "enumerate" and len(it.args) == 1:
            it = it.args[0]  # enumerate(X) walks X in the same order
        s = pf.src(it)
        for old, new in ren.items():
            s = _rename(s, it, old, new)
        return s

    def comp_tree(c, ren, depth):
        """[e for a in A for b in B]  ==  for a in A: for b in B: emit"""
        def rec(gens, ren, depth):
            if not gens:
                return ("E",)
            g = gens[0]
            src = canon_iter(g.iter, ren)
            r2 = dict(ren)
            for t in ast.walk(g.target):
                if isinstance(t, ast.Name):
                    r2[t.id] = "$%d" % depth
            return ((src, rec(gens[1:], r2, depth + 1)),)
        return rec(c.generators, ren, depth)

    if isinstance(rets[0].value, ast.ListComp):
        if any(isinstance(n, ast.Return) for n in []):
            return None
        return comp_tree(rets[0].value, {}, 0)
    if not isinstance(rets[0].value, ast.Name):
        return None
    lst = rets[0].value.id

    def is_lst(n):
        return isinstance(n, ast.Name) and n.id == lst

    accounted = {id(rets[0].value)}
    tree = []
    ok = [True]
    inited = [False]

    def walk(stmts, ren, depth, top):
        out = []
        for st in stmts:
            if isinstance(st, ast.Assign) and len(st.targets) == 1 and is_lst(st.targets[0]):
                accounted.add(id(st.targets[0]))
                v = st.value
                if not top or inited[0]:
                    # L = L + [..] is a concatenation; any other re-binding is not understood
                    if isinstance(v, ast.BinOp) and isinstance(v.op, ast.Add) and is_lst(v.left) \
                            and isinstance(v.right, ast.ListComp):
                        accounted.add(id(v.left))
                        out += list(comp_tree(v.right, ren, depth))
                        continue
                    ok[0] = False
                    continue
                inited[0] = True
                if isinstance(v, ast.List) and not v.elts:
                    continue
                if isinstance(v, ast.ListComp):
                    out += list(comp_tree(v, ren, depth))
                    continue
                ok[0] = False
            elif isinstance(st, ast.AugAssign) and is_lst(st.target) and isinstance(st.op, ast.Add):
                accounted.add(id(st.target))
                if isinstance(st.value, ast.ListComp):
                    out += list(comp_tree(st.value, ren, depth))
                else:
                    ok[0] = False
            elif isinstance(st, ast.For):
                src = canon_iter(st.iter, ren)
                r2 = dict(ren)
                for t in ast.walk(st.target):
                    if isinstance(t, ast.Name):
                        r2[t.id] = "$%d" % depth
                sub = tuple(walk(st.body, r2, depth + 1, False))
                if sub:  # loops that emit nothing do not take part in the order
                    out.append((src, sub))
            elif isinstance(st, (ast.If, ast.Try, ast.With)):
                for blk in ("body", "orelse", "finalbody"):
                    out += walk(getattr(st, blk, []) or [], ren, depth, False)
                for h in getattr(st, "handlers", []):
                    out += walk(h.body, ren, depth, False)
            else:
                for c in ast.walk(st):
                    if isinstance(c, ast.Call) and isinstance(c.func, ast.Attribute) and is_lst(c.func.value):
                        accounted.add(id(c.func.value))
                        if c.func.attr == "append" and len(c.args) == 1:
                            out.append("E")
                        elif c.func.attr == "extend" and len(c.args) == 1 and isinstance(c.args[0], ast.ListComp):
                            out += list(comp_tree(c.args[0], ren, depth))
                        else:
                            ok[0] = False
                    elif isinstance(c, ast.Call) and pf.call_name(c) == "len" and len(c.args) == 1 and is_lst(c.args[0]):
                        accounted.add(id(c.args[0]))  # reading the current length does not change the order
        return out

    tree = walk(fn.body, {}, 0, True)
    if not ok[0] or not inited[0]:
        return None
    for n in pf.walk_no_nested(fn):
        if is_lst(n) and id(n) not in accounted:
            return None  # the list is used in a way this interpretation does not cover

    def prune(t):
        out = []
        for n in t:
            if n == "E":
                out.append(n)
            else:
                sub = prune(n[1])
                if sub:
                    out.append((n[0], sub))
        return tuple(out)

    return prune(tree)


def _rename(s, node, old, new):
    # textual rename of a loop variable inside an iterator expression, on identifier boundaries
    import re
    return re.sub(r"\b%s\b" % re.escape(old), new, s)


def tree_sources(t):
    out = set()
    for n in t:
        if n == "E":
            continue
        out.add(n[0])
        out |= tree_sources(n[1])
    return out


def tree_depth(t):
    d = 0
    for n in t:
        if n != "E":
            d = max(d, 1 + tree_depth(n[1]))
    return d


def show_tree(t):
    return "[" + ", ".join("emit" if n == "E" else "for %s: %s" % (n[0], show_tree(n[1])) for n in t) + "]"


def iteration_order(prog, mod, cls, e, depth=0):
    """(container source, 'sorted' | 'insertion' | 'reversed') of an iteration source, following properties
    of the same object; None when it is not a walk over an attribute of self"""
    if depth > 4:
        return None
    name = pf.call_name(e) if isinstance(e, ast.Call) else None
    if name == "sorted" and e.args:
        r = iteration_order(prog, mod, cls, e.args[0], depth + 1)
        return (r[0], "sorted") if r else None
    if name == "reversed" and e.args:
        r = iteration_order(prog, mod, cls, e.args[0], depth + 1)
        return (r[0], "reversed:" + r[1]) if r else None
    if name in ("list", "tuple", "iter", "enumerate") and e.args:
        return iteration_order(prog, mod, cls, e.args[0], depth + 1)
    if isinstance(e, ast.Call) and isinstance(e.func, ast.Attribute) and e.func.attr in ("keys", "items", "values") \
            and not e.args:
        return iteration_order(prog, mod, cls, e.func.value, depth + 1)
    if pf.is_self_attr(e):
        r = prog.find_method(mod, cls, e.attr)
        if r is not None and any(pf.src(d) == "property" for d in r[2].decorator_list):
            rets = [n for n in pf.walk_no_nested(r[2]) if isinstance(n, ast.Return) and n.value is not None]
            if len(rets) == 1:
                return iteration_order(prog, mod, cls, rets[0].value, depth + 1)
            return None
        return ("self." + e.attr, "insertion")
    return None


def rule_outer_order(chk, prog):
    """per-feature methods of one class whose emitting loops walk the same container walk it in the same order"""
    mod = prog.module(ST)
    for m, cls in prog.subclasses("BaseSettings"):
        if m.rel != ST:
            continue
        seen = {}  # container -> {method: order}
        for nm in PER_FEATURE:
            fn = pf.methods(cls).get(nm)
            if fn is None:
                continue
            for n in pf.walk_no_nested(fn):
                if not isinstance(n, ast.For) or _enclosing_fors(n, fn):
                    continue  # outermost loops only
                emits = any(isinstance(c, ast.Call) and isinstance(c.func, ast.Attribute) and c.func.attr in ("append", "extend")
                            for c in ast.walk(n))
                if not emits:
                    continue
                r = iteration_order(prog, mod, cls, n.iter)
                if r is not None:
                    seen.setdefault(r[0], {}).setdefault(nm, set()).add(r[1])
        for cont, per in seen.items():
            if len(per) < 2:
                continue
            ref_nm = "get_feat_usps" if "get_feat_usps" in per else sorted(per)[0]
            for nm in sorted(per):
                if nm == ref_nm:
                    continue
                inst = "%s: %s walks %s %s, %s %s" % (cls.name, nm, cont, sorted(per[nm]), ref_nm, sorted(per[ref_nm]))
                if per[nm] == per[ref_nm]:
                    chk.ok("emit-order", inst)
                else:
                    chk.violation("emit-order", ST, "%s.%s" % (cls.name, nm), "order of %s" % cont, pf.methods(cls)[nm].lineno,
                                  "%s.%s emits its per-feature entries while walking %s in %s order, but %s walks it in "
                                  "%s order: unless the container happens to be filled in sorted order, entry k of one "
                                  "list does not describe feature k of the other" % (
                                      cls.name, nm, cont, "/".join(sorted(per[nm])), ref_nm, "/".join(sorted(per[ref_nm]))),
                                  instance=inst)


def rule_emit_order(chk, prog):
    mod = prog.module(ST)
    names = ("ueg_vector", "get_feat_usps", "get_reasonable_normalizer")
    for m, cls in prog.subclasses("BaseSettings"):
        if m.rel != ST:
            continue
        trees = {}
        for nm in names:
            fn = pf.methods(cls).get(nm)
            if fn is None:
                continue
            t = emission_tree(fn)
            if t is not None and tree_depth(t) >= 2:
                trees[nm] = t
        if "ueg_vector" not in trees:
            continue
        a = "ueg_vector"
        for b in sorted(trees):
            if b != a:
                if tree_sources(trees[a]) != tree_sources(trees[b]):
                    continue
                inst = "%s.%s vs %s" % (cls.name, a, b)
                if trees[a] == trees[b]:
                    chk.ok("emit-order", inst + " " + show_tree(trees[a])[:80])
                else:
                    chk.violation("emit-order", ST, cls.name, "%s vs %s" % (a, b), pf.methods(cls)[b].lineno,
                                  "%s.%s enumerates its features as %s but %s as %s: with more than one outer item the "
                                  "two per-feature lists are ordered differently, so entry k of one does not describe "
                                  "feature k of the other" % (cls.name, a, show_tree(trees[a]), b, show_tree(trees[b])),
                                  instance=inst)


# ----------------------------------------------------------------------------
# emit-index: a flat per-feature list is indexed by the emission position
# ----------------------------------------------------------------------------
PER_FEATURE = ("ueg_vector", "get_feat_usps", "get_reasonable_normalizer")


def _enclosing_fors(node, fn):
    out = []
    p = pf.parent(node)
    child = node
    while p is not None and p is not fn:
        if isinstance(p, ast.For) and any(child is s for s in p.body + p.orelse):
            out.append(p)
        elif isinstance(p, ast.For) and child is not p.iter and child is not p.target:
            out.append(p)
        child, p = p, pf.parent(p)
    return out  # innermost first


def rule_emit_index(chk, prog):
    for m, cls in prog.subclasses("BaseSettings"):
        if m.rel != ST:
            continue
        for nm in PER_FEATURE:
            fn = pf.methods(cls).get(nm)
            if fn is None or emission_tree(fn) is None:
                continue
            # flat per-feature lists: L = self.<per-feature method>()[optional slice]
            flat = {}
            for n in pf.walk_no_nested(fn):
                if isinstance(n, ast.Assign) and len(n.targets) == 1 and isinstance(n.targets[0], ast.Name):
                    v = n.value
                    if isinstance(v, ast.Subscript) and isinstance(v.slice, ast.Slice):
                        v = v.value
                    if isinstance(v, ast.Call) and isinstance(v.func, ast.Attribute) and pf.is_self_attr(v.func) \
                            and v.func.attr in PER_FEATURE:
                        flat[n.targets[0].id] = v.func.attr
            for n in pf.walk_no_nested(fn):
                if not (isinstance(n, ast.Subscript) and isinstance(n.value, ast.Name) and n.value.id in flat
                        and isinstance(n.slice, ast.Name) and isinstance(n.ctx, ast.Load)):
                    continue
                chain = _enclosing_fors(n, fn)
                if not chain:
                    continue
                idx = n.slice.id
                qn = "%s.%s" % (cls.name, nm)
                inst = "%s %s (from %s)" % (qn, pf.src(n), flat[n.value.id])
                binds, incs = [], []
                for b in pf.walk_no_nested(fn):
                    if isinstance(b, ast.Assign) and any(
                            isinstance(t, ast.Name) and t.id == idx for tt in b.targets for t in ast.walk(tt)):
                        binds.append(b)
                    elif isinstance(b, ast.For) and _target_pos(b.target, idx) is not None:
                        binds.append(b)
                    elif isinstance(b, ast.AugAssign) and isinstance(b.target, ast.Name) and b.target.id == idx:
                        if isinstance(b.op, ast.Add) and isinstance(b.value, ast.Constant) and b.value.value == 1:
                            incs.append(b)
                        else:
                            binds.append(b)
                if not binds:
                    raise core.AnalysisError("%s: index %s of %s is never bound" % (qn, idx, pf.src(n)))
                bad = None
                rets = [r for r in pf.walk_no_nested(fn) if isinstance(r, ast.Return) and isinstance(r.value, ast.Name)]
                emitted = rets[0].value.id if rets else None
                for b in binds:
                    if isinstance(b, ast.Assign) and pf.src(b.value) == "len(%s)" % emitted:
                        continue  # the emission position itself
                    anc = _enclosing_fors(b, fn)
                    shared = [f for f in anc if any(f is c for c in chain)]
                    if shared:
                        bad = (b, shared[-1])
                if bad is not None:
                    b, outer = bad
                    how = ("is the target of `for %s in %s`" % (pf.src(b.target), pf.src(b.iter)[:50])
                           if isinstance(b, ast.For) else "is set by `%s`" % pf.src(b)[:50])
                    chk.violation("emit-index", ST, qn, pf.src(n), n.lineno,
                                  "%s indexes the flat per-feature list %s (= self.%s()) but %s %s inside the enclosing "
                                  "loop `for %s in %s`, so it restarts on every outer iteration while the position of "
                                  "the appended element keeps growing: from the second outer item on, entry k is built "
                                  "from the description of another feature" % (
                                      pf.src(n), n.value.id, flat[n.value.id], idx, how, pf.src(outer.target),
                                      pf.src(outer.iter)[:40]), instance=inst)
                    continue
                plain = [b for b in binds if isinstance(b, ast.Assign) and pf.src(b.value) != "len(%s)" % emitted]
                if plain and not any(any(f is chain[0] for f in _enclosing_fors(i_, fn)) for i_ in incs):
                    chk.violation("emit-index", ST, qn, pf.src(n), n.lineno,
                                  "%s: the counter %s is initialised by `%s` but never advanced inside the loop that "
                                  "appends the elements" % (pf.src(n), idx, pf.src(plain[0])[:50]), instance=inst)
                    continue
                chk.ok("emit-index", inst)


# ----------------------------------------------------------------------------
# rho-mult-theta: the density prefactor of rho_mult="expnt" is computed from theta_params only
# ----------------------------------------------------------------------------
class Deps:
    """flow-sensitive (loops iterated twice) dependency sets of local names on the parameter
    sources 'theta' (self.theta_params), 'feat' (self.feat_params), 'rho'."""

    def __init__(self, prog, mod, cls, watch):
        self.prog, self.mod, self.cls, self.watch = prog, mod, cls, watch
        self.hits = {}  # id(call node) -> (fn qualname, node, deps)
        self.depth = 0

    def expr(self, e, env):
        if e is None:
            return frozenset()
        if isinstance(e, ast.Name):
            return env.get(e.id, frozenset())
        if pf.is_self_attr(e):
            return frozenset({"theta"}) if e.attr == "theta_params" else (
                frozenset({"feat"}) if e.attr == "feat_params" else frozenset())
        if isinstance(e, ast.Call):
            r = self.call(e, env)
            if r is not None:
                return r
        if isinstance(e, (ast.ListComp, ast.GeneratorExp, ast.SetComp)):
            env2 = dict(env)
            for g in e.generators:
                d = self.expr(g.iter, env2)
                for t in ast.walk(g.target):
                    if isinstance(t, ast.Name):
                        env2[t.id] = d
            return self.expr(e.elt, env2)
        out = frozenset()
        for c in ast.iter_child_nodes(e):
            if isinstance(c, ast.expr):
                out |= self.expr(c, env)
            elif isinstance(c, ast.keyword):
                out |= self.expr(c.value, env)
        return out

    def call(self, e, env):
        f = e.func
        callee = None
        args = list(e.args)
        if isinstance(f, ast.Attribute) and isinstance(f.value, ast.Name):
            if f.value.id == "self":
                r = self.prog.find_method(self.mod, self.cls, f.attr)
                callee = r[2] if r else None
            elif f.value.id in self.mod.classes and args and isinstance(args[0], ast.Name) and args[0].id == "self":
                r = self.prog.find_method(self.mod, self.mod.classes[f.value.id], f.attr)
                callee = r[2] if r else None
                args = args[1:]
        if callee is None or self.depth > 4 or any(pf.src(d) == "property" for d in callee.decorator_list):
            return None
        params = [a.arg for a in callee.args.args[1:]]
        env2 = {p: frozenset() for p in params}
        for p, a in zip(params, args):
            env2[p] = self.expr(a, env)
        for kw in e.keywords:
            if kw.arg in env2:
                env2[kw.arg] = self.expr(kw.value, env)
        self.depth += 1
        try:
            rets = []
            self.block(callee.body, env2, rets, callee)
        finally:
            self.depth -= 1
        d = frozenset().union(*rets) if rets else frozenset()
        if callee.name == self.watch:
            old = self.hits.get(id(e))
            self.hits[id(e)] = (self.cur, e, d | (old[2] if old else frozenset()))
        return d

    def bind(self, t, d, env, weak=False):
        if isinstance(t, ast.Name):
            env[t.id] = (env.get(t.id, frozenset()) | d) if weak else d
        elif isinstance(t, (ast.Tuple, ast.List)):
            for x in t.elts:
                self.bind(x, d, env, weak)
        else:
            b = pf.base_name(t)
            if b and b != "self":
                env[b] = env.get(b, frozenset()) | d

    def block(self, stmts, env, rets, fn):
        for st in stmts:
            if isinstance(st, ast.Assign):
                d = self.expr(st.value, env)
                for t in st.targets:
                    self.bind(t, d, env)
            elif isinstance(st, ast.AugAssign):
                self.bind(st.target, self.expr(st.value, env), env, weak=True)
            elif isinstance(st, ast.Return):
                rets.append(self.expr(st.value, env))
            elif isinstance(st, ast.If):
                self.expr(st.test, env)
                e1, e2 = dict(env), dict(env)
                self.block(st.body, e1, rets, fn)
                self.block(st.orelse, e2, rets, fn)
                for k in set(e1) | set(e2):
                    env[k] = e1.get(k, frozenset()) | e2.get(k, frozenset())
            elif isinstance(st, (ast.For, ast.While)):
                for _ in range(2):
                    if isinstance(st, ast.For):
                        self.bind(st.target, self.expr(st.iter, env), env)
                    e1 = dict(env)
                    self.block(st.body, e1, rets, fn)
                    for k in set(e1):
                        env[k] = env.get(k, frozenset()) | e1[k]
                self.block(st.orelse, env, rets, fn)
            elif isinstance(st, ast.Try):
                self.block(st.body, env, rets, fn)
                for h in st.handlers:
                    self.block(h.body, dict(env), rets, fn)
                self.block(st.orelse, env, rets, fn)
                self.block(st.finalbody, env, rets, fn)
            elif isinstance(st, ast.With):
                self.block(st.body, env, rets, fn)
            elif isinstance(st, ast.Expr):
                v = st.value
                d = self.expr(v, env)
                if isinstance(v, ast.Call) and isinstance(v.func, ast.Attribute) and isinstance(v.func.value, ast.Name) \
                        and v.func.value.id != "self":
                    env[v.func.value.id] = env.get(v.func.value.id, frozenset()) | d

    def run(self, fn):
        self.cur = pf.qualname(fn)
        env = {a.arg: frozenset({"rho"}) if a.arg == "rho" else frozenset() for a in fn.args.args[1:]}
        self.block(fn.body, env, [], fn)


def rule_rho_mult_theta(chk, prog):
    mod, classes = family(prog, "NLDFSettings")
    for cls in classes:
        if cls.name == "NLDFSettings":
            continue
        r = prog.find_method(mod, cls, "ueg_vector")
        if r is None:
            raise core.AnalysisError("%s has no ueg_vector" % cls.name)
        dp = Deps(prog, mod, cls, "_ueg_rho_mult")
        dp.run(r[2])
        for _, (where, node, d) in sorted(dp.hits.items(), key=lambda kv: kv[1][1].lineno):
            fnode = pf.enclosing_func(node)
            qn = pf.qualname(fnode) if fnode else where
            inst = "%s: %s in %s depends on %s" % (cls.name, pf.src(node)[:50], qn, sorted(d))
            if "feat" in d:
                chk.violation("rho-mult-theta", ST, qn, pf.src(node), node.lineno,
                              "for %s the density prefactor returned by %s depends on self.feat_params (%s); "
                              "rho_mult='expnt' multiplies the density by the exponent given by theta_params alone "
                              "(ALLOWED_RHO_MULTS), so the reported UEG value carries a per-feature factor that the "
                              "computed feature does not have" % (cls.name, pf.src(node)[:60], sorted(d)), instance=inst)
            elif "theta" not in d:
                chk.violation("rho-mult-theta", ST, qn, pf.src(node), node.lineno,
                              "for %s the density prefactor returned by %s does not depend on self.theta_params (%s)" % (
                                  cls.name, pf.src(node)[:60], sorted(d)), instance=inst)
            else:
                chk.ok("rho-mult-theta", inst)


# ----------------------------------------------------------------------------
# ueg-moment: the closed-form UEG integral of every spec, relative to `se`, is the Gaussian moment
# that the kernel definition of that spec implies (the same reference C02 `chain-j` / `chain-i`
# checks the C coefficients against)
# ----------------------------------------------------------------------------
# T = total exponent of the Gaussian the density is integrated against, E = exponent of the r
# coordinate (feat_params), X = erf multiplier (last parameter)
J_MOMENTS = {"se": "1", "se_ar2": "3.0 / 2 * E / T", "se_a2r4": "15.0 / 4 * E ** 2 / T ** 2",
             "se_erf_rinv": "(1 + X * E / T) ** (-1.0 / 2)"}
# version i: <r^2> = 3/(2T); se_ap = T*se, se_apr2 = T*se_r2, se_ap2r2 = T^2*se_r2, se_lapl = 4*se_ap2r2 - 2*se_ap
I_MOMENTS = {"se": "1", "se_r2": "3.0 / 2 / T", "se_apr2": "3.0 / 2", "se_ap": "T", "se_ap2r2": "3.0 / 2 * T",
             "se_lapl": "4 * (3.0 / 2 * T) - 2 * T"}


def rule_ueg_moment(chk, prog):
    mod, classes = family(prog, "NLDFSettings")
    chk.extra["moment_reference"] = {"j": J_MOMENTS, "i": I_MOMENTS}
    for cls in classes:
        fn0 = pf.methods(cls).get("ueg_vector")
        if fn0 is None or cls.name == "NLDFSettings":
            continue
        fn = hinline.inline_helpers(fn0, hinline.class_resolver(prog, mod, cls, exclude=("_ueg_rho_mult", "_get_ueg_expnt")))
        lads = [l for l in ladders(fn) + dict_ladders(fn, mod, cls, prog) if isinstance(l[1], ast.Name)]
        if not lads:
            continue  # composed classes (version ij) delegate to the classes checked here
        if len(lads) != 1:
            raise core.AnalysisError("%s.ueg_vector: expected one spec ladder, found %d" % (cls.name, len(lads)))
        head, var, lits, els = lads[0]
        table = J_MOMENTS if set(lits) <= set(J_MOMENTS) else (I_MOMENTS if set(lits) <= set(I_MOMENTS) else None)
        if table is None or "se" not in lits:
            raise core.AnalysisError("%s.ueg_vector: ladder %s matches no moment table" % (cls.name, lits))
        rho_name = fn.args.args[1].arg if len(fn.args.args) > 1 else "rho"

        def run(spec):
            got = []

            def leaf(node):
                if isinstance(node, ast.Subscript):
                    if pf.is_self_attr(node.value, "theta_params"):
                        return Poly.name("TH")
                    if params_like(node.value, fn, True) in ("element of self.feat_params", "self.feat_params[.]"):
                        k = node.slice
                        neg1 = isinstance(k, ast.UnaryOp) and isinstance(k.op, ast.USub) and pf.src(k.operand) == "1"
                        return Poly.name("X") if neg1 else Poly.name("FP")
                return None

            def hook(node, ev):
                nm = pf.call_name(node) or ""
                if nm.endswith("_get_ueg_expnt") and node.args:
                    a = ev._safe(lambda: ev.poly(node.args[0]))
                    if not isinstance(a, Poly):
                        return None
                    names = {x[1] for x in a.atoms() if x[0] == "n"}
                    if names == {"TH", "FP"}:
                        return Poly.name("S")
                    if names == {"FP"}:
                        return Poly.name("E")
                    if names == {"TH"}:
                        return Poly.name("A")
                    return None
                if nm.endswith("_ueg_rho_mult"):
                    return Poly.name("RM")
                if isinstance(node.func, ast.Attribute) and node.func.attr == "append" and len(node.args) == 1:
                    got.append(ev._safe(lambda: ev.poly(node.args[0])))
                    return mono.PyConst(None)
                return None

            ev = Evaluator(env={rho_name: Poly.name("RHO")}, assume={pf.src(var): spec}, leaf=leaf, call=hook,
                           module_consts=mod.assigns)
            ev.eval_expr_calls = True
            ev.run_function(fn)
            vals = [g for g in got if isinstance(g, Poly)]
            return vals[0] if len(got) == 1 and vals else (got[0] if got else None)

        base = run("se")
        if not isinstance(base, Poly) or not base.is_monomial():
            raise core.AnalysisError("%s.ueg_vector: UEG value of spec 'se' is outside the monomial fragment (%r)" % (cls.name, base))
        names = {a[1] for a in base.atoms() if a[0] == "n"}
        T = "S" if "S" in names else ("E" if "E" in names else "A")
        env = {"T": Poly.name(T), "E": Poly.name("E") if T != "A" else Poly.name(T), "X": Poly.name("X")}
        for spec in lits:
            if spec == "se":
                continue
            qn = "%s.ueg_vector" % cls.name
            inst = "%s spec %s relative to se" % (qn, spec)
            got = run(spec)
            want = Evaluator(env=env).ev(ast.parse(table[spec], mode="eval").body)
            if not isinstance(got, Poly):
                chk.note("ueg-moment", "%s:%s" % (ST, qn), "spec %s: value outside the monomial fragment (%r)" % (spec, got))
                chk.count("ueg-moment not-comparable")
                continue
            try:
                ratio = got / base
            except NotComparable as e:
                chk.note("ueg-moment", "%s:%s" % (ST, qn), "spec %s: %s" % (spec, e))
                chk.count("ueg-moment not-comparable")
                continue
            verdict = mono.definitely_different(ratio, want)
            if verdict == "equal":
                chk.ok("ueg-moment", inst + " = " + mono.show(want)[:50])
            elif verdict == "different":
                chk.violation("ueg-moment", ST, qn, "spec %s" % spec, head.lineno,
                              "the UEG value of spec %r divided by that of 'se' is  %s  but the kernel of %r integrated "
                              "against a Gaussian of total exponent %s has the moment  %s  (T = total exponent%s); the "
                              "reported UEG feature differs from the feature computed for a uniform density" % (
                                  spec, mono.show(ratio), spec, T, mono.show(want),
                                  ", E = exponent from feat_params, X = erf multiplier" if table is J_MOMENTS else ""),
                              instance=inst)
            else:
                chk.note("ueg-moment", "%s:%s" % (ST, qn), "spec %s not comparable: %s vs %s" % (
                    spec, mono.show(ratio), mono.show(want)))
                chk.count("ueg-moment not-comparable")


# ----------------------------------------------------------------------------
# ueg-expnt: the UEG exponent used by the closed forms is what the callers assume it is
# ----------------------------------------------------------------------------
def rule_ueg_expnt(chk, prog):
    """_get_ueg_expnt(a, t, rho) is called by every NLDF ueg_vector with (i) the GGA grad_mul in place of
    t when sl_level == 'GGA' and (ii) sums of parameter sets (version j: a0i + a0t, t0i + t0t).  Both are
    right only if, at the UEG point (sigma = 0, tau = tau_unif), the exponent does not depend on t and is
    linear in a - and for (i) it must be the GGA exponent function at the UEG.  Decided on the canonical
    form of the exponent function evaluated at the arguments _get_ueg_expnt passes."""
    mod = prog.module(ST)
    fn = mod.functions.get("_get_ueg_expnt")
    gga = mod.functions.get("get_cider_exponent_gga")
    if fn is None or gga is None:
        raise core.AnalysisError("_get_ueg_expnt / get_cider_exponent_gga vanished from %s" % ST)
    names = [a.arg for a in fn.args.args]
    if len(names) != 3:
        raise core.AnalysisError("_get_ueg_expnt: expected (aval, tval, rho)")
    assume = {}
    for f in mod.functions.values():
        for n in pf.walk_no_nested(f):
            if isinstance(n, ast.Call) and pf.call_name(n) == "isinstance" and len(n.args) == 2 \
                    and "ndarray" in pf.src(n.args[1]):
                assume[pf.src(n)] = True  # arrays in, arrays out: the scalar wrapper does not change the formula

    def run(f, vals, kws=None):
        env = mono.bind_params(f, vals, skip_self=False)
        for k, v in (kws or {}).items():
            env[k] = v

        def hook(node, ev, _d=[0]):
            g = node.func
            if isinstance(g, ast.Name) and g.id in mod.functions and _d[0] < 4:
                callee = mod.functions[g.id]
                vs = [ev._safe(lambda a=a: ev.ev(a)) for a in node.args]
                cenv = mono.bind_params(callee, vs, skip_self=False)
                pn = [a.arg for a in callee.args.args]
                for kw in node.keywords:
                    if kw.arg in pn:
                        cenv[kw.arg] = ev._safe(lambda kw=kw: ev.ev(kw.value))
                sub = Evaluator(env=cenv, assume=assume, call=hook, module_consts=mod.assigns)
                _d[0] += 1
                try:
                    return sub.run_function(callee)
                finally:
                    _d[0] -= 1
            return None

        ev = Evaluator(env=env, assume=assume, call=hook, module_consts=mod.assigns)
        return ev.run_function(f)

    A, T, RHO = Poly.name("A"), Poly.name("T"), Poly.name("RHO")
    E = run(fn, [A, T, RHO])
    inst = "_get_ueg_expnt(A, T, RHO)"
    if not isinstance(E, Poly):
        raise core.AnalysisError("_get_ueg_expnt is outside the monomial fragment at the UEG point: %r" % (E,))
    E = mono.drop_inactive_clamps(E)
    chk.extra["ueg_exponent"] = mono.show(E)
    clamps = [a for a in E.atoms() if a[0] == "f" and a[1] in ("max", "min")
              and any(mono.occurs(mono.from_key(k), ("n", v)) for k in a[2] for v in ("A", "T"))]
    if clamps:
        chk.violation("ueg-expnt", ST, "_get_ueg_expnt", "clamp in the UEG exponent", fn.lineno,
                      "at the UEG point the exponent is  %s : it contains the clamp %s, which is active for part of the "
                      "accepted parameters (only a0 > 0 and multipliers >= 0 are enforced).  The closed forms call "
                      "_get_ueg_expnt with the GGA grad_mul in place of tau_mul and with sums of parameter sets, which is "
                      "right only if the tau_mul terms cancel exactly and the exponent is linear in a0" % (
                          mono.show(E)[:200], ", ".join(mono.show_atom(a) for a in clamps)), instance=inst + " clamp-free")
        return
    chk.ok("ueg-expnt", inst + " clamp-free")
    checks = []
    try:
        dT = mono.diff(E, ("n", "T"))
        checks.append(("independent of tval", mono.definitely_different(dT, mono.ZERO),
                       "d/dT = %s" % mono.show(dT)[:120],
                       "GGA-level settings pass grad_mul in this slot and version j passes t0i + t0t"))
        cA, rest = mono.coefficient(E, ("n", "A"))
        lin = "equal" if rest.is_zero() and not mono.occurs(cA, ("n", "A")) else "different"
        checks.append(("linear in aval", lin, "remainder %s" % mono.show(rest)[:100],
                       "version j passes a0i + a0t and relies on exponent(a0i + a0t) = exponent(a0i) + exponent(a0t)"))
    except NotComparable as e:
        chk.note("ueg-expnt", ST, "not decided: %s" % e)
        checks = []
    G = run(gga, [RHO, mono.ZERO], {"a0": A, "grad_mul": mono.ZERO, "rhocut": mono.ZERO, "nspin": mono.ONE})
    if isinstance(G, tuple) and G and isinstance(G[0], Poly):
        Gp = mono.drop_inactive_clamps(G[0])
        checks.append(("equal to get_cider_exponent_gga at the UEG", mono.definitely_different(E, Gp),
                       "GGA form %s" % mono.show(Gp)[:100],
                       "for sl_level == 'GGA' the kernel exponent is computed by get_cider_exponent_gga"))
    else:
        chk.note("ueg-expnt", ST, "get_cider_exponent_gga at the UEG is outside the fragment: %r" % (G,))
    for what, verdict, detail, why in checks:
        i2 = "%s %s" % (inst, what)
        if verdict == "equal":
            chk.ok("ueg-expnt", i2)
        elif verdict == "different":
            chk.violation("ueg-expnt", ST, "_get_ueg_expnt", what, fn.lineno,
                          "the UEG exponent  %s  is not %s (%s); %s" % (mono.show(E)[:160], what, detail, why), instance=i2)
        else:
            chk.note("ueg-expnt", ST, "%s: not comparable (%s)" % (what, detail))


# ----------------------------------------------------------------------------
# fresh-mutate: an object obtained from a helper and mutated by the caller is fresh
# ----------------------------------------------------------------------------
MUTATORS = {"append", "extend", "insert", "pop", "remove", "clear", "update", "setdefault", "sort", "reverse",
            "popitem", "fill", "resize"}
MEMO_DECORATORS = {"lru_cache", "cache", "cached_property", "memoize", "memoized", "memoise", "memo"}
FRESH_CALLS = {"dict", "list", "set", "sorted", "tuple", "np.array", "numpy.array", "np.zeros", "np.ones", "np.empty",
               "np.concatenate", "np.append", "np.cumsum", "copy.copy", "copy.deepcopy", "deepcopy", "np.copy"}


def freshness(mod, helper):
    """('fresh' | 'persistent' | 'unknown', reason) for the object(s) a helper returns"""
    for d in helper.decorator_list:
        f = d.func if isinstance(d, ast.Call) else d
        nm = f.attr if isinstance(f, ast.Attribute) else (f.id if isinstance(f, ast.Name) else "")
        if nm in MEMO_DECORATORS:
            return "persistent", "is memoised by @%s, so every call returns the same object" % pf.src(d)[:40]
    rets = [n for n in pf.walk_no_nested(helper) if isinstance(n, ast.Return) and n.value is not None]
    if not rets:
        return "unknown", "no return value"
    leaks = {}  # local name -> persistent place it is stored in
    globs = set()
    for n in pf.walk_no_nested(helper):
        if isinstance(n, ast.Global):
            globs |= set(n.names)
        if isinstance(n, ast.Assign) and isinstance(n.value, ast.Name):
            for t in n.targets:
                root = pf.base_name(t)
                if isinstance(t, (ast.Attribute, ast.Subscript)) and (
                        root in ("self", "cls") or root in mod.classes or root in mod.assigns):
                    leaks[n.value.id] = pf.src(t)

    def classify(e, depth=0):
        if isinstance(e, (ast.Dict, ast.List, ast.Set, ast.ListComp, ast.DictComp, ast.SetComp, ast.Tuple,
                          ast.Constant, ast.JoinedStr)):
            return "fresh", ""
        if isinstance(e, ast.BinOp):
            return "fresh", ""
        if isinstance(e, ast.Call):
            nm = pf.call_name(e) or ""
            if nm in FRESH_CALLS or (isinstance(e.func, ast.Attribute) and e.func.attr in ("copy", "astype", "tolist")):
                return "fresh", ""
            return "unknown", "call %s" % nm
        if isinstance(e, ast.IfExp):
            a, b = classify(e.body, depth), classify(e.orelse, depth)
            for v in (a, b):
                if v[0] == "persistent":
                    return v
            return a if a[0] == "unknown" else b
        if isinstance(e, (ast.Attribute, ast.Subscript)):
            root = pf.base_name(e)
            if root in ("self", "cls") or root in mod.classes:
                return "persistent", "returns %s, an object that outlives the call" % pf.src(e)
            if root in mod.assigns:
                return "persistent", "returns the module-level object %s" % pf.src(e)
            return "unknown", pf.src(e)
        if isinstance(e, ast.Name):
            if e.id in globs or (e.id in mod.assigns and not any(
                    isinstance(n, ast.Name) and n.id == e.id and isinstance(n.ctx, ast.Store) for n in ast.walk(helper))):
                return "persistent", "returns the module-level object %s" % e.id
            if e.id in leaks:
                return "persistent", "returns %s, which it also keeps in %s (memo)" % (e.id, leaks[e.id])
            if depth > 3:
                return "unknown", e.id
            vals = [n.value for n in pf.walk_no_nested(helper) if isinstance(n, ast.Assign)
                    and any(isinstance(t, ast.Name) and t.id == e.id for t in n.targets)]
            if not vals:
                return "unknown", "%s is not assigned in the helper" % e.id
            res = [classify(v, depth + 1) for v in vals]
            for r in res:
                if r[0] == "persistent":
                    return r
            for r in res:
                if r[0] == "unknown":
                    return r
            return "fresh", ""
        return "unknown", type(e).__name__

    res = [classify(r.value) for r in rets]
    for r in res:
        if r[0] == "persistent":
            return r
    for r in res:
        if r[0] == "unknown":
            return r
    return "fresh", ""


def rule_fresh_mutate(chk, prog):
    mod = prog.module(ST)
    units = [(cls, fn) for m, cls in prog.subclasses("BaseSettings") if m.rel == ST for fn in pf.methods(cls).values()]
    units += [(None, fn) for fn in mod.functions.values()]
    for cls, fn in units:
        if True:
            # locals bound to the result of a helper of the same object (method call, super() call, property)
            src = {}
            for n in pf.walk_no_nested(fn):
                if not (isinstance(n, ast.Assign) and len(n.targets) == 1 and isinstance(n.targets[0], ast.Name)):
                    continue
                v = n.value
                helper = None
                if isinstance(v, ast.Call) and isinstance(v.func, ast.Name) and v.func.id in mod.functions:
                    helper = mod.functions[v.func.id]
                elif isinstance(v, ast.Call) and isinstance(v.func, ast.Attribute):
                    recv = v.func.value
                    if isinstance(recv, ast.Name) and recv.id in ("self", "cls") and cls is not None:
                        r = prog.find_method(mod, cls, v.func.attr)
                        helper = r[2] if r else None
                    elif isinstance(recv, ast.Name) and recv.id in mod.classes:
                        r = prog.find_method(mod, mod.classes[recv.id], v.func.attr)
                        helper = r[2] if r else None
                    elif isinstance(recv, ast.Call) and pf.call_name(recv) == "super" and cls is not None:
                        for m2, c2 in prog.mro(mod, cls)[1:]:
                            if v.func.attr in pf.methods(c2):
                                helper = pf.methods(c2)[v.func.attr]
                                break
                elif isinstance(v, ast.Attribute) and cls is not None:
                    recv = v.value
                    cands = []
                    if isinstance(recv, ast.Name) and recv.id == "self":
                        cands = prog.mro(mod, cls)
                    elif isinstance(recv, ast.Call) and pf.call_name(recv) == "super":
                        cands = prog.mro(mod, cls)[1:]
                    for m2, c2 in cands:
                        f2 = pf.methods(c2).get(v.attr)
                        if f2 is not None and any(pf.src(d) == "property" for d in f2.decorator_list):
                            helper = f2
                            break
                if helper is not None and helper is not fn:
                    src[n.targets[0].id] = (helper, n)
            if not src:
                continue
            for n in pf.walk_no_nested(fn):
                name, how = None, None
                if isinstance(n, (ast.Assign, ast.AugAssign, ast.Delete)):
                    tgts = n.targets if not isinstance(n, ast.AugAssign) else [n.target]
                    for t in tgts:
                        if isinstance(t, ast.Subscript) and isinstance(t.value, ast.Name) and t.value.id in src:
                            name, how = t.value.id, pf.src(n)
                        elif isinstance(n, ast.AugAssign) and isinstance(t, ast.Name) and t.id in src:
                            name, how = t.id, pf.src(n)
                elif isinstance(n, ast.Call) and isinstance(n.func, ast.Attribute) and n.func.attr in MUTATORS \
                        and isinstance(n.func.value, ast.Name) and n.func.value.id in src:
                    name, how = n.func.value.id, pf.src(n)
                elif isinstance(n, ast.Call) and any(k.arg == "out" and isinstance(k.value, ast.Name) and k.value.id in src
                                                     for k in n.keywords):
                    name = [k.value.id for k in n.keywords if k.arg == "out"][0]
                    how = pf.src(n)
                if name is None:
                    continue
                helper, bind = src[name]
                verdict, why = freshness(mod, helper)
                qn = "%s.%s" % (cls.name, fn.name) if cls is not None else fn.name
                inst = "%s mutates %s = %s (%s)" % (qn, name, pf.src(bind.value)[:50], verdict)
                if verdict == "persistent":
                    chk.violation("fresh-mutate", ST, qn, how[:120], n.lineno,
                                  "%s changes `%s` in place (%s), but %s %s: the change leaks into every later call "
                                  "(the reported values drift with the call history)" % (
                                      qn, name, how[:80], pf.qualname(helper), why), instance=inst)
                elif verdict == "fresh":
                    chk.ok("fresh-mutate", inst)
                else:
                    chk.note("fresh-mutate", "%s:%s" % (ST, qn), "freshness of %s not decided (%s)" % (name, why))
                    chk.ok("fresh-mutate", inst, nontrivial=False)
                src.pop(name)  # one obligation per object
                if not src:
                    break


# ----------------------------------------------------------------------------
def _analyse_own(chk):
    prog = pf.Program(chk.tree, [ST, FN, TD])
    mono.link_imported_constants(prog)
    chk.rule("guarded-param", "constant index beyond the sl_level-independent length of a parameter list is "
                              "dominated by sl_level == 'MGGA'")
    chk.rule("spec-total", "raising spec ladders of the UEG routines cover every value the constructor admits")
    chk.rule("norm-ueg", "get_ueg(rho) == fill_fwd(x=1, rho, inh=0) as canonical monomial; None -> 1.0")
    chk.rule("vmap-heg", "get_vmap_heg_value == VMap.fill_feat_ at scale=1, center=0")
    chk.rule("compose", "FeatureSettings concatenates the five feature families in one order everywhere")
    chk.rule("rho-forward", "ueg routines forward their rho argument to the ueg routines they call")
    chk.rule("emit-order", "per-feature lists of one class built from the same generators share one loop nest")
    chk.guard(rule_guarded_param, prog)
    chk.guard(rule_spec_total, prog)
    chk.guard(rule_norm_ueg, prog)
    chk.guard(rule_vmap_heg, prog)
    chk.guard(rule_compose, prog)
    chk.guard(rule_rho_forward, prog)
    chk.guard(rule_emit_order, prog)
    chk.guard(rule_outer_order, prog)
    chk.rule("emit-index", "a flat per-feature list is indexed by a counter that is not reset inside an enclosing "
                           "emission loop and advances with every appended element")
    chk.rule("rho-mult-theta", "the rho_mult prefactor of every NLDF ueg_vector depends on theta_params, never on "
                               "feat_params (dependency sets through _ueg_rho_mult, loops iterated to a fixpoint)")
    chk.guard(rule_emit_index, prog)
    chk.guard(rule_rho_mult_theta, prog)
    chk.rule("fresh-mutate", "an object returned by a helper of the same settings object and mutated by the caller is "
                             "built fresh by the helper (literal / comprehension / copy), never persistent state or a memo")
    chk.guard(rule_fresh_mutate, prog)
    chk.rule("ueg-expnt", "the UEG exponent (get_cider_exponent at sigma = 0, tau = tau_unif) is clamp-free, independent "
                          "of tau_mul, linear in a0 and equal to get_cider_exponent_gga at the UEG")
    chk.guard(rule_ueg_expnt, prog)
    chk.floor("ueg-expnt", 3, "clamp-free, independent of tval, linear, equal to the GGA exponent")
    chk.rule("ueg-moment", "per spec: UEG value / UEG value of 'se' == Gaussian moment of that kernel (reference table "
                           "shared with C02 chain-j / chain-i), canonical forms")
    chk.guard(rule_ueg_moment, prog)
    chk.floor("ueg-moment", 5, "VI 5 + VJ 3 + VK 3 specs other than se")
    chk.floor("fresh-mutate", 1, "SDMXFullSettings.ueg_vector averages the table of _get_ueg_const in place")
    chk.floor("emit-index", 3, "SDMXFullSettings.ueg_vector usps[i] + normaliser loops indexing usps/uegs")
    chk.floor("rho-mult-theta", 3, "the concrete NLDF classes reaching _ueg_rho_mult")
    chk.floor("guarded-param", 14, "constant subscripts on parameter lists in the NLDF settings classes (44 today)")
    chk.floor("spec-total", 4, "one spec ladder per concrete NLDF class (14 ladder instances today)")
    chk.floor("norm-ueg", 4, "4 normaliser classes (+ the None convention)")
    chk.floor("vmap-heg", 1, "get_vmap_heg_value")
    chk.floor("compose", 3, "4 methods against ueg_vector + cumsum + with_normalizers")
    chk.floor("rho-forward", 9, "calls between ueg routines in settings.py / feat_normalizer.py (19 today)")
    chk.floor("emit-order", 1, "SDMXFullSettings")
    chk.assumptions += [
        "_check_params is the only place that fixes the length of theta_params / feat_params[i]",
        "names, primes with fractional exponents and pi are algebraically independent (positive reals)",
    ]
    chk.not_decided += [
        "equality of the closed-form UEG integrals with features computed by the C kernels",
        "the hard-coded SDMX UEG constants",
        "scaling degree of the UEG formulas (C03)",
        "FracLaplSettings.ueg_vector reports 0 for the ndd components (the source says they are not zero)",
    ]


def analyse(chk):
    _analyse_own(chk)
    chk.guard(lambda c_: core.include_findings(c_, 'C03', files=['ciderpress/dft/settings.py', 'ciderpress/dft/feat_normalizer.py'], rules=['ueg-deg', 'norm-usp'],
                                               why='UEG formulas must scale with the density as the declared powers say (DESIGN C13-2)'))
    chk.guard(lambda c_: core.include_findings(c_, 'C07', files=['ciderpress/dft/settings.py'], rules=['expnt'],
                                               why='the closed-form UEG integrals use the nspin=1 exponent; the features of a uniform density computed per '
                                                   'spin channel agree with them only if the nspin=2 exponent is the nspin=1 one at the doubled channel'))


def _memoise_ueg_const(text):
    a = "    def _get_ueg_const(self):\n        known_ueg_vals = ["
    b = "        known_dict = {k: -1 * v for k, v in zip(known_uegs, known_ueg_vals)}\n        return known_dict"
    if a not in text or b not in text:
        return None
    text = text.replace(a, "    _ueg_memo = None\n\n    def _get_ueg_const(self):\n        if SDMXFullSettings._ueg_memo "
                           "is not None:\n            return SDMXFullSettings._ueg_memo\n        known_ueg_vals = [", 1)
    return text.replace(b, "        known_dict = {k: -1 * v for k, v in zip(known_uegs, known_ueg_vals)}\n"
                           "        SDMXFullSettings._ueg_memo = known_dict\n        return known_dict", 1)


def mutants(tree):
    M = Mutant
    return [
        M("GGA exponent: the total-density branch loses 2^(2/3)", ST, "        B = np.pi / 2 ** (2.0 / 3) * a0\n", "        B = np.pi * a0 / 2\n",
          expect="via-C07"),
        M("VK.ueg_vector reads theta_params[2] unguarded", ST,
          "        a0t = self.theta_params[0]\n        if self.sl_level == \"MGGA\":\n            t0t = self.theta_params[2]\n        else:\n            t0t = self.theta_params[1]\n        rho_mult = self._ueg_rho_mult(rho)\n        expnt_theta",
          "        a0t = self.theta_params[0]\n        t0t = self.theta_params[2]\n        rho_mult = self._ueg_rho_mult(rho)\n        expnt_theta",
          expect="guarded-param"),
        M("VJ.ueg_vector reads params[2] unguarded", ST,
          "            if self.sl_level == \"MGGA\":\n                t0i = params[2]\n            else:\n                t0i = params[1]\n            a0 = a0i + a0t",
          "            t0i = params[2]\n            a0 = a0i + a0t", expect="guarded-param"),
        M("VI ladder loses se_lapl", ST,
          "            elif spec == \"se_lapl\":\n                integral *= 4 * expnt\n", "", expect="spec-total"),
        M("VJ ladder loses se_a2r4", ST,
          "            elif spec == \"se_a2r4\":\n                integral *= 3.75 * (expnt2 / expnt) ** 2\n", "",
          expect="spec-total"),
        M("new admitted j-spec without UEG branch", ST,
          'ALLOWED_J_SPECS = ["se", "se_ar2", "se_a2r4", "se_erf_rinv"]',
          'ALLOWED_J_SPECS = ["se", "se_ar2", "se_a2r4", "se_erf_rinv", "se_a3r6"]', expect="spec-total"),
        M("DensityNormalizer.get_ueg power changed", FN, "return self.const * rho**self.power\n",
          "return self.const * rho ** (self.power - 1)\n", expect="norm-ueg"),
        M("GeneralNormalizer.get_ueg drops rho", FN,
          "return self.const1 * rho**self.power1 * (1 + self.const2 * inh) ** self.power2\n",
          "return self.const1 * (1 + self.const2 * inh) ** self.power2\n", expect="norm-ueg"),
        M("InhomogeneityNormalizer.get_ueg returns const2", FN,
          "        return self.const1 * (1 + self.const2 * inh) ** self.power\n",
          "        return self.const2 * (1 + self.const2 * inh) ** self.power\n", expect="norm-ueg"),
        M("missing normaliser reported as 0", FN, "norms.append(1.0)", "norms.append(0.0)", expect="norm-ueg"),
        M("get_vmap_heg_value denominator", TD, "return (heg * gamma) / (1 + heg * gamma)",
          "return (heg * gamma) / (1 + heg)", expect="vmap-heg"),
        M("FeatureSettings.ueg_vector swaps nlof and sdmx", ST,
          "                self.nlof_settings.ueg_vector(rho),\n                self.sdmx_settings.ueg_vector(rho),",
          "                self.sdmx_settings.ueg_vector(rho),\n                self.nlof_settings.ueg_vector(rho),",
          expect="compose"),
        M("get_reasonable_normalizer swaps nldf and nlof", ST,
          "            + self.nldf_settings.get_reasonable_normalizer()\n            + self.nlof_settings.get_reasonable_normalizer()",
          "            + self.nlof_settings.get_reasonable_normalizer()\n            + self.nldf_settings.get_reasonable_normalizer()",
          expect="compose"),
        M("VIJ forgets rho for the j part", ST, "NLDFSettingsVJ.ueg_vector(self, rho=rho)",
          "NLDFSettingsVJ.ueg_vector(self)", expect="rho-forward"),
        M("FeatNormalizerList.ueg_vector forgets rho", FN, "norms.append(n.get_ueg(rho, inh))", "norms.append(n.get_ueg(inh=inh))",
          expect="rho-forward"),
        M("FeatureSettings forgets rho for sdmx", ST, "self.sdmx_settings.ueg_vector(rho)", "self.sdmx_settings.ueg_vector()",
          expect="rho-forward"),
        M("SDMXFull.ueg_vector: running counter replaced by a per-ratio enumerate", ST,
          "            for n, rdr in self.iterate_l0_terms(ratio):\n                try:\n                    uegvec.append(known_dict[ratio, n, rdr] * rho ** (usps[i] / 3.0))\n                    i += 1\n",
          "            for i, (n, rdr) in enumerate(self.iterate_l0_terms(ratio)):\n                try:\n                    uegvec.append(known_dict[ratio, n, rdr] * rho ** (usps[i] / 3.0))\n",
          expect="emit-index"),
        M("SDMXFull.ueg_vector: counter never advanced", ST,
          "uegvec.append(known_dict[ratio, n, rdr] * rho ** (usps[i] / 3.0))\n                    i += 1\n",
          "uegvec.append(known_dict[ratio, n, rdr] * rho ** (usps[i] / 3.0))\n", expect="emit-index"),
        M("SDMXFull.ueg_vector: counter reset inside the ratio loop", ST,
          "        i = 0\n        for ratio in self.ratios:\n            for n, rdr in self.iterate_l0_terms(ratio):\n                try:\n                    uegvec.append",
          "        for ratio in self.ratios:\n            i = 0\n            for n, rdr in self.iterate_l0_terms(ratio):\n                try:\n                    uegvec.append",
          expect="emit-index"),
        M("_ueg_rho_mult takes a0 from the first feature parameter set", ST,
          "rho_mult = _get_ueg_expnt(self.theta_params[0], t0, rho)",
          "rho_mult = _get_ueg_expnt(self.feat_params[0][0], t0, rho)", expect="rho-mult-theta"),
        M("VJ erf factor built from the total exponent only (version-k formula in version j)", ST,
          "                expnt3 = expnt2 * params[-1]\n                integral *= np.sqrt(expnt / (expnt + expnt3))\n            else:\n                raise ValueError\n            ueg_feats.append(rho * rho_mult * integral)\n        return np.asarray(ueg_feats, dtype=np.float64)\n\n    def get_reasonable_normalizer(self):\n        nvj",
          "                expnt3 = expnt * params[-1]\n                integral *= np.sqrt(expnt / (expnt + expnt3))\n            else:\n                raise ValueError\n            ueg_feats.append(rho * rho_mult * integral)\n        return np.asarray(ueg_feats, dtype=np.float64)\n\n    def get_reasonable_normalizer(self):\n        nvj",
          expect="ueg-moment"),
        M("VI se_r2 moment inverted", ST, "integral *= 1.5 / expnt", "integral *= 1.5 * expnt", expect="ueg-moment"),
        M("VK se_a2r4 coefficient", ST, "                integral *= 3.75\n", "                integral *= 3.25\n",
          expect="ueg-moment"),
        M("SDMXFull._get_ueg_const memoises its table in a class attribute", ST, fn=_memoise_ueg_const,
          expect="fresh-mutate"),
        M("normaliser UEG factors assume inh = 1 (right for nst/npa only)", FN,
          "        return self.const1 * rho**self.power1 * (1 + self.const2 * inh) ** self.power2\n",
          "        return self.const1 * rho**self.power1 * (1 + self.const2) ** self.power2\n",
          expect="norm-ueg"),
        M("list ueg_vector derives inh from a synthetic [rho, 0, tau_ueg] vector (slot 2 is alpha in npa mode)", FN,
          "        inh = 1.0 if self.slmode in [\"nst\", \"npa\"] else 0.0\n",
          "        x0 = np.zeros((1, 3, 1))\n        x0[0, 0] = rho\n        x0[0, 2] = CFC * rho ** (5.0 / 3)\n"
          "        inh = float(self._get_rho_and_inh(x0)[1][0, 0])\n", expect="norm-ueg"),
        M("SDMXFull._get_ueg_const memoised with functools.lru_cache while ueg_vector averages the table in place", ST,
          "    def _get_ueg_const(self):\n        known_ueg_vals = [",
          "    @staticmethod\n    @__import__(\"functools\").lru_cache(maxsize=None)\n    def _get_ueg_const():\n        known_ueg_vals = [",
          expect="fresh-mutate"),
        M("get_cider_exponent clamps the rho^(2/3) coefficient at zero", ST,
          "    if nspin == 1:\n        B = np.pi / 2 ** (2.0 / 3) * (a0 - tau_fac)\n    else:\n        B = np.pi * (a0 - tau_fac)\n    C = np.pi / 2 ** (2.0 / 3) * tau_fac / CFC\n    ascale = B * rho ** (2.0 / 3) + C * tau / rho\n    dadrho = 2 * B / (3 * rho ** (1.0 / 3)) - (C * tau / rho) / rho\n    dadtau",
          "    if nspin == 1:\n        B = np.pi / 2 ** (2.0 / 3) * max(a0 - tau_fac, 0.0)\n    else:\n        B = np.pi * (a0 - tau_fac)\n    C = np.pi / 2 ** (2.0 / 3) * tau_fac / CFC\n    ascale = B * rho ** (2.0 / 3) + C * tau / rho\n    dadrho = 2 * B / (3 * rho ** (1.0 / 3)) - (C * tau / rho) / rho\n    dadtau",
          expect="ueg-expnt"),
        M("MGGA exponent: tau term no longer normalised by CFC (tau_mul does not cancel at the UEG)", ST,
          "    C = np.pi / 2 ** (2.0 / 3) * tau_fac / CFC\n    ascale = B * rho ** (2.0 / 3) + C * tau / rho\n    dadrho = 2 * B / (3 * rho ** (1.0 / 3)) - (C * tau / rho) / rho\n    dadtau",
          "    C = np.pi / 2 ** (2.0 / 3) * tau_fac\n    ascale = B * rho ** (2.0 / 3) + C * tau / rho\n    dadrho = 2 * B / (3 * rho ** (1.0 / 3)) - (C * tau / rho) / rho\n    dadtau",
          expect="ueg-expnt"),
        M("list ueg_vector fills the tau slot of a constructed UEG vector for both meta-GGA modes", FN,
          "        inh = 1.0 if self.slmode in [\"nst\", \"npa\"] else 0.0\n",
          "        x0 = np.zeros((1, max(self.nfeat, 3), 1))\n        x0[0, 0] = rho\n        if self.slmode in [\"nst\", \"npa\"]:\n            x0[0, 2] = CFC * rho ** (5.0 / 3)\n        rho_term, inh_term = self._get_rho_and_inh(x0)\n        inh = inh_term.item()\n",
          expect="norm-ueg"),
        M("SDMXFull.ueg_vector walks the settings dict in insertion order instead of the sorted ratios", ST,
          "        i = 0\n        for ratio in self.ratios:\n            for n, rdr in self.iterate_l0_terms(ratio):\n                try:\n                    uegvec.append",
          "        i = 0\n        for ratio in self._settings.keys():\n            for n, rdr in self.iterate_l0_terms(ratio):\n                try:\n                    uegvec.append",
          expect="emit-order"),
        M("SDMXFull usps interleaved like the normalisers (ueg_vector left alone)", ST,
          "                usps.append(3 + n)\n        for ratio in self.ratios:\n            for n, rdr in self.iterate_l1_terms(ratio):\n                usps.append(3 + n)",
          "                usps.append(3 + n)\n            for n, rdr in self.iterate_l1_terms(ratio):\n                usps.append(3 + n)",
          expect="emit-order"),
    ]


if __name__ == "__main__":
    sys.exit(core.main(PROP, analyse, mutants, __doc__))
