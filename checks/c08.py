#!/usr/bin/env python3
"""C08 -- vanishing / extreme densities never give non-finite or spurious contributions.
Static rules (DESIGN.md §C08):

 clamp-zero   in get_cider_exponent{,_gga}, ds2, dalpha, get_s2, get_alpha and
              FeatNormalizerList.get_derivative_wrt_unnormed_features: the low-density mask is
              computed from the density *before* it is clamped (a mask computed after the clamp
              with the same cutoff is identically False), every returned derivative array is
              zeroed under that mask after its last modification on every path to the return,
              and the returned value is zeroed under the mask or computed from the clamped density
 cutoff-pair  MappedDFTKernel{,2}.__call__ zero value *and* derivative below rhocut in every spin
              mode, and the zeroing precedes every consumer of the zeroed arrays (an assignment that
              hands the array on to the result, or a call that also receives caller-visible storage
              it can update in place, e.g. apply_libxc_baseline_(f, df, rho_tuple, vrho_tuple))
              (shared with C04)
 guarded-den  sign-domain abstract interpretation ({>0, >=0, unknown} x depends-on-density x
              clamp-on-chain) of a frozen list of low-level numeric routines: every division / power
              with a possibly negative exponent whose denominator depends on the density has a
              denominator proven > 0.  Undecided sites are notes; a violation is reported only for a
              bare density-dependent name/product with no clamp anywhere on its definition chain
 singular-override  non-finite taint with mask cleansing (same interpreter): a division / negative
              power / log whose operand is only known >= 0 taints its result on the zero set of the
              operand's root (e.g. X0T[1]); arithmetic propagates the taint; `x[m] = <finite>` or
              np.where(m, <finite>, x) with m = (root < positive constant) removes it.  Every returned
              value and every store through a parameter (e[:] += .., dedx[k] += ..) in the frozen
              routine list and the native baselines must not carry a root that some override in the
              same function repairs: the override must come after the last operation that can
              re-introduce the singular factor.  Roots never repaired in the function are notes.
 index-clip   cider_ind_clip (clang AST, value-identity bound analysis): the value finally stored in
              the index array is, on every path, bounded below by 0 and above by size / size - eps;
              a guard evaluated on a stale copy of the index does not count
"""
import ast
import os
import sys

sys.path.insert(0, os.path.dirname(os.path.dirname(os.path.abspath(__file__))))
from sa import core, pyfacts as pf, cfg as cfgm, evalrules as er, signdom as sd, cfacts, cclamp  # noqa: E402
from sa.selftest import Mutant  # noqa: E402

PROP = "C08"
ST = "ciderpress/dft/settings.py"
FN = "ciderpress/dft/feat_normalizer.py"
TD = "ciderpress/dft/transform_data.py"
NI = "ciderpress/pyscf/numint.py"
XE = "ciderpress/dft/xc_evaluator.py"
XE2 = "ciderpress/dft/xc_evaluator2.py"
BL = "ciderpress/dft/baselines.py"
CC_C = "mod_cider/cider_coefs.c"
CC_REL = "ciderpress/lib/mod_cider/cider_coefs.c"
PL = "ciderpress/dft/plans.py"


# ----------------------------------------------------------------------------
# rule 1: clamp-zero pairing
# ----------------------------------------------------------------------------
# function -> (indices of the returned tuple that are values, indices that are derivatives);
# a non-tuple return is index 0
CLAMP_FUNCS = [
    (ST, "get_cider_exponent", (0,), (1, 2, 3)),
    (ST, "get_cider_exponent_gga", (0,), (1, 2)),
    (ST, "ds2", (), (0, 1)),
    (ST, "dalpha", (), (0, 1, 2)),
    (ST, "get_s2", (0,), ()),
    (ST, "get_alpha", (0,), ()),
    (FN, "FeatNormalizerList.get_derivative_wrt_unnormed_features", (), (0,)),
]
TRANSPARENT = {"item", "copy"}
CLAMP_CALLS = ("np.maximum", "numpy.maximum", "np.fmax")


def _clamp_call_args(v):
    if isinstance(v, ast.Call) and pf.call_name(v) in CLAMP_CALLS and len(v.args) == 2:
        return [pf.src(a) for a in v.args]
    return None


def provably_clamped(prog, mod, fn, name, at, cutoff_src, depth=0):
    """Text describing why `name` (as read at `at`) is already >= cutoff, or None.
    Follows: name = np.maximum(cutoff, ..) ; name = other ; a, b = self.method(..) with the
    callee returning a clamped local."""
    d = er.reaching_assign(fn, name, at)
    if d is None:
        # tuple unpacking from a call
        for st, v, kind in er.assigns_to(fn, name):
            if kind == "unpack" and isinstance(v, ast.Call) and st.lineno < at.lineno \
                    and len(er.assigns_to(fn, name)) == 1 and depth < 2:
                tgt = st.targets[0]
                idx = [i for i, e in enumerate(tgt.elts) if isinstance(e, ast.Name) and e.id == name][0]
                callee = _resolve_self_method(prog, mod, fn, v)
                if callee is None:
                    return None
                cmod, cfn = callee
                rets = [n for n in pf.walk_no_nested(cfn) if isinstance(n, ast.Return)]
                if len(rets) != 1 or not isinstance(rets[0].value, ast.Tuple) or idx >= len(rets[0].value.elts):
                    return None
                e = rets[0].value.elts[idx]
                if isinstance(e, ast.Name):
                    why = provably_clamped(prog, cmod, cfn, e.id, rets[0], cutoff_src, depth + 1)
                    if why:
                        return "%s = element %d of %s(), where %s" % (name, idx, cfn.name, why)
        return None
    a = _clamp_call_args(d.value)
    if a is not None and cutoff_src in a:
        return "`%s` (line %d)" % (pf.src(d), d.lineno)
    if isinstance(d.value, ast.Name) and depth < 3:
        return provably_clamped(prog, mod, fn, d.value.id, d, cutoff_src, depth + 1)
    return None


def _resolve_self_method(prog, mod, fn, call):
    f = call.func
    if isinstance(f, ast.Attribute) and isinstance(f.value, ast.Name) and f.value.id == "self":
        cls = pf.enclosing_class(fn)
        if cls is not None:
            r = prog.find_method(mod, cls, f.attr)
            if r is not None:
                return r[0], r[2]
    return None


def find_mask(fn):
    """The low-density masks of the function: `m = <name> < <cutoff>` (or `<cutoff> > <name>`)
    -> list of (stmt, mask name, density name, cutoff text)."""
    out = []
    for n in pf.walk_no_nested(fn):
        if isinstance(n, ast.Assign) and len(n.targets) == 1 and isinstance(n.targets[0], ast.Name) \
                and isinstance(n.value, ast.Compare) and len(n.value.ops) == 1:
            l, op, r = n.value.left, n.value.ops[0], n.value.comparators[0]
            if isinstance(op, (ast.Gt, ast.GtE)):
                l, r = r, l
            elif not isinstance(op, (ast.Lt, ast.LtE)):
                continue
            if isinstance(l, ast.Subscript) and pf.base_name(l) is not None and isinstance(l.value, ast.Name):
                l = l.value  # X0T[:, 0] < cutoff: the mask is built from (a slice of) X0T
            if isinstance(l, ast.Name) and isinstance(r, (ast.Name, ast.Attribute)):
                out.append((n, n.targets[0].id, l.id, pf.src(r)))
    return out


def _index_uses(idx, mname):
    return any(isinstance(n, ast.Name) and n.id == mname for n in ast.walk(idx))


def is_zero_store(st, root, mname, elem=None):
    """`root[...m...] = 0`, or for a tuple element `root[elem][m] = 0`."""
    if not (isinstance(st, ast.Assign) and len(st.targets) == 1 and isinstance(st.targets[0], ast.Subscript)
            and er.is_zero(st.value)):
        return False
    t = st.targets[0]
    if pf.base_name(t) != root:
        return False
    levels = []
    cur = t
    while isinstance(cur, ast.Subscript):
        levels.append(cur.slice)
        cur = cur.value
    levels.reverse()  # outermost-first: root[l0][l1]...
    if elem is not None:
        if not (levels and isinstance(levels[0], ast.Constant) and levels[0].value == elem):
            return False
        levels = levels[1:]
    return any(_index_uses(l, mname) for l in levels)


def _loop_zeroes(st, seq_has_root, mname):
    """`for a in <sequence containing root>: a[m] = 0` (every body statement a zero store of the target)"""
    return isinstance(st, ast.For) and isinstance(st.target, ast.Name) and st.body and seq_has_root(st.iter) \
        and all(is_zero_store(s, st.target.id, mname, None) for s in st.body)


def zero_store_nodes(g, fn, root, mname, elem=None, resolve=None):
    """CFG nodes of fn after which `root` (element `elem`) is zero under the mask `mname`:
    direct stores, a loop over the spin index whose body is such a store, a loop over a literal
    tuple/list of arrays zeroing each, and (one level) a call of a helper doing one of these to the
    parameters bound to root and mask."""
    ids = set()
    for n in g.nodes:
        st = n.ast
        if n.kind == "stmt" and is_zero_store(st, root, mname, elem):
            ids.add(n.id)
        elif n.kind == "iter" and isinstance(st, ast.For) and st.body \
                and all(is_zero_store(s, root, mname, elem) for s in st.body):
            ids.add(n.id)
        elif n.kind == "iter" and elem is None and _loop_zeroes(
                st, lambda it: isinstance(it, (ast.Tuple, ast.List)) and any(
                    isinstance(e, ast.Name) and e.id == root for e in it.elts), mname):
            ids.add(n.id)
        elif n.kind == "stmt" and elem is None and resolve is not None and isinstance(st, ast.Expr) \
                and isinstance(st.value, ast.Call):
            r = resolve(st.value)
            if r is None:
                continue
            callee, skip = r
            bound = er._bind_call(callee, st.value, skip)
            pm = [p for p, a in bound.items() if isinstance(a, ast.Name) and a.id == mname]
            if not pm:
                continue
            gc = cfgm.CFG(callee)
            for p, a in bound.items():
                if isinstance(a, ast.Name) and a.id == root:
                    zc = zero_store_nodes(gc, callee, p, pm[0])
                elif isinstance(a, (ast.Tuple, ast.List)) and any(isinstance(e, ast.Name) and e.id == root for e in a.elts):
                    zc = {m.id for m in gc.nodes if m.kind == "iter" and _loop_zeroes(
                        m.ast, lambda it, p=p: isinstance(it, ast.Name) and it.id == p, pm[0])}
                else:
                    continue
                if zc and gc.must_pass(lambda node: node.id in zc)[0]:
                    ids.add(n.id)
    return ids


def dirty_nodes(g, fn, root, mname, elem=None):
    """CFG nodes that (re)define or modify `root` (element `elem`) other than zero stores
    under the mask and transparent conversions."""
    out = []
    for n in g.nodes:
        st = n.ast
        if n.kind != "stmt" or st is None:
            continue
        if isinstance(st, (ast.Assign, ast.AugAssign, ast.AnnAssign)):
            targets = st.targets if isinstance(st, ast.Assign) else [st.target]
            hit = False
            for t in targets:
                for e in (t.elts if isinstance(t, (ast.Tuple, ast.List)) else [t]):
                    if pf.base_name(e) == root:
                        if elem is not None and isinstance(e, ast.Subscript):
                            # store into another element of the tuple is not a modification of this one
                            cur = e
                            lv = []
                            while isinstance(cur, ast.Subscript):
                                lv.append(cur.slice)
                                cur = cur.value
                            first = lv[-1]
                            if isinstance(first, ast.Constant) and first.value != elem:
                                continue
                        hit = True
            if not hit:
                continue
            if is_zero_store(st, root, mname, elem):
                continue
            if isinstance(st, ast.Assign) and isinstance(st.value, ast.Call) \
                    and isinstance(st.value.func, ast.Attribute) and st.value.func.attr in TRANSPARENT \
                    and pf.src(st.value.func.value) == root and not st.value.args:
                continue
            out.append(n)
        elif isinstance(st, ast.Expr) and isinstance(st.value, ast.Call):
            # in-place fill by a callee:  f(..., out=root[:, i]) / f(root, ...)
            c = st.value
            roots = [pf.base_name(a) for a in c.args] + [pf.base_name(k.value) for k in c.keywords]
            if root in roots:
                out.append(n)
    return out


def rule_clamp_zero(chk, prog):
    for rel, qual, vidx, didx in CLAMP_FUNCS:
        mod, fn = er.anchor(prog, rel, qual)
        g = cfgm.CFG(fn)
        masks = find_mask(fn)
        if len(masks) != 1:
            raise core.AnalysisError("%s: expected exactly one low-density mask `m = rho < cutoff`, found %d"
                                     % (qual, len(masks)))
        mst, mname, dens, cut = masks[0]
        # (a) the mask is live
        inst = "%s mask `%s` computed from the unclamped density" % (qual, pf.src(mst))
        why = provably_clamped(prog, mod, fn, dens, mst, cut)
        if why:
            chk.violation("clamp-zero", rel, qual, pf.src(mst), mst.lineno,
                          "the low-density mask `%s` is computed after `%s` has been clamped to the same cutoff "
                          "(%s): it is identically False, so the stores `...[%s] = 0` that are meant to zero the "
                          "derivative below the cutoff never act" % (pf.src(mst.value), dens, why, mname),
                          instance=inst)
        else:
            chk.ok("clamp-zero", inst)
        # returned elements
        rets = [n for n in pf.walk_no_nested(fn) if isinstance(n, ast.Return)]
        if not rets:
            raise core.AnalysisError("%s: no return statement" % qual)
        for ri, ret in enumerate(rets):
            # every return path is judged on its own: an early return must have passed the zeroing stores too
            rsuffix = "" if len(rets) == 1 else " (return %d of %d)" % (ri + 1, len(rets))
            rnode = g.node_of(ret)
            rv = ret.value
            elems = None
            if isinstance(rv, ast.Tuple):
                elems = [(e, None) for e in rv.elts]
            elif isinstance(rv, ast.Name):
                d = er.reaching_assign(fn, rv.id, ret)
                if d is not None and isinstance(d.value, ast.Tuple):
                    elems = [(rv, k) for k in range(len(d.value.elts))]
            if elems is None:
                elems = [(rv, None)]
            need = max(list(vidx) + list(didx)) + 1
            if len(elems) < need:
                raise core.AnalysisError("%s returns %d element(s), the rule table expects %d" % (qual, len(elems), need))

            cls_ = pf.enclosing_class(fn)

            def resolve(call, mod=mod, fn=fn, cls_=cls_):
                f = call.func
                if isinstance(f, ast.Name) and f.id in mod.functions and mod.functions[f.id] is not fn:
                    return mod.functions[f.id], False
                if isinstance(f, ast.Attribute) and isinstance(f.value, ast.Name) and f.value.id in ("self", "cls") \
                        and cls_ is not None:
                    r = prog.find_method(mod, cls_, f.attr)
                    if r is not None and r[2] is not fn:
                        return r[2], True
                return None

            def zeroed(root, elem):
                zs = zero_store_nodes(g, fn, root, mname, elem, resolve)
                if not zs:
                    for c in pf.walk_no_nested(fn):
                        if isinstance(c, ast.Call):
                            roots = {pf.base_name(a) for a in c.args} | {pf.base_name(k.value) for k in c.keywords}
                            if root in roots and mname in roots:
                                raise core.AnalysisError(
                                    "%s: `%s` and the mask `%s` are both handed to `%s`; the zeroing may be "
                                    "delegated to a helper this rule does not analyse" % (qual, root, mname, pf.src(c.func)))
                    return False, "no store `%s[%s] = 0` exists" % (root if elem is None else "%s[%d]" % (root, elem), mname)
                for dn in dirty_nodes(g, fn, root, mname, elem):
                    ok, wit = g.must_pass(lambda node: node.id in zs, src=dn.id, dst=rnode.id)
                    if not ok:
                        return False, "after `%s` (line %d) a path reaches the return without `%s[%s] = 0`" % (
                            pf.src(dn.ast).splitlines()[0][:70], dn.ast.lineno, root, mname)
                return True, "%d zeroing store(s)" % len(zs)

            def unwrap(x):
                # `a.item()` / `a.copy()` returned directly is the array `a` itself for this rule
                while isinstance(x, ast.Call) and isinstance(x.func, ast.Attribute) and x.func.attr in TRANSPARENT \
                        and not x.args and not x.keywords:
                    x = x.func.value
                return x

            for k in didx:
                e, elem = elems[k]
                e = unwrap(e) if elem is None else e
                label = pf.src(e) if elem is None else "%s[%d]" % (pf.src(e), elem)
                inst = "%s derivative #%d `%s` zeroed under %s%s" % (qual, k, label, mname, rsuffix)
                if elem is None and (er.is_zero(e) or (isinstance(e, ast.Call) and pf.call_name(e) in (
                        "np.zeros_like", "numpy.zeros_like", "np.zeros", "numpy.zeros"))):
                    chk.ok("clamp-zero", inst, detail="identically zero")
                    continue
                if not isinstance(e, ast.Name):
                    raise core.AnalysisError("%s: returned derivative #%d is not a name: %s" % (qual, k, pf.src(e)))
                ok, why = zeroed(e.id, elem)
                if ok:
                    chk.ok("clamp-zero", inst, detail=why)
                else:
                    chk.violation("clamp-zero", rel, qual, "derivative %s" % label, ret.lineno,
                                  "returned derivative `%s` is not zeroed under the low-density mask `%s = %s` on "
                                  "every path (%s); below the cutoff the value is clamped/constant, so a non-zero "
                                  "derivative is spurious" % (label, mname, pf.src(mst.value), why), instance=inst)
            for k in vidx:
                e, elem = elems[k]
                e = unwrap(e) if elem is None else e
                inst = "%s value #%d `%s` clamped or zeroed%s" % (qual, k, pf.src(e), rsuffix)
                # (i) zeroed: the value, or a factor of a pure product, is zeroed under the mask
                factors = []

                def collect(x):
                    if isinstance(x, ast.BinOp) and isinstance(x.op, ast.Mult):
                        collect(x.left)
                        collect(x.right)
                    elif isinstance(x, ast.BinOp) and isinstance(x.op, ast.Pow) and isinstance(x.right, ast.Constant) \
                            and isinstance(x.right.value, (int, float)) and x.right.value > 0:
                        collect(x.left)
                    elif isinstance(x, ast.Name):
                        factors.append(x.id)
                collect(e)
                okz = [f for f in factors if zeroed(f, None)[0]]
                if okz:
                    chk.ok("clamp-zero", inst, detail="factor `%s` zeroed under the mask" % okz[0])
                    continue
                # (ii) clamped: a clamp of the density by the cutoff lies on every path to each statement
                # that computes the value
                def is_clamp(node):
                    st = node.ast
                    if node.kind != "stmt":
                        return False
                    if isinstance(st, ast.Assign) and len(st.targets) == 1:
                        t = st.targets[0]
                        if isinstance(t, ast.Name) and t.id == dens:
                            a = _clamp_call_args(st.value)
                            return a is not None and cut in a
                        if isinstance(t, ast.Subscript) and pf.base_name(t) == dens and pf.src(st.value) == cut \
                                and _index_uses(t.slice, mname):
                            return True
                    return False

                names = [f for f in factors] or sorted(er.names_in(e))
                bad = None
                ndefs = 0
                for nm in names:
                    for dn in dirty_nodes(g, fn, nm, mname, None):
                        ndefs += 1
                        ok, wit = g.must_pass(is_clamp, dst=dn.id)
                        if not ok:
                            bad = dn
                if ndefs and bad is None:
                    chk.ok("clamp-zero", inst, detail="density `%s` clamped to `%s` before the value is computed" % (dens, cut))
                else:
                    line = bad.ast.lineno if bad is not None else ret.lineno
                    chk.violation("clamp-zero", rel, qual, "value %s" % pf.src(e), line,
                                  "returned value `%s` is neither zeroed under the low-density mask nor computed from "
                                  "a density clamped to `%s`%s" % (
                                      pf.src(e), cut,
                                      "" if bad is None else " (`%s` is reached without the clamp)" % pf.src(bad.ast)[:70]),
                                  instance=inst)


def rule_cutoff_pair(chk, prog):
    er.check_cutoff_pairing(chk, prog, ((XE, "MappedDFTKernel"), (XE2, "MappedDFTKernel2")))


# ----------------------------------------------------------------------------
# rule 3: guarded denominators
# ----------------------------------------------------------------------------
DENSITY_PARAMS = {"rho", "sigma", "tau", "mag_grad"}
CUTOFF_NAMES = {"rhocut", "cutoff", "self.cutoff", "self.rhocut"}
ATTR_POSITIVE = {"self.gamma"}  # documented as positive scale parameters of the SL* maps
NORMALIZER_METHODS = {"fill_fwd", "fill_bwd", "get_normed_feature_deriv"}


class Den:
    def __init__(self, chk, prog):
        self.chk = chk
        self.prog = prog
        self._const_busy = set()
        self.interp = sd.Interp(self.resolver, self.consts, self.assume, self.attr_assume)
        self.modof = {}
        for rel, m in prog.modules.items():
            for n in ast.walk(m.ast):
                if isinstance(n, (ast.FunctionDef, ast.AsyncFunctionDef)):
                    self.modof[id(n)] = m

    def mod(self, fn):
        return self.modof[id(fn)]

    def baseline_features(self):
        if not hasattr(self, "_blf"):
            self._blf = er.baseline_graph(self.prog.module(BL))["features"] if BL in self.prog.modules else {}
        return self._blf

    def consts(self, text, fn):
        m = self.mod(fn)
        key = (m.rel, text, id(pf.enclosing_class(fn)))
        if key in self._const_busy:
            return None
        self._const_busy.add(key)
        try:
            node = None
            if text.startswith("self.") and text.count(".") == 1:
                cls = pf.enclosing_class(fn)
                if cls is not None:
                    r = self.prog.find_class_attr(m, cls, text[5:])
                    node = r[2] if r else None
            elif "." not in text:
                # a module constant only if the function does not bind the name itself
                if not er.assigns_to(fn, text) and text not in er.param_names(fn):
                    node = m.assigns.get(text)
            if node is None:
                return None
            return self.fold_module(node, m, 0)
        finally:
            self._const_busy.discard(key)

    def fold_module(self, node, m, depth):
        """fold a module/class-level constant; names inside it are module-level constants"""
        if depth > 6:
            return None

        def lookup(text):
            n2 = m.assigns.get(text) if "." not in text else None
            if n2 is None or n2 is node:
                return None
            return self.fold_module(n2, m, depth + 1)
        return sd.fold_const(node, lookup)

    def assume(self, fn, p):
        cls = pf.enclosing_class(fn)
        root = frozenset((p,))
        if p in DENSITY_PARAMS:
            return sd.AV(sd.Z, True, False, root)
        if p in CUTOFF_NAMES:
            return sd.AV(sd.P, False, False)
        if self.mod(fn).rel == BL:
            # raw features: rows are non-negative in the native baselines (density, s^2, damping feature)
            if p in self.baseline_features().get(fn.name, ()):
                return sd.AV(sd.Z, True, False, root)
        elif p == "X0T":
            # normaliser list: only row 0 is used as a denominator, always clamped
            return sd.AV(sd.U, True, False)
        if p == "x" and cls is not None and cls.name.startswith("SL"):
            return sd.AV(sd.Z, True, False, root)
        return None

    def attr_assume(self, text):
        if text in CUTOFF_NAMES or text in ATTR_POSITIVE:
            return sd.AV(sd.P, False, False)
        return None

    def bind(self, callee, call, skip_self):
        params = [a.arg for a in callee.args.posonlyargs + callee.args.args]
        if skip_self and params and params[0] in ("self", "cls"):
            params = params[1:]
        bound = {}
        for p, a in zip(params, call.args):
            if isinstance(a, ast.Starred):
                break
            bound[p] = a
        allp = set(params) | {a.arg for a in callee.args.kwonlyargs}
        for k in call.keywords:
            if k.arg in allp:
                bound[k.arg] = k.value
        return bound

    def resolver(self, call, fn, interp):
        m = self.mod(fn)
        f = call.func
        if isinstance(f, ast.Name) and f.id in m.functions:
            return [(m.functions[f.id], self.bind(m.functions[f.id], call, False))]
        if isinstance(f, ast.Attribute):
            cls = pf.enclosing_class(fn)
            if isinstance(f.value, ast.Name) and f.value.id == "self" and cls is not None:
                r = self.prog.find_method(m, cls, f.attr)
                if r is not None:
                    return [(r[2], self.bind(r[2], call, True))]
            if f.attr in NORMALIZER_METHODS and cls is not None and cls.name == "FeatNormalizerList" \
                    and isinstance(f.value, ast.Subscript) and pf.base_name(f.value) == "self":
                out = []
                for m2, c2 in self.prog.subclasses("FeatNormalizer"):
                    if c2.name == "FeatNormalizer" or m2.rel != m.rel:
                        continue
                    meth = pf.methods(c2).get(f.attr)
                    if meth is not None:
                        out.append((meth, self.bind(meth, call, True)))
                if not out:
                    raise core.AnalysisError("no FeatNormalizer subclass defines %s" % f.attr)
                return out
        return None


def is_bare(e):
    """name / attribute / subscript of a name, products and constant powers of those, numeric factors"""
    if isinstance(e, (ast.Name, ast.Attribute, ast.Constant)):
        return True
    if isinstance(e, ast.Subscript):
        return is_bare(e.value)
    if isinstance(e, ast.Call) and isinstance(e.func, ast.Attribute) and e.func.attr in sd.PRESERVE_METHODS:
        return is_bare(e.func.value)  # rho.sum(0), rho.copy()
    if isinstance(e, ast.BinOp) and isinstance(e.op, ast.Mult):
        return is_bare(e.left) and is_bare(e.right)
    if isinstance(e, ast.BinOp) and isinstance(e.op, ast.Pow):
        return is_bare(e.left) and isinstance(e.right, (ast.Constant, ast.BinOp, ast.UnaryOp))
    return False


def den_entries(prog):
    out = []
    st = prog.module(ST)
    for nm in ("get_cider_exponent", "get_cider_exponent_gga", "dtauw", "get_uniform_tau",
               "get_single_orbital_tau", "get_s2", "ds2", "get_alpha", "dalpha"):
        out.append((ST, nm, st.func(nm)))
    fn = prog.module(FN)
    for nm in ("get_normalized_feature_vector", "get_derivative_of_normed_features",
               "get_derivative_wrt_unnormed_features"):
        out.append((FN, "FeatNormalizerList." + nm, er.anchor(prog, FN, "FeatNormalizerList." + nm)[1]))
    td = prog.module(TD)
    nsl = 0
    for cname, cls in td.classes.items():
        if cname.startswith("SL") and cname.endswith("Map"):
            nsl += 1
            for mn in ("fill_feat_", "fill_deriv_"):
                meth = pf.methods(cls).get(mn)
                if meth is None:
                    raise core.AnalysisError("%s.%s vanished" % (cname, mn))
                out.append((TD, "%s.%s" % (cname, mn), meth))
    if nsl < 6:
        raise core.AnalysisError("fewer than the 6 SL*Map classes found in %s" % TD)
    ni = prog.module(NI)
    found = False
    for cname, cls in ni.classes.items():
        meth = pf.methods(cls).get("eval_xc_cider")
        if meth is not None:
            out.append((NI, "%s.eval_xc_cider" % cname, meth))
            found = True
    if not found:
        raise core.AnalysisError("eval_xc_cider vanished from %s" % NI)
    return out


def baseline_entries(prog):
    """native baselines: every function of baselines.py reachable from the public registry BASELINE_CODES
    that receives (a slice of) the raw feature array -- the registered functions, the per-spin kernels they
    hand on as callables, the sigma reconstruction behind GGA_C_PBE"""
    bl = prog.module(BL)
    g = er.baseline_graph(bl)
    out = [(BL, name, bl.functions[name]) for name in sorted(g["reach"]) if g["features"].get(name)]
    if len(g["helpers"]) < 3:
        raise core.AnalysisError("fewer than 3 per-spin exchange kernels found behind BASELINE_CODES in %s" % BL)
    return out


def rule_singular_override(chk, d, n_entries):
    """Outputs (returned values, stores through parameters) must not carry a singular factor
    that a masked override in the same function was written to repair."""
    I = d.interp
    n = 0
    for sk in I.sinks.values():
        fn, node, taint = sk["func"], sk["node"], sk["taint"]
        m = d.mod(fn)
        qual = pf.qualname(fn)
        text = pf.src(node).splitlines()[0][:110]
        inst = "%s: %s" % (qual, text)
        n += 1
        if not taint:
            chk.ok("singular-override", inst)
            continue
        repaired = I.cleansed.get(id(fn), {})
        hit = sorted(r for r in taint if r in repaired)
        if hit:
            ov = repaired[hit[0]]
            chk.violation("singular-override", m.rel, qual, text, node.lineno,
                          "%s may be non-finite where `%s` vanishes: a division / negative power / log by a "
                          "factor that is zero there reaches this output, although the function repairs exactly "
                          "that singular set with the masked override `%s` (line %d) -- the override is applied "
                          "before the last operation that re-introduces the singular factor"
                          % (sk["what"], hit[0], pf.src(ov)[:60], getattr(ov, "lineno", 0)), instance=inst)
        else:
            known = sorted(r for r in taint if r != sd.UNKNOWN_ROOT)
            chk.ok("singular-override", inst + " undecided", nontrivial=False)
            if known:
                chk.note("singular-override", "%s:%s" % (m.rel, qual),
                         "`%s`: possibly singular where %s vanish(es) and no masked override repairs it in this "
                         "function (may be guarded by the caller); not reported" % (text, known))
    chk.count("outputs checked for re-introduced singular factors", n)


def rule_guarded_den(chk, prog):
    d = Den(chk, prog)
    entries = den_entries(prog) + baseline_entries(prog)
    for rel, qual, fn in entries:
        d.interp.call_function(fn, {})
    chk.guard(lambda c: rule_singular_override(c, d, len(entries)))
    chk.count("numeric routines analysed (entries)", len(entries))
    chk.count("abstract function evaluations", len(d.interp.memo))
    nsite = 0
    for s in d.interp.sites.values():
        if s.den is None or not s.den.dep:
            continue
        nsite += 1
        m = d.mod(s.func)
        qual = pf.qualname(s.func)
        text = pf.src(s.node)
        if len(text) > 110:
            text = text[:107] + "..."
        inst = "%s: %s  [denominator %s : %r]" % (qual, text, s.den_src, s.den)
        if s.den.sign == sd.P:
            chk.ok("guarded-den", inst)
            continue
        den_node = s.node.right if isinstance(s.node, (ast.BinOp,)) and s.kind == "div" else (
            s.node.left if isinstance(s.node, ast.BinOp) else None)
        if isinstance(s.node, ast.AugAssign):
            den_node = s.node.value if s.kind == "div" else s.node.target
        if isinstance(s.node, ast.Call):
            den_node = s.node.args[1] if s.kind == "div" else s.node.args[0]
        if s.guarded_where and s.where_no_out:
            chk.violation("guarded-den", m.rel, qual, text, s.node.lineno,
                          "the division is masked with `where=` but no `out=` array is given: numpy leaves the "
                          "masked-out entries of the result UNINITIALISED (arbitrary memory, possibly nan/inf), and "
                          "they are used here as if they were zero", instance=inst)
            continue
        if s.guarded_where:
            chk.ok("guarded-den", inst + " guarded by where=", nontrivial=False)
            continue
        if not s.den.cl and den_node is not None and is_bare(den_node):
            what = "divides by" if s.kind == "div" else "raises to a possibly negative power"
            chk.violation("guarded-den", m.rel, qual, text, s.node.lineno,
                          "%s `%s`, which depends on the density, is only known to be %s, and has no clamp "
                          "(np.maximum(tol, .), masked store of a positive cutoff, `+ eps`) anywhere on its "
                          "definition chain: a vanishing density gives inf/nan here" % (
                              what, s.den_src, {"Z": ">= 0", "U": "of unknown sign"}[s.den.sign]),
                          instance=inst)
        else:
            chk.ok("guarded-den", inst + " undecided", nontrivial=False)
            chk.note("guarded-den", "%s:%s" % (m.rel, qual),
                     "`%s`: denominator `%s` not proven > 0 by the sign domain (%r); not reported because %s"
                     % (text, s.den_src, s.den,
                        "a clamp lies on its definition chain" if s.den.cl else "it is a compound expression"))
    chk.count("density-dependent division/power sites", nsite)


# ----------------------------------------------------------------------------
# rule 5: the cutoff reaches the parameter it is meant for; it is a cutoff on the total density
# ----------------------------------------------------------------------------
def rule_arg_landing(chk, prog):
    """Calls of the model evaluators whose class is fixed by an enclosing isinstance test: a positional
    argument whose own name is the name of a parameter of the callee must be bound to that parameter
    (`self.mlxc(X0TN, rho_tuple, self.rhocut)` binds self.rhocut to vrho_tuple: the cutoff stays 0)."""
    classes = {}
    for rel in (XE, XE2):
        for cname, cls in prog.module(rel).classes.items():
            classes[cname] = (prog.module(rel), cls)
    n = 0
    for rel in (NI, XE, XE2):
        mod = prog.module(rel)
        for fn in [x for x in ast.walk(mod.ast) if isinstance(x, (ast.FunctionDef, ast.AsyncFunctionDef))]:
            for call in pf.walk_no_nested(fn):
                if not isinstance(call, ast.Call) or not isinstance(call.func, (ast.Attribute, ast.Name)):
                    continue
                recv = pf.src(call.func)
                cname = None
                for t, pol, kind in cfgm.conditions_at(call):
                    if pol and isinstance(t, ast.Call) and pf.call_name(t) == "isinstance" and len(t.args) == 2 \
                            and pf.src(t.args[0]) == recv and isinstance(t.args[1], ast.Name) and t.args[1].id in classes:
                        cname = t.args[1].id
                if cname is None:
                    continue
                cmod, ccls = classes[cname]
                r = prog.find_method(cmod, ccls, "__call__")
                if r is None:
                    continue
                params = [a.arg for a in r[2].args.posonlyargs + r[2].args.args][1:]
                n += 1
                inst = "%s: %s(...) resolved to %s.__call__(%s)" % (pf.qualname(fn), recv, cname, ", ".join(params))
                bad = None
                for i, a in enumerate(call.args):
                    tail = a.attr if isinstance(a, ast.Attribute) else (a.id if isinstance(a, ast.Name) else None)
                    if tail in params and i < len(params) and params[i] != tail:
                        bad = (a, tail, params[i])
                    elif tail in params and i >= len(params):
                        bad = (a, tail, "<no parameter>")
                if bad:
                    a, tail, got = bad
                    chk.violation("arg-landing", rel, pf.qualname(fn), pf.src(call)[:110], call.lineno,
                                  "`%s` is passed positionally and lands in the parameter `%s` of %s.__call__, not in "
                                  "`%s`: the callee keeps its default %s (a low-density cutoff passed this way is "
                                  "silently switched off)" % (pf.src(a), got, cname, tail, tail), instance=inst)
                else:
                    chk.ok("arg-landing", inst)
    if n < 2:
        raise core.AnalysisError("fewer than 2 model calls with a class fixed by isinstance were found")


def rule_cutoff_total(chk):
    """C07's `cutoff` rule (the density compared with the user's cutoff is nspin-equivalent to the TOTAL
    density) is a necessary condition of "points below the model's cutoff contribute exactly zero": re-reported
    here.  Same engine, same code; only that rule is run."""
    import importlib
    c07 = importlib.import_module("checks.c07")
    sub = core.Check("C07", chk.tree, tier=chk.tier, seed=chk.seed)
    sub.guard(c07.rule_rhocut, c07.Ctx(sub))
    known = core.load_known("C07")
    for e in sub.errors:
        raise core.AnalysisError("C07's cutoff rule could not run: %s" % e.splitlines()[0][:200])
    for rule, inst, ok, nt, detail in sub.obligations:
        if ok:
            chk.ok("via-C07:cutoff", inst, nontrivial=nt)
    for f in sub.findings:
        if f.key in known:
            continue
        chk.violation("via-C07:cutoff", f.file, f.func, f.construct, f.line, f.msg)


# ----------------------------------------------------------------------------
# rule 6: exp overflow ratios in the feature maps
# ----------------------------------------------------------------------------
def _bounded_exp_arg(a):
    """-abs(..), -(..)**2, -(x*x): the exponential is <= 1"""
    if isinstance(a, ast.UnaryOp) and isinstance(a.op, ast.USub):
        o = a.operand
        if isinstance(o, ast.Call) and pf.call_name(o) in ("np.abs", "np.fabs", "np.absolute", "abs", "np.square"):
            return True
        if isinstance(o, ast.BinOp) and isinstance(o.op, ast.Pow) and isinstance(o.right, ast.Constant) \
                and isinstance(o.right.value, int) and o.right.value % 2 == 0:
            return True
        if isinstance(o, ast.BinOp) and isinstance(o.op, ast.Mult) and pf.src(o.left) == pf.src(o.right):
            return True
        if isinstance(o, ast.BinOp) and isinstance(o.op, ast.Mult):
            return _bounded_exp_arg(ast.UnaryOp(op=ast.USub(), operand=o.left)) or \
                _bounded_exp_arg(ast.UnaryOp(op=ast.USub(), operand=o.right))
    return False


def rule_exp_ratio(chk, prog):
    """A quotient whose numerator and denominator both contain the same unbounded exponential
    (exp(t) / (1 + exp(t))**2) is inf / inf = nan for large t although its limit is finite; it must be
    evaluated in a bounded form (exp(-|t|))."""
    td = prog.module(TD)
    n = 0
    for m, c in prog.subclasses("FeatureNormalizer"):
        if m.rel != TD:
            continue
        for mname in ("fill_feat_", "fill_deriv_"):
            fn = pf.methods(c).get(mname)
            if fn is None:
                continue
            unb = set()

            def mentions_unbounded(e):
                for x in ast.walk(e):
                    if isinstance(x, ast.Name) and x.id in unb:
                        return x.id
                    if isinstance(x, ast.Call) and pf.call_name(x) in ("np.exp", "numpy.exp") and x.args \
                            and not _bounded_exp_arg(x.args[0]):
                        return pf.src(x)[:40]
                return None
            nexp = 0
            bad = None
            stmts = sorted((s_ for s_ in pf.walk_no_nested(fn) if isinstance(s_, (ast.Assign, ast.AugAssign))),
                           key=lambda s_: (s_.lineno, s_.col_offset))
            for st in stmts:
                for d in ast.walk(st.value):
                    if isinstance(d, ast.BinOp) and isinstance(d.op, ast.Div):
                        a, b = mentions_unbounded(d.left), mentions_unbounded(d.right)
                        if a and b and a == b:
                            bad = bad or (st, a)
                if isinstance(st, ast.Assign) and len(st.targets) == 1 and isinstance(st.targets[0], ast.Name):
                    t = st.targets[0].id
                    v = st.value
                    if isinstance(v, ast.Call) and pf.call_name(v) in ("np.exp", "numpy.exp") and v.args:
                        nexp += 1
                        (unb.discard if _bounded_exp_arg(v.args[0]) else unb.add)(t)
                    elif mentions_unbounded(v) and not any(isinstance(x, ast.BinOp) and isinstance(x.op, ast.Div)
                                                           for x in ast.walk(v)):
                        unb.add(t)
                    else:
                        unb.discard(t)
            if not nexp and not any(isinstance(x, ast.Call) and pf.call_name(x) == "np.exp" for x in ast.walk(fn)):
                continue
            n += 1
            inst = "%s.%s: no quotient has the same unbounded exponential above and below" % (c.name, mname)
            if bad:
                st, a = bad
                chk.violation("exp-ratio", TD, "%s.%s" % (c.name, mname), pf.src(st)[:110], st.lineno,
                              "`%s` is an exponential of an argument that is not bounded above, and it occurs in the "
                              "numerator and in the denominator of this quotient: for a large argument both overflow "
                              "and the result is inf / inf = nan, although the limit is finite (evaluate at -|t|)" % a,
                              instance=inst)
            else:
                chk.ok("exp-ratio", inst)
    if n < 2:
        raise core.AnalysisError("fewer than 2 feature-map routines use np.exp in %s" % TD)


# ----------------------------------------------------------------------------
# rule 4: index clipping for the spline plans (C, clang AST)
# ----------------------------------------------------------------------------
def rule_index_clip(chk, tree):
    # the Python side hands (di, derivi, size - 1, n) to cider_ind_clip and the spline evaluators then use
    # (int) di as a row index without further checks
    src = tree.read(PL)
    if "cider_ind_clip" not in src:
        raise core.AnalysisError("plans.py no longer calls cider_ind_clip: the anchor of this rule moved")
    tu = cfacts.TU(tree, CC_C)
    params = tu.params("cider_ind_clip")
    ptrs = [p for p in params if "*" in p.get("type", {}).get("qualType", "")]
    ints = [p for p in params if p.get("type", {}).get("qualType", "") == "int"]
    if len(ptrs) != 2 or len(ints) != 2:
        raise core.AnalysisError("cider_ind_clip signature changed (expected two arrays, size-1, ngrids)")
    arr, size = ptrs[0]["name"], ints[0]["name"]
    res_loop = cclamp.ClampLoop(tu, "cider_ind_clip", arr, size)
    res = res_loop.run()
    if not res:
        raise core.AnalysisError("cider_ind_clip: no final store into %s found" % arr)
    for idx, v, text, line in res:
        inst = "cider_ind_clip: %s[%s] finally stored within [0, %s)" % (arr, idx, size)
        if v.lo and v.hi:
            chk.ok("index-clip", inst, detail=text)
        else:
            miss = [w for w, okb in (("the lower bound 0", v.lo), ("the upper bound %s" % size, v.hi)) if not okb]
            chk.violation("index-clip", CC_REL, "cider_ind_clip", text, line,
                          "the value finally stored in %s[%s] is not bounded by %s on every path: a guard that was "
                          "evaluated on another (stale or earlier) copy of the index does not bound the value "
                          "stored here; the spline evaluators use (int) %s[%s] as a table row without checks"
                          % (arr, idx, " nor by ".join(miss), arr, idx), instance=inst)
    # the derivative array clamped along with the index: its out-of-range value must be ASSIGNED a constant
    # (selected), not obtained by arithmetic on the incoming element (which may be +-inf: 0 * inf = nan), and it
    # must be the constant under every condition under which the index is replaced by a bound
    cl = res_loop
    for pname, idx, v, text, line in cl.companions:
        inst = "cider_ind_clip: %s[%s] is selected (kept or set to a constant) exactly when the index is clamped" % (
            pname, idx)
        if v is None:
            chk.violation("index-clip", CC_REL, "cider_ind_clip", "%s[%s]" % (pname, idx), line,
                          "the loop clamps %s[%s] but never stores %s[%s]: the derivative of a clamped index is kept"
                          % (arr, idx, pname, idx), instance=inst)
        elif cclamp.ARITH in v.src:
            chk.violation("index-clip", CC_REL, "cider_ind_clip", text, line,
                          "%s[%s] is obtained by arithmetic on its incoming value (`%s`): multiplying by a 0/1 mask does "
                          "not clear a non-finite derivative (0 * inf = nan; cider_ind_etb yields +-inf for a "
                          "vanishing exponent) -- the out-of-range case must assign the constant" % (pname, idx, text),
                          instance=inst)
        elif cclamp.INCOMING in v.src and cl.clamp_preds - v.guards:
            chk.violation("index-clip", CC_REL, "cider_ind_clip", text, line,
                          "%s[%s] keeps its incoming value under a condition under which the index is replaced by a "
                          "bound: the derivative is not zeroed for every clamped index" % (pname, idx), instance=inst)
        else:
            chk.ok("index-clip", inst, detail=text)


# ----------------------------------------------------------------------------
def analyse(chk):
    tree = chk.tree
    prog = pf.Program(tree, [ST, FN, TD, NI, XE, XE2, BL])
    chk.rule("clamp-zero", "mask from the unclamped density; every returned derivative zeroed under it; value "
                           "zeroed or computed from the clamped density")
    chk.rule("cutoff-pair", "every spin mode zeroes value and derivative under masks of the same density/cutoff")
    chk.rule("guarded-den", "density-dependent denominators are proven > 0 in the sign domain")
    chk.rule("singular-override", "no output carries a singular factor after the masked override that repairs it")
    chk.guard(rule_clamp_zero, prog)
    chk.guard(rule_cutoff_pair, prog)
    chk.rule("stale-loop-var", "mapped-kernel classes: no `for` target is read after its loop has ended (a zeroing "
                               "store dedented out of the per-spin loop zeroes the last channel only)")
    chk.guard(lambda c_: er.check_stale_loop_vars(c_, prog, ((XE, "MappedDFTKernel"), (XE2, "MappedDFTKernel2"))))
    chk.floor("stale-loop-var", 4, "methods with loops in MappedDFTKernel{,2} and their bases")
    chk.guard(rule_guarded_den, prog)
    chk.rule("arg-landing", "model calls: a positional argument named like a callee parameter lands in that parameter")
    chk.guard(rule_arg_landing, prog)
    chk.floor("arg-landing", 2, "the two model calls of eval_xc_cider")
    chk.rule("via-C07:cutoff", "the density compared with the cutoff is the total density (C07's rule, re-reported)")
    chk.guard(rule_cutoff_total)
    chk.floor("via-C07:cutoff", 4, "cutoff comparisons in the exponent functions and the two mapped kernels")
    chk.rule("exp-ratio", "feature maps: no quotient with the same unbounded exponential in numerator and denominator")
    chk.guard(rule_exp_ratio, prog)
    chk.floor("exp-ratio", 2, "feature-map routines using np.exp")
    chk.rule("index-clip", "cider_ind_clip stores an index within [0, size) on every path (clang AST)")
    chk.guard(rule_index_clip, tree)
    chk.floor("index-clip", 1, "one index array element per iteration")
    chk.floor("singular-override", 20, "returns and output-parameter stores of the frozen routines and baselines")
    chk.floor("clamp-zero", 10, "7 routines: masks + derivative arrays + values")
    chk.floor("cutoff-pair", 4, "2 classes x 3 modes + ordering")
    chk.floor("guarded-den", 40, "density-dependent division / negative-power sites in the frozen routine list")
    chk.assumptions += [
        "physically admissible inputs: rho, sigma, tau, |grad rho| >= 0 (parameters named rho/sigma/tau/mag_grad, and "
        "the raw semilocal features read by the SL*Map classes)",
        "cutoffs are > 0: parameters/attributes named rhocut / cutoff, and the module constant ALPHA_TOL (folded)",
        "SL*Map.gamma > 0 (documented scale parameter)",
        "array reductions (.sum/.mean) act on non-empty axes",
        "rows of the raw feature array X0T read by the native baselines are >= 0 (density, s^2, damping feature)",
        "cider_ind_clip: the spline table has at least two rows (size - 1 >= 1, so 0 <= size - 1 - 1e-10)",
    ]
    chk.not_decided += [
        "end-to-end NaN-freedom (masking several calls away from a division, libxc, C code)",
        "overflow for huge gradients / huge tau",
        "singularities that no masked override in the same function repairs (listed as notes: get_sigma/get_dsigma "
        "divide by rho_up + rho_dn)",
        "that the derivative array is zeroed exactly when cider_ind_clip clamps the index",
        "denominators whose positivity depends on fitted constants (InhomogeneityNormalizer/GeneralNormalizer "
        "`1 + const2 * inh`) -- listed as notes",
    ]


def _move_baseline_call_up(text):
    call = "        self.apply_libxc_baseline_(f, df, rho_tuple, vrho_tuple)\n"
    guard = "        if rhocut > 0:\n            cond = rho_tuple[0].shape[0] * rho_tuple[0] < rhocut\n"
    if text.count(call) != 1 or text.count(guard) != 1:
        return None
    return text.replace(call, "").replace(guard, call + guard)


def _move_zeroing_to_end(text):
    a = text.find("        if rhocut > 0:\n            cond = rho_tuple[0].shape[0] * rho_tuple[0] < rhocut\n")
    b = text.find("        self.apply_libxc_baseline_(f, df, rho_tuple, vrho_tuple)\n")
    c = "        dfdX0T = self.apply_descriptor_grad(X0T, df, force_polarize=True)\n"
    if a < 0 or b < a or text.count(c) != 1:
        return None
    block = text[a:b]
    rest = text[:a] + text[b:]
    return rest.replace(c, c + block)


def mutants(tree):
    return [
        Mutant("drop dadtau[cond] = 0 (mgga exponent)", ST, "    dadtau[cond] = 0\n    if not isarray:", "    if not isarray:",
               expect="clamp-zero"),
        Mutant("drop dadsigma[cond] = 0 (gga exponent)", ST, "    dadrho[cond] = 0\n    dadsigma[cond] = 0\n    if not isarray:\n        ascale = ascale.item()\n        dadrho = dadrho.item()\n        dadsigma = dadsigma.item()\n    return ascale, dadrho, dadsigma\n",
               "    dadrho[cond] = 0\n    if not isarray:\n        ascale = ascale.item()\n        dadrho = dadrho.item()\n        dadsigma = dadsigma.item()\n    return ascale, dadrho, dadsigma\n",
               expect="clamp-zero"),
        Mutant("zero store moved before the last update", ST,
               "        dadrho -= 2 * grad_fac * sigma / (rho * rho * rho)\n    else:\n        dadsigma = np.zeros_like(ascale)\n    dadrho[cond] = 0\n    dadsigma[cond] = 0\n    dadtau[cond] = 0\n",
               "        dadrho[cond] = 0\n        dadrho -= 2 * grad_fac * sigma / (rho * rho * rho)\n    else:\n        dadsigma = np.zeros_like(ascale)\n        dadrho[cond] = 0\n    dadsigma[cond] = 0\n    dadtau[cond] = 0\n",
               expect="clamp-zero"),
        Mutant("mgga exponent: early return for array input leaves before the sub-cutoff derivative zeroing", ST,
               "        dadsigma = np.zeros_like(ascale)\n    dadrho[cond] = 0\n    dadsigma[cond] = 0\n    dadtau[cond] = 0\n",
               "        dadsigma = np.zeros_like(ascale)\n    dadsigma[cond] = 0\n    if isarray and grad_mul == 0:\n"
               "        return ascale, dadrho, dadsigma, dadtau\n"
               "    dadrho[cond] = 0\n    dadtau[cond] = 0\n",
               expect="clamp-zero"),
        Mutant("ds2: second derivative not zeroed", ST, "    res[0][cond] = 0.0\n    res[1][cond] = 0.0\n", "    res[0][cond] = 0.0\n",
               expect="clamp-zero"),
        Mutant("dalpha: mask computed after the clamp", ST,
               "def dalpha(rho, sigma, tau):\n    cond = rho < ALPHA_TOL\n    rho = np.maximum(ALPHA_TOL, rho)\n",
               "def dalpha(rho, sigma, tau):\n    rho = np.maximum(ALPHA_TOL, rho)\n    cond = rho < ALPHA_TOL\n",
               expect="clamp-zero"),
        Mutant("get_s2: value no longer zeroed", ST, "    s[cond] = 0.0\n    return s * s\n", "    return s * s\n",
               expect="clamp-zero"),
        Mutant("exponent: density clamp removed", ST, "    rho[cond] = rhocut\n    sigma[cond] = 0\n    tau[cond] = 0\n",
               "    sigma[cond] = 0\n    tau[cond] = 0\n", expect=None),
        Mutant("dalpha: np.maximum(ALPHA_TOL, rho) removed", ST,
               "def dalpha(rho, sigma, tau):\n    cond = rho < ALPHA_TOL\n    rho = np.maximum(ALPHA_TOL, rho)\n",
               "def dalpha(rho, sigma, tau):\n    cond = rho < ALPHA_TOL\n", expect="guarded-den"),
        Mutant("get_alpha: np.maximum(ALPHA_TOL, rho) removed", ST,
               "def get_alpha(rho, sigma, tau):\n    cond = rho < ALPHA_TOL\n    rho = np.maximum(ALPHA_TOL, rho)\n",
               "def get_alpha(rho, sigma, tau):\n    cond = rho < ALPHA_TOL\n", expect="guarded-den"),
        Mutant("dtauw: + 1e-16 dropped", ST, "1 / (8 * rho + 1e-16)\n\n\ndef get_uniform_tau", "1 / (8 * rho)\n\n\ndef get_uniform_tau",
               expect="guarded-den"),
        Mutant("get_s2: + 1e-16 dropped", ST, "def get_s2(rho, sigma):\n    # TODO should this cutoff not be needed if everything else is stable?\n    # rho = np.maximum(1e-10, rho)\n    cond = rho < ALPHA_TOL\n    b = 2 * (3 * np.pi * np.pi) ** (1.0 / 3)\n    s = np.sqrt(sigma) / (b * rho ** (4.0 / 3) + 1e-16)",
               "def get_s2(rho, sigma):\n    # TODO should this cutoff not be needed if everything else is stable?\n    # rho = np.maximum(1e-10, rho)\n    cond = rho < ALPHA_TOL\n    b = 2 * (3 * np.pi * np.pi) ** (1.0 / 3)\n    s = np.sqrt(sigma) / (b * rho ** (4.0 / 3))",
               expect="guarded-den"),
        Mutant("eval_xc_cider: + 1e-16 dropped", NI, "exc_ml / (rho[:, 0].sum(axis=0) + 1e-16)", "exc_ml / rho[:, 0].sum(axis=0)",
               expect="guarded-den"),
        Mutant("normalizer density floor removed", FN, "        rho_term = np.maximum(X0T[:, 0], self.cutoff)\n", "        rho_term = X0T[:, 0]\n",
               expect="guarded-den"),
        Mutant("SLBMap: density floor removed in fill_feat_", TD,
               "        rho = np.maximum(x[self.i], 1e-10)\n        tau0 = self.const * rho ** (5.0 / 3)\n        tauw = x[self.j] / (8 * rho)\n        tau = x[self.k]\n        # y[:]",
               "        rho = x[self.i]\n        tau0 = self.const * rho ** (5.0 / 3)\n        tauw = x[self.j] / (8 * rho)\n        tau = x[self.k]\n        # y[:]",
               expect="guarded-den"),
        Mutant("chachiyo: small-s2 override moved before the chain-rule factor", BL,
               "    dchfx *= dx\n    chfx[s2 < 1e-8] = 1 + 8 * s2[s2 < 1e-8] / 27\n    dchfx[s2 < 1e-8] = 8.0 / 27\n",
               "    chfx[s2 < 1e-8] = 1 + 8 * s2[s2 < 1e-8] / 27\n    dchfx[s2 < 1e-8] = 8.0 / 27\n    dchfx *= dx\n",
               expect="singular-override"),
        Mutant("chachiyo: value divided by log(1+x) again after its override", BL,
               "    e[:] += LDA_FACTOR * rho ** (4.0 / 3) * chfx\n    dedx[0] += 4.0 / 3 * LDA_FACTOR * rho ** (1.0 / 3) * chfx\n    dedx[1] += LDA_FACTOR * rho ** (4.0 / 3) * dchfx",
               "    e[:] += LDA_FACTOR * rho ** (4.0 / 3) * chfx\n    dedx[0] += 4.0 / 3 * LDA_FACTOR * rho ** (1.0 / 3) * chfx * x / np.log(1 + x)\n    dedx[1] += LDA_FACTOR * rho ** (4.0 / 3) * dchfx",
               expect="singular-override"),
        Mutant("v2: cutoff zeroing moved after the in-place baseline call", XE2, fn=_move_baseline_call_up,
               expect="cutoff-pair"),
        Mutant("v2: cutoff zeroing moved after the descriptor gradient", XE2, fn=_move_zeroing_to_end,
               expect="cutoff-pair"),
        Mutant("cider_ind_clip: upper test on a stale copy of the index", CC_REL,
               "            di = di_g[g];\n            cond = di < sizem1;", "            cond = di < sizem1;",
               expect="index-clip"),
        Mutant("cider_ind_clip: upper clamp compares with ngrids", CC_REL, "cond = di < sizem1;", "cond = di < ngrids;",
               expect="index-clip"),
        Mutant("cider_ind_clip: derivative multiplied by the in-range mask", CC_REL,
               "            derivi_g[g] = (cond ? derivi_g[g] : 0);\n            di_g[g] = (cond ? di : dsize);",
               "            derivi_g[g] *= cond;\n            di_g[g] = (cond ? di : dsize);", expect="index-clip"),
        Mutant("cider_ind_clip: derivative kept at the upper clamp", CC_REL,
               "            derivi_g[g] = (cond ? derivi_g[g] : 0);\n            di_g[g] = (cond ? di : dsize);",
               "            di_g[g] = (cond ? di : dsize);", expect="index-clip"),
        Mutant("cider_ind_clip: lower clamp dropped", CC_REL, "di_g[g] = (cond ? di : 0);", "di_g[g] = di;",
               expect="index-clip"),
        Mutant("v1: per-spin SEP mask merged into the summed-density mask", XE,
               "            if self.mode == \"SEP\":\n                cond = X0T[:, 0] < rhocut\n                for s in range(X0T.shape[0]):\n                    res[s][cond[s]] = 0.0\n                    dres[s][:, cond[s]] = 0.0\n            else:\n                cond = X0T[:, 0].mean(0) < rhocut\n                res[..., cond] = 0.0\n                dres[..., cond] = 0.0\n",
               "            cond = X0T[:, 0].mean(0) < rhocut\n            res[..., cond] = 0.0\n            dres[..., cond] = 0.0\n",
               expect="cutoff-pair"),
        Mutant("v2: SEP value and derivative zeroed under the summed-density mask", XE2,
               "            if self.mode == \"SEP\":\n                f[cond] = 0.0\n                df[cond] = 0.0\n",
               "            if self.mode == \"SEP\":\n                tot = rho_tuple[0].sum(0) < rhocut\n                f[:, tot] = 0.0\n                df[:, tot] = 0.0\n",
               expect="cutoff-pair"),
        Mutant("v1 SEP: derivative zeroing dedented out of the spin loop", XE,
               "                    res[s][cond[s]] = 0.0\n                    dres[s][:, cond[s]] = 0.0\n",
               "                    res[s][cond[s]] = 0.0\n                dres[s][:, cond[s]] = 0.0\n",
               expect="stale-loop-var"),
        Mutant("v2 POL/NPOL: derivative cut per spin channel, value on the total density", XE2,
               "                df[..., scond, :] = 0.0\n", "                df[cond, :] = 0.0\n", expect="cutoff-pair"),
        Mutant("v2 POL/NPOL: derivative additionally cut per spin channel where the value is kept", XE2,
               "                df[..., scond, :] = 0.0\n", "                df[cond | scond, :] = 0.0\n",
               expect="cutoff-pair"),
        Mutant("numint: rhocut passed positionally to MappedXC2 (lands in vrho_tuple)", NI,
               "                X0TN, rho_tuple, rhocut=self.rhocut\n", "                X0TN, rho_tuple, self.rhocut\n",
               expect="arg-landing"),
        Mutant("v1 non-SEP cutoff compares twice the total density", XE, "cond = X0T[:, 0].mean(0) < rhocut",
               "cond = X0T[:, 0].sum(0) < rhocut", expect="via-C07"),
        Mutant("V4Map derivative evaluated at the unbounded exponential", TD,
               "        tmp = np.exp(-np.abs(self.gamma * (x[i] - x[j])))\n        tmp = dfdy",
               "        tmp = np.exp(self.gamma * (x[i] - x[j]))\n        tmp = dfdy", expect="exp-ratio"),
        Mutant("eval_xc_cider: masked np.divide without out=", NI,
               "exc[:] += exc_ml / (rho[:, 0].sum(axis=0) + 1e-16)",
               "exc[:] += np.divide(exc_ml, rho[:, 0].sum(axis=0), where=rho[:, 0].sum(axis=0) >= self.rhocut)",
               expect="guarded-den"),
        Mutant("zero only res under rhocut", XE, "                res[..., cond] = 0.0\n                dres[..., cond] = 0.0\n",
               "                res[..., cond] = 0.0\n", expect="cutoff-pair"),
        Mutant("zero only f under rhocut (v2 SEP)", XE2, "                f[cond] = 0.0\n                df[cond] = 0.0\n", "                f[cond] = 0.0\n",
               expect="cutoff-pair"),
    ]


if __name__ == "__main__":
    sys.exit(core.main(PROP, analyse, mutants, __doc__))
