"""
C15 (call-history dependent) -- _SubsetMixin / _SpinSymMixin re-entrancy lock
is not released when the wrapped kernel raises.  After one rejected call
(e.g. eval_gradient=True together with Y, which sklearn kernels refuse with a
ValueError) the instance stays `_locked`, and every later __call__ / diag /
k_and_deriv silently skips the column selection / spin symmetrisation and
evaluates the base kernel on ALL columns of X.

Expected: a call that raised leaves the kernel unchanged; kernel(X) afterwards
equals kernel(X) before, and equals the base kernel on X[:, indexes].
"""
import sys

import numpy as np

from ciderpress.models import kernels as K

rng = np.random.default_rng(0)
X = rng.uniform(size=(5, 4))
Y = rng.uniform(size=(3, 4))
fails = []

cases = {
    "SubsetRBF": K.SubsetRBF([0, 2], 0.7),
    "SubsetARBF": K.SubsetARBF([0, 2], 2, 0.7, [0.2, 0.5, 1.0]),
    "SpinSymRBF": K.SpinSymRBF([0, 1], [2, 3], 0.7),
}
for name, kern in cases.items():
    before = kern(X)
    dbefore = kern.diag(X)
    kd_before = kern.k_and_deriv(X, Y)
    try:
        if name == "SubsetARBF":
            kern(X, Y[:, :1])  # malformed Y: rejected with an IndexError
        else:
            kern(X, Y, eval_gradient=True)  # rejected by sklearn's RBF
        print("[%s] the bad call did not raise" % name)
    except (ValueError, IndexError) as e:
        print("[%s] bad call rejected: %s: %s" % (name, type(e).__name__, e))
    after = kern(X)
    err = np.abs(after - before).max()
    print("    _locked = %s; max|k(X) after - k(X) before| = %.3e" % (kern._locked, err))
    ok = err < 1e-14 and after.shape == before.shape
    try:
        ok = ok and np.allclose(kern.diag(X), dbefore, atol=1e-14)
        kd_after = kern.k_and_deriv(X, Y)
        ok = ok and kd_after[1].shape == kd_before[1].shape
        ok = ok and np.allclose(kd_after[1], kd_before[1], atol=1e-14)
    except Exception as e:
        print("    later call raised %r" % e)
        ok = False
    if not ok:
        fails.append(name)

if fails:
    print("FAIL:", fails)
    sys.exit(1)
print("OK")
